"""C03 - duty signatures are released only over the decided, validated duty data (spec/Runner.tla)."""
import json
import os
import random
import time

import vlib
from vlib import log

PROP = "C03"
MODULE = "MCRunner"
STATE_VARS = ["duty", "runH", "runIn", "dval", "finished", "ctrlH", "stored", "sigLog"]
DRIVER = "runner"
NOPRE_ROLES = "attester,sync_committee"
PRE_ROLES = "proposer,proposer_blinded,aggregator,contribution"


def _tier(tier):
    # covers: (cfg, roles, MaxSig of the cfg, leaves replayed (None = all), of which eviction histories first, extra edges)
    if tier == "quick":
        return dict(mc=["Runner_nopre.cfg", "Runner_pre.cfg"],
                    covers=[("Runner_evict_cover.cfg", NOPRE_ROLES, 3, 260, 150, 100),
                            ("Runner_evict_pre_cover.cfg", PRE_ROLES, 2, 300, 180, 80)],
                    random_runs=120, record_runs=150, chunk_lines=1700)
    return dict(mc=["Runner_nopre.cfg", "Runner_pre.cfg"],
                covers=[("Runner_nopre_cover.cfg", NOPRE_ROLES, 3, None, 0, 5000),
                        ("Runner_pre_cover.cfg", PRE_ROLES, 2, 4000, 0, 2000),
                        ("Runner_evict_cover.cfg", NOPRE_ROLES, 3, None, 0, 4000),
                        ("Runner_evict_pre_cover.cfg", PRE_ROLES, 2, 5000, 3000, 2000)],
                random_runs=4000, record_runs=3000, chunk_lines=6000)


# (cfg, roles, removed / changed guard)
ATTACKS = [
    ("Runner_attack_noheight.cfg", NOPRE_ROLES, "didDecideCorrectly without the height comparison"),
    ("Runner_attack_norevalidate.cfg", NOPRE_ROLES, "decided value not re-validated (validateDecidedConsensusData)"),
    ("Runner_attack_everydecided.cfg", NOPRE_ROLES, "every decided message of the running height is reported (no prevDecided in controller and runner)"),
    ("Runner_attack_noroute_pre.cfg", PRE_ROLES, "validateMessage without the validator key comparison (roles with a pre-consensus phase)"),
    ("Runner_attack_prevfromcontainer.cfg", NOPRE_ROLES, "prevDecided read from the controller's 2-slot container instead of State.RunningInstance: "
     "decided, two future decided messages evict the instance, replay of the decided message"),
    ("Runner_attack_prevfromcontainer_pre.cfg", PRE_ROLES, "prevDecided read from the controller's container (roles with a pre-consensus phase)"),
]
# thorough only: the other role family of each removed guard; removing the runner-side prevDecided alone yields no counterexample
# (the controller reports a decision once)
ATTACKS_THOROUGH = [
    ("Runner_attack_noheight_pre.cfg", PRE_ROLES, "didDecideCorrectly without the height comparison (roles with a pre-consensus phase)"),
    ("Runner_attack_norevalidate_pre.cfg", PRE_ROLES, "decided value not re-validated (roles with a pre-consensus phase)"),
    ("Runner_attack_everydecided_pre.cfg", PRE_ROLES, "every decided message of the running height is reported (roles with a pre-consensus phase)"),
    ("Runner_attack_noroute.cfg", NOPRE_ROLES, "Validator.validateMessage does not compare the validator key of the message id"),
    ("Runner_attack_noprev.cfg", NOPRE_ROLES, "runner-side prevDecided only (the controller's own check still holds: no counterexample expected)"),
    ("Runner_attack_noprev_pre.cfg", PRE_ROLES, "runner-side prevDecided only, roles with a pre-consensus phase (no counterexample expected)"),
]
# named deviation of the pinned commit (C03 finding signed-twice-evicted-undecided): its counterexample also tells which variant the tree implements
DETACHED = [("Runner_attack_code_detached.cfg", NOPRE_ROLES), ("Runner_attack_code_detached_pre.cfg", PRE_ROLES)]
DETACHED_DESC = ("prevDecided of the pinned commit: the running instance is pushed out of the controller's 2-slot container before it "
                 "decided, every delivery of its height's decided message signs again")


def _with_prevdec(cfg, variant):
    """cfg text with PrevDec set to the variant the tree implements; the repaired variant also keeps OnceDetached"""
    txt = open(os.path.join(vlib.SPEC, cfg)).read()
    if variant == "fixed":
        txt = txt.replace('PrevDec = "code"', 'PrevDec = "fixed"')
        if "INVARIANT SigWindow" in txt and "OnceDetached" not in txt:
            txt = txt.replace("INVARIANT SigWindow\n", "INVARIANT SigWindow\nINVARIANT OnceDetached\n")
    return {cfg: txt}


def _is_eviction_history(beh):
    """>= 2 decided messages for heights above the running duty, later a decided message for the duty's own height"""
    duty, above, hit = 0, set(), False
    for st in beh["steps"]:
        a = st["act"]
        if a.get("name") == "StartDuty" and a.get("ok"):
            duty, above = a["s"], set()
        elif a.get("name") == "RecvDecided" and duty:
            if a["h"] > duty:
                above.add(a["h"])
            elif a["h"] == duty and len(above) >= 2:
                hit = True
    return hit


def _tlc(module, cfg, **kw):
    """vlib.tlc, repeated when the JVM was killed from outside (another check's timeout handler kills every TLC)."""
    r = None
    for _ in range(3):
        r = vlib.tlc(module, cfg, **kw)
        if r.finished or r.violation or r.error or (kw.get("stop_after") and r.wall >= kw["stop_after"]):
            return r
        log("[C03] TLC run of %s ended without a result after %.0fs (killed?) - repeating" % (cfg, r.wall))
    return r


def _dump(module, cfg, **kw):
    out = None
    for _ in range(3):
        out = vlib.tlc_dump_graph(module, cfg, **kw)
        if out[0].finished or out[0].violation or out[0].error:
            return out
        log("[C03] graph dump of %s ended without a result (killed?) - repeating" % cfg)
    return out


def _collect(res, verdict, replay_path):
    for v in res["violations"]:
        verdict.violation(v["signature"], "%s [%s step %d]" % (v["description"], v["behaviour"], v["step"]), replay_path)


def _drive(binp, wd, name, behs, roles, maxsig, seed, verdict, allroles=False):
    inp = os.path.join(wd, name + ".ndjson")
    outp = os.path.join(wd, name + "_result.json")
    vlib.write_ndjson(inp, behs)
    args = ["-mode", "replay", "-in", inp, "-out", outp, "-roles", roles, "-maxsig", str(maxsig), "-seed", str(seed)]
    if allroles:
        args.append("-allroles")
    vlib.run_driver(binp, args, timeout=3000)
    res = json.load(open(outp))
    _collect(res, verdict, "%s#roles=%s;maxsig=%d;seed=%d;all=%d" % (inp, roles, maxsig, seed, 1 if allroles else 0))
    return res


# ----------------------------------------------------------------------------------------
# implementation -> specification: executions recorded from the real runners, validated by spec/RunnerTrace.tla
# ----------------------------------------------------------------------------------------
TRACE_MODULE = "RunnerTrace"
TRACE_CFG = {False: "RunnerTrace_nopre.cfg", True: "RunnerTrace_pre.cfg"}
TRACE_INVARIANTS = {
    "TSigPost": "a duty object was signed outside the window: not caused by a consensus message of this validator and role for the "
                "height of the running, unfinished duty's instance, or not contained in the decided, validated value",
    "TSigPre": "a validator-key signature that is neither a duty object nor the pre-consensus proof of the slot of the duty being started",
    "TSigOnce": "a decided duty object was signed twice",
    "TSigOnceDetached": "a decided duty object was signed twice (running instance dropped by the controller before it decided)",
}


def _trace_cfg(cfg, variant):
    txt = open(os.path.join(vlib.SPEC, cfg)).read()
    if variant == "fixed":
        txt = txt.replace('PrevDec = "code"', 'PrevDec = "fixed"')
        txt = txt.replace("INVARIANT TSigOnce\n", "INVARIANT TSigOnce\nINVARIANT TSigOnceDetached\n")
    return txt


def _validate_lines(lines, pre, variant, name, timeout=1800):
    """TLC on one concatenation of recorded executions. -> dict(status accepted|rejected|violated, line (1-based line of the
    event that was not explained / on whose state an invariant failed), invariant, generated)"""
    cfg = TRACE_CFG[pre]
    r = None
    for _ in range(3):
        r = vlib.tlc(TRACE_MODULE, cfg, name=name, workers=1, timeout=timeout, depth_first=True, heap="3g",
                     files={"trace.ndjson": "\n".join(lines) + "\n", cfg: _trace_cfg(cfg, variant)})
        if r.violation or r.error or r.finished or r.depth:
            break
        log("[C03] trace validation %s ended without a result after %.0fs (killed?) - repeating" % (name, r.wall))
    post = "TraceAccepted" in r.out and ("is false" in r.out or "violated" in r.out)
    if r.violation:
        if r.violation not in TRACE_INVARIANTS and r.violation != "TExplained":
            raise vlib.MachineryError("trace validation %s: unexpected TLC violation %s" % (name, r.violation))
        line = r.depth - 1
        if r.trace and isinstance(r.trace[-1].get("l"), int):
            line = r.trace[-1]["l"] - 1
        if r.violation == "TExplained":
            # the call made signatures, none of them broke a C03 invariant (those are checked first), but its error flag /
            # projection is not what Runner predicts: a conformance divergence at that event
            return {"status": "rejected", "line": line, "invariant": None, "generated": r.generated, "wall": r.wall}
        return {"status": "violated", "line": line, "invariant": r.violation, "generated": r.generated, "wall": r.wall}
    if r.error and not post:
        raise vlib.MachineryError("TLC error during trace validation %s: %s" % (name, r.error))
    if r.depth == 0 and not post:
        raise vlib.MachineryError("trace validation %s produced no result:\n%s" % (name, r.out[-1500:]))
    consumed = max(0, r.depth - 1)
    if consumed == len(lines) and not post:
        return {"status": "accepted", "line": consumed, "invariant": None, "generated": r.generated, "wall": r.wall}
    return {"status": "rejected", "line": consumed + 1, "invariant": None, "generated": r.generated, "wall": r.wall}


def _run_bounds(lines, line):
    """[first, last) line indices (0-based) of the execution that contains the 1-based line"""
    i = min(max(line - 1, 0), len(lines) - 1)
    a = i
    while a > 0 and '"event":"Reset"' not in lines[a]:
        a -= 1
    b = i + 1
    while b < len(lines) and '"event":"Reset"' not in lines[b]:
        b += 1
    return a, b


def _chunks(lines, maxlines):
    out, cur = [], []
    for ln in lines:
        if '"event":"Reset"' in ln and len(cur) >= maxlines:
            out.append(cur)
            cur = []
        cur.append(ln)
    if cur:
        out.append(cur)
    return out


def _retrace(binp, wd, path, name):
    outp = os.path.join(wd, name + "_result.json")
    rec = os.path.join(wd, name + "_rerecorded.ndjson")
    vlib.run_driver(binp, ["-mode", "retrace", "-in", path, "-out", outp, "-retrace-out", rec], timeout=1200)
    return json.load(open(outp)), rec


_stat_lock = __import__("threading").Lock()


def _validate_chunk(lines, pre, variant, name, binp, wd, verdict, stat):
    """validates one chunk; an execution that is rejected / violates an invariant is cut out and the rest is validated again"""
    for attempt in range(4):
        if not lines:
            return
        v = _validate_lines(lines, pre, variant, "%s-%d" % (name, attempt))
        nruns = len([1 for x in lines if '"event":"Reset"' in x])
        with _stat_lock:
            stat["generated"] += v["generated"]
            if v["status"] == "accepted":
                stat["accepted_runs"] += nruns
                stat["accepted_events"] += len(lines) - nruns
        if v["status"] == "accepted":
            return
        a, b = _run_bounds(lines, v["line"])
        bad = lines[v["line"] - 1] if 0 < v["line"] <= len(lines) else "?"
        head = json.loads(lines[a])
        if v["status"] == "violated":
            # an invariant of C03 failed on a state of a trace recorded from the real code: violation; the replay is the
            # recorded call sequence, which is also re-run on fresh real runners under the Go monitor right away
            sl = lines[a:v["line"]]
            rp = vlib.save_replay(PROP, "trace-%s-run%s-%s.ndjson" % (head.get("role"), head.get("run"), v["invariant"]), "\n".join(sl) + "\n")
            res, _ = _retrace(binp, wd, rp, "retrace_" + name)
            path = "retrace:%s#variant=%s" % (rp, variant)
            desc = "%s [recorded execution %s of role %s, event %d: %s]" % (TRACE_INVARIANTS[v["invariant"]], head.get("run"), head.get("role"),
                                                                           v["line"] - a - 1, bad[:300])
            if res["violations"]:
                for x in res["violations"]:
                    verdict.violation(x["signature"], "%s; trace invariant %s: %s" % (x["description"], v["invariant"], desc), path)
            else:
                verdict.violation("trace-" + v["invariant"], desc, path)
            stat["invariant_violations"].append({"invariant": v["invariant"], "role": head.get("role"), "run": head.get("run"), "event": bad[:400],
                                                 "go_monitor": [x["signature"] for x in res["violations"]], "replay": path})
        else:
            log("[C03] recorded execution %s of role %s REJECTED by RunnerTrace at its event %d: %s" % (head.get("run"), head.get("role"), v["line"] - a - 1, bad[:400]))
            stat["rejected"].append({"role": head.get("role"), "run": head.get("run"), "event_index": v["line"] - a - 1, "event": bad[:400]})
        lines = lines[:a] + lines[b:]
    with _stat_lock:
        stat["not_validated_runs"] += len([1 for x in lines if '"event":"Reset"' in x])


def _trace_selftest(lines, variant):
    """the binding is real: a corrupted field and a dropped event must be rejected where they are, an injected signature must
    violate the invariant where it is"""
    resets = [i for i, x in enumerate(lines) if '"event":"Reset"' in x]
    evs = [json.loads(x) for x in (lines[:resets[12]] if len(resets) > 12 else lines)]

    def find(pred, start=0):
        for i, e in enumerate(evs):
            if i >= start and e["event"] != "Reset" and pred(e):
                return i
        return None

    def dump(es):
        return [json.dumps(e, separators=(",", ":")) for e in es]

    import copy
    jobs = []
    i = find(lambda e: e["event"] == "Decided" and e["obs"]["ctrlH"] > 1, 10)
    if i is not None:
        e2 = copy.deepcopy(evs)
        e2[i]["obs"]["ctrlH"] -= 1
        jobs.append(("field", "obs.ctrlH of the Decided event at line %d lowered by one" % (i + 1), e2, "rejected", i + 1))
    i = None
    for k in range(10, len(evs) - 4):   # not the last events of an execution: dropping those cannot be noticed
        if evs[k]["event"] == "StartDuty" and not evs[k]["err"] and all(e["event"] != "Reset" for e in evs[k + 1:k + 4]):
            i = k
            break
    if i is not None:
        e2 = copy.deepcopy(evs)
        del e2[i]
        jobs.append(("drop", "successful StartDuty event at line %d dropped" % (i + 1), e2, "rejected", None))
    j = find(lambda e: e["sigs"] and e["sigs"][0]["k"] == "post")
    i = find(lambda e: e["event"] == "Foreign", j or 0) if j is not None else None
    if i is not None:
        e2 = copy.deepcopy(evs)
        e2[i]["sigs"] = copy.deepcopy(evs[j]["sigs"])
        jobs.append(("inject", "the duty-object signature of line %d copied into the Foreign event at line %d" % (j + 1, i + 1), e2, "violated", i + 1))
    if j is not None:
        e2 = copy.deepcopy(evs)
        e2[j]["sigs"] = []
        jobs.append(("undersign", "the duty-object signature of line %d removed" % (j + 1), e2, "rejected", j + 1))
    out = {}
    from concurrent.futures import ThreadPoolExecutor
    with ThreadPoolExecutor(max_workers=5) as ex:
        base = ex.submit(_validate_lines, dump(evs), False, variant, "RunnerTrace-selftest-base", 600)
        futs = [(job, ex.submit(_validate_lines, dump(job[2]), False, variant, "RunnerTrace-selftest-" + job[0], 600)) for job in jobs]
        if base.result()["status"] != "accepted":
            # a tree whose executions the specification does not explain: nothing to corrupt (reported as divergences elsewhere)
            for _, f in futs:
                f.result()
            return {"skipped": "the uncorrupted prefix of the recorded trace is itself not accepted (%s at line %d)" %
                               (base.result()["status"], base.result()["line"])}
        for job, f in futs:
            v = f.result()
            key, what, _, want, at = job
            # a dropped call is noticed either as an unexplained event or, when a later call signs, by a C03 invariant
            ok = v["status"] in ("rejected", "violated") if key == "drop" else (v["status"] == want and (at is None or v["line"] == at))
            if not ok:
                raise vlib.MachineryError("binding self-test failed: %s -> %s at line %s (expected %s%s)" %
                                          (what, v["status"], v["line"], want, " at line %d" % at if at else ""))
            out[key] = "%s: %s at line %d%s" % (what, v["status"], v["line"], " (%s)" % v["invariant"] if v["invariant"] else "")
    if len(out) < 2:
        raise vlib.MachineryError("binding self-test found nothing to corrupt in the recorded trace")
    return out


def _record_and_validate(binp, wd, T, seed, variant, verdict):
    """records seeded random executions of the real runners (not derived from TLC behaviours) and lets TLC validate them"""
    from concurrent.futures import ThreadPoolExecutor
    # own directory per tree under test and seed: trial runs against scratch copies share .work/C03 with the real tree
    wd = os.path.join(wd, "trace-%s-seed%d" % (os.path.basename(os.path.dirname(vlib.BINDIR)).lstrip("."), seed))
    os.makedirs(wd, exist_ok=True)
    trn, trp, outr = os.path.join(wd, "trace_nopre.ndjson"), os.path.join(wd, "trace_pre.ndjson"), os.path.join(wd, "record_result.json")
    _, wall = vlib.run_driver(binp, ["-mode", "record", "-out", outr, "-seed", str(seed), "-runs", str(T["record_runs"]),
                                     "-trace-nopre", trn, "-trace-pre", trp], timeout=3000)
    res = json.load(open(outr))
    _collect(res, verdict, "record:seed=%d;runs=%d" % (seed, T["record_runs"]))
    stat = {"recorded_runs": res["behaviours"], "recorded_events": res["steps"], "record_wall_s": round(wall, 1),
            "runs_with_signature": res["nontrivial"], "calls_with_signatures": res["counters"].get("record_calls_with_signatures", 0),
            "runs_per_role": {k[len("record_runs_"):]: v for k, v in res["counters"].items() if k.startswith("record_runs_")},
            "accepted_runs": 0, "accepted_events": 0, "generated": 0, "rejected": [], "invariant_violations": [], "not_validated_runs": 0,
            "prevdec_variant": variant}
    t0 = time.time()
    fam = {False: [x for x in open(trn).read().split("\n") if x.strip()], True: [x for x in open(trp).read().split("\n") if x.strip()]}
    jobs = []
    for pre, lines in fam.items():
        for k, ch in enumerate(_chunks(lines, T["chunk_lines"])):
            jobs.append((ch, pre, "RunnerTrace-%s-%d" % ("pre" if pre else "nopre", k)))
    stat["chunks"] = len(jobs)
    with ThreadPoolExecutor(max_workers=5) as ex:
        fs = [ex.submit(_validate_chunk, ch, pre, variant, name, binp, wd, verdict, stat) for ch, pre, name in jobs]
        fst = ex.submit(_trace_selftest, fam[False], variant)
        for f in fs:
            f.result()
        stat["binding_selftest"] = fst.result()
    stat["validate_wall_s"] = round(time.time() - t0, 1)
    sample = fam[True][1:6]
    return res, stat, sample


def run(tier, seed):
    t0 = time.time()
    T = _tier(tier)
    verdict = vlib.Verdict(PROP)
    cov = {"configs": [], "attack_traces": 0, "divergences": 0, "attack_steps_refused": 0}
    binp = vlib.go_build(DRIVER)
    wd = os.path.join(vlib.WORK, PROP)
    os.makedirs(wd, exist_ok=True)
    rng = random.Random(seed)
    states = transitions = replayed = steps = nontrivial = 0
    samples = []
    exhaustive = True
    done_cfgs = set()

    def account(res):
        nonlocal replayed, steps, nontrivial
        replayed += res["behaviours"]
        steps += res["steps"]
        nontrivial += res["nontrivial"]
        cov["divergences"] += res["counters"].get("divergences", 0)
        cov["attack_steps_refused"] += res["counters"].get("attack_steps_refused", 0)
        if res["samples"] and len(samples) < 2:
            samples.append(res["samples"][0])
        if res["divergences"] and "first_divergences" not in cov:
            cov["first_divergences"] = res["divergences"][:5]

    def record(cfg, r):
        nonlocal states, transitions, exhaustive
        cov["configs"].append({"cfg": cfg, "distinct": r.distinct, "generated": r.generated, "depth": r.depth,
                               "exhaustive": r.finished, "wall_s": round(r.wall, 1)})
        states += r.distinct
        transitions += r.generated
        exhaustive = exhaustive and bool(r.finished)
        done_cfgs.add(cfg)
        log("[C03] TLC %s: %d distinct / %d generated, finished=%s, %.1fs" % (cfg, r.distinct, r.generated, r.finished, r.wall))

    # 0. the named deviation of the pinned commit (finding signed-twice-evicted-undecided): replay its counterexample; the
    #    outcome tells which variant of PrevDec the tree implements, the covers below are generated from that variant
    variant = "fixed"
    for cfg, roles in DETACHED:
        ra = _tlc(MODULE, cfg, workers=4, timeout=900)
        if ra.error or not ra.violation:
            raise vlib.MachineryError("deviation config %s produced no counterexample: %s" % (cfg, ra.error))
        b = vlib.trace_behaviour(ra.trace, "attack-" + cfg.replace(".cfg", ""), "attack:" + DETACHED_DESC, state_vars=STATE_VARS)
        cov["attack_traces"] += 1
        res = _drive(binp, wd, "attack_" + cfg.replace(".cfg", ""), [b], roles, 4, seed, verdict, allroles=True)
        account(res)
        if any(v["signature"] == "signed-twice-evicted-undecided" for v in res["violations"]):
            variant = "code"
    cov["prevdec_variant_of_tree"] = variant
    log("[C03] the runners of this tree follow PrevDec=%s of the spec" % variant)

    # 1. state-graph covers (each dump is an exhaustive run of its config with the invariants) replayed on the real runners
    for cfg, roles, maxsig, nleaves, nevict, extra in T["covers"]:
        rg, nodes, edges, inits = _dump(MODULE, cfg, timeout=2400, workers=8, files=_with_prevdec(cfg, variant))
        if not vlib.expect_tlc_ok(rg, cfg):
            raise vlib.MachineryError("faithful Runner spec violates %s in %s (model error, not a verdict):\n%s" %
                                      (rg.violation, cfg, json.dumps(vlib.tlaval.plain([s.get("act") for s in rg.trace]))))
        record(cfg, rg)
        behs, gstat = vlib.graph_behaviours(nodes, edges, inits, seed, max_extra=extra, state_vars=STATE_VARS)
        leaves = [b for b in behs if "-leaf-" in b["id"]]
        others = [b for b in behs if "-leaf-" not in b["id"]]
        ev = [b for b in leaves if _is_eviction_history(b)]
        gstat["eviction_histories"] = len(ev)
        if nleaves is not None and len(leaves) > nleaves:
            rng.shuffle(ev)
            ev = ev[:nevict]
            evids = set(b["id"] for b in ev)
            rest = [b for b in leaves if b["id"] not in evids]
            rng.shuffle(rest)
            leaves = ev + rest[:max(0, nleaves - len(ev))]
            gstat["leaves_replayed"] = len(leaves)
            gstat["eviction_histories_replayed"] = len(ev)
        cov["cover_" + cfg.replace(".cfg", "")] = gstat
        res = _drive(binp, wd, "cover_" + cfg.replace(".cfg", ""), leaves + others, roles, maxsig, seed, verdict)
        account(res)
        log("[C03] cover %s: %d behaviours / %d steps on the real runners, %d violations, %d divergences" %
            (cfg, res["behaviours"], res["steps"], res["counters"].get("violations", 0), res["counters"].get("divergences", 0)))

    # 2. exhaustive model checking of the larger faithful configs
    for cfg in T["mc"]:
        if cfg in done_cfgs:
            continue
        r = _tlc(MODULE, cfg, workers=8, timeout=2400, stop_after=1800 if tier == "thorough" else 300, files=_with_prevdec(cfg, variant))
        if not vlib.expect_tlc_ok(r, cfg):
            raise vlib.MachineryError("faithful Runner spec violates %s in %s (model error, not a verdict):\n%s" %
                                      (r.violation, cfg, json.dumps(vlib.tlaval.plain([s.get("act") for s in r.trace]))))
        record(cfg, r)

    # 3. attack traces from the weakened spec, on every role of their family
    for cfg, roles, desc in ATTACKS + (ATTACKS_THOROUGH if tier == "thorough" else []):
        ra = _tlc(MODULE, cfg, workers=4, timeout=900, files=_with_prevdec(cfg, variant))
        if ra.error:
            raise vlib.MachineryError("attack config %s: %s" % (cfg, ra.error))
        if not ra.violation:
            log("[C03] attack config %s produced no counterexample (not counted)" % cfg)
            continue
        b = vlib.trace_behaviour(ra.trace, "attack-" + cfg.replace(".cfg", ""), "attack:" + desc, state_vars=STATE_VARS)
        cov["attack_traces"] += 1
        res = _drive(binp, wd, "attack_" + cfg.replace(".cfg", ""), [b], roles, 4, seed, verdict, allroles=True)
        account(res)

    # 4. the harness's own random executions at the grain of single messages, monitors only
    outr = os.path.join(wd, "random_result.json")
    vlib.run_driver(binp, ["-mode", "random", "-out", outr, "-seed", str(seed), "-runs", str(T["random_runs"])], timeout=3000)
    res = json.load(open(outr))
    _collect(res, verdict, "random:seed=%d;runs=%d" % (seed, T["random_runs"]))
    account(res)
    cov["random_runs"] = res["behaviours"]

    # 5. implementation -> specification: random executions recorded from the real runners, validated by RunnerTrace.tla
    rres, tstat, tsample = _record_and_validate(binp, wd, T, seed, variant, verdict)
    steps += rres["steps"]
    replayed += tstat["accepted_runs"]
    nontrivial += rres["nontrivial"]
    transitions += tstat["generated"]
    cov["divergences"] += len(tstat["rejected"])
    cov["recorded_traces"] = tstat
    samples.append(tsample)
    log("[C03] recorded %d executions / %d events from the real runners: %d accepted by RunnerTrace, %d rejected, %d invariant violations (%.0fs + %.0fs)" %
        (tstat["recorded_runs"], tstat["recorded_events"], tstat["accepted_runs"], len(tstat["rejected"]), len(tstat["invariant_violations"]),
         tstat["record_wall_s"], tstat["validate_wall_s"]))

    rc = verdict.report()
    if cov["divergences"] and rc == 0:
        log("[C03] NOTE: %d conformance divergences without a monitor trip (see evidence)" % cov["divergences"])
    coverage = {
        "states": states, "transitions": transitions,
        "traces_validated_against_impl": replayed,
        "samples": samples,
        "evaluations": steps,
        "distinct_nontrivial": nontrivial,
        "rule": "behaviours = BFS-tree leaves of the dumped state graphs (seeded sample in quick) + seeded non-tree edges, rotated over the "
                "roles of the family (no pre-consensus: attester, sync committee; pre-consensus: proposer full/blinded, aggregator, "
                "contribution) + attack traces on every role + seeded random executions at single-message grain + executions "
                "recorded from the real runners (seeded random schedules of single public calls, every role) accepted by the trace "
                "specification RunnerTrace; non-trivial = the real key manager made at least one validator-key signature",
        "exhaustive": exhaustive,
        "detail": cov,
    }
    vlib.write_evidence(PROP, tier, seed, "model_checking", coverage, time.time() - t0, [
        "heights/slots 1..3, values {own proposal, other valid value, value failing the value check}; the height-0 special cases of the controller belong to C15",
        "the deciding sequence of a height and the quorum of partial signatures are macro steps in the spec (split and interleaved in the random executions)",
        "\"validator-key signature\" = KeyManager.SignBeaconObject; SignRoot (QBFT and envelope signatures) is not constrained by C03",
        "operator 1 of a 4-operator committee is observed (7 operators in a quarter of the random executions); it is also the round-1 leader",
    ], len(verdict.violations))
    return rc


def replay(path):
    binp = vlib.go_build(DRIVER)
    verdict = vlib.Verdict(PROP)
    wd = os.path.join(vlib.WORK, PROP)
    os.makedirs(wd, exist_ok=True)
    outp = os.path.join(wd, "replay_single.json")
    if path.startswith("random:"):
        kv = dict(x.split("=") for x in path[len("random:"):].split(";"))
        vlib.run_driver(binp, ["-mode", "random", "-out", outp, "-seed", kv["seed"], "-runs", kv["runs"]])
    elif path.startswith("record:"):
        kv = dict(x.split("=") for x in path[len("record:"):].split(";"))
        vlib.run_driver(binp, ["-mode", "record", "-out", outp, "-seed", kv["seed"], "-runs", kv["runs"],
                               "-trace-nopre", os.path.join(wd, "replay_nopre.ndjson"), "-trace-pre", os.path.join(wd, "replay_pre.ndjson")])
    elif path.startswith("retrace:"):
        # a recorded call sequence: re-run it on fresh real runners under the Go monitor, then let TLC judge the freshly
        # recorded events of that run with the invariants of the trace specification
        f, _, params = path[len("retrace:"):].partition("#")
        kv = dict(x.split("=") for x in params.split(";")) if params else {}
        res, rec = _retrace(binp, wd, f, "replay_retrace")
        _collect(res, verdict, path)
        lines = [x for x in open(rec).read().split("\n") if x.strip()]
        v = _validate_lines(lines, json.loads(lines[0])["pre"], kv.get("variant", "fixed"), "RunnerTrace-replay")
        log("[C03] re-recorded %d events on fresh runners: Go monitor %s; RunnerTrace: %s%s" %
            (len(lines) - 1, [x["signature"] for x in res["violations"]] or "silent", v["status"],
             " (%s at event %d: %s)" % (v["invariant"] or "not explained", v["line"] - 1, lines[v["line"] - 1][:300]) if v["status"] != "accepted" else ""))
        if v["status"] == "violated" and not res["violations"]:
            verdict.violation("trace-" + v["invariant"], TRACE_INVARIANTS[v["invariant"]], path)
        return verdict.report()
    else:
        f, _, params = path.partition("#")
        kv = dict(x.split("=") for x in params.split(";")) if params else {}
        args = ["-mode", "replay", "-in", f, "-out", outp, "-maxsig", kv.get("maxsig", "4"), "-seed", kv.get("seed", "1")]
        if kv.get("roles"):
            args += ["-roles", kv["roles"]]
        if kv.get("all") == "1":
            args.append("-allroles")
        vlib.run_driver(binp, args)
    _collect(json.load(open(outp)), verdict, path)
    return verdict.report()
