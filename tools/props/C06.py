"""C06 - the node's QBFT instance is observationally equal to the reference spec instance (spec/QBFTInstance.tla)."""
import json
import os
import time

import vlib
from vlib import log
from props import qbft_common as Q
from props import qbft_spectrace as ST

PROP = "C06"


def _byz(n):
    return "{" + ", ".join(str(i) for i in range(2, n + 1)) + "}"


def run(tier, seed):
    t0 = time.time()
    thorough = tier == "thorough"
    verdict = vlib.Verdict(PROP)
    configs = []
    states = transitions = 0
    # ---- exhaustive single-instance model (committee 4): all well-formed environments, <= 2 rounds ----
    ex = [dict(name="inst4-valid-env", N=4, F=1, Byz=_byz(4), MaxRound=2, ByzBudget=4, ByzActs="NoMutActs"),
          dict(name="inst4-mutants", N=4, F=1, Byz=_byz(4), MaxRound=1, ByzBudget=3, ByzActs="InstActs")]
    if thorough:
        ex += [dict(name="inst4-offset3-leads-round2", N=4, F=1, Byz=_byz(4), MaxRound=2, ByzBudget=5, ByzActs="NoMutActs", LeaderOffset=3),
               dict(name="inst4-three-rounds", N=4, F=1, Byz=_byz(4), MaxRound=3, ByzBudget=4, ByzActs="NoMutActs"),
               dict(name="inst7-valid-env", N=7, F=2, Byz=_byz(7), MaxRound=2, ByzBudget=5, ByzActs="NoMutActs")]
    for c in ex:
        name = c.pop("name")
        budget = 1500 if thorough else 200
        info = Q.run_exhaustive(PROP, name, module="MCQBFTInstance", spec="SpecI", Macro="FALSE",
                                invariants=("DecidedImpliesQuorum",), timeout=budget + 120, stop_after=budget,
                                workers=vlib.NCPU if thorough else 8, **c)
        configs.append(info)
        states += info["distinct"]
        transitions += info["generated"]
    # ---- behaviours: simulation families biased towards the interesting corners ----
    k = 1 if not thorough else 25
    fams = [
        # (name, N, offset, acts, budget, maxround, depth, count)
        ("all4", 4, 0, "InstActs", 40, 4, 45, 60 * k),
        ("rc4-leads-round2", 4, 3, "RCOnly", 40, 5, 40, 60 * k),
        ("rcprop4", 4, 0, "RCProp", 40, 5, 45, 40 * k),
        ("valid4-offset1", 4, 1, "NoMutActs", 40, 4, 45, 40 * k),
        ("all7", 7, 0, "InstActs", 50, 3, 50, 30 * k),
        ("rc7", 7, 5, "RCOnly", 50, 4, 45, 30 * k),
        # the round cut-off: timeouts only (no adversary budget), up to round 16 - the last round-change before the
        # cut-off and the refusals after it must be the reference's (added after a seeded change was missed)
        ("cutoff4", 4, 0, "NoMutActs", 0, 16, 20, 4),
        # ... and with a few adversarial round-changes / proposals on the way up
        ("cutoff4-env", 4, 1, "RCProp", 6, 16, 30, 8 * k),
    ]
    behs = []
    for (name, n, off, acts, budget, maxr, depth, count) in fams:
        b, gen = Q.simulate(PROP, "sim-" + name, count, depth, seed + len(behs), {"N": n, "LeaderOffset": off},
                            module="MCQBFTInstance", spec="SpecI", N=n, F=(n - 1) // 3, Byz=_byz(n), MaxRound=maxr,
                            LeaderOffset=off, ByzBudget=budget, ByzActs=acts, Macro="FALSE", state_vars=(),
                            workers=4 if not thorough else 12, timeout=1500)
        behs += b
        transitions += gen
    # the recorded finding (compaction of a decided instance changes a later output), kept as a regression behaviour
    fpath = os.path.join(vlib.SPEC, "attacks", "qbftinstance-finding-compaction-after-decision.json")
    if os.path.exists(fpath):
        behs.append(json.load(open(fpath))["behaviour"])
    cover = {}
    if thorough:
        # one test per node of the state graph of a small exhaustive config (shortest path + the node's action)
        text = Q.cfg_text(spec="SpecI", N=4, F=1, Byz=_byz(4), MaxRound=2, ByzBudget=3, ByzActs="NoMutActs",
                          Macro="FALSE", view=None)
        with open(os.path.join(vlib.SPEC, "gen_C06_cover.cfg"), "w") as f:
            f.write(text)
        try:
            rg, nodes, edges, inits = vlib.tlc_dump_graph("MCQBFTInstance", "gen_C06_cover.cfg", timeout=2400, workers=8)
        finally:
            os.remove(os.path.join(vlib.SPEC, "gen_C06_cover.cfg"))
        if rg.error or rg.violation:
            raise vlib.MachineryError("cover config: %s %s" % (rg.error, rg.violation))
        cb, cover = vlib.graph_behaviours(nodes, edges, inits, seed, max_extra=20000)
        for b in cb:
            b["params"] = {"N": 4, "LeaderOffset": 0}
        behs += cb
    wd = os.path.join(vlib.WORK, PROP)
    os.makedirs(wd, exist_ok=True)
    binq = vlib.go_build("qbftdiff")
    inp = os.path.join(wd, "behaviours.ndjson")
    outp = os.path.join(wd, "result.json")
    res, wall = vlib.run_driver_sharded(binq, behs, inp, outp, timeout=14000)
    log("[C06] stepped %d behaviours / %d steps through node, compacting node and reference instance in %.0fs: "
        "%d mismatches, %d divergences from the model" % (res["behaviours"], res["steps"], wall,
                                                        res["counters"].get("violations", 0), res["counters"].get("divergences", 0)))
    for v in res["violations"]:
        verdict.violation(v["signature"], "%s [%s step %d]" % (v["description"], v["behaviour"], v["step"]), inp)
    # ---- the other direction: executions recorded from the real instance / controller (the scenarios of the
    # reference test kit that the repository's own spectest runs + seeded random executions), validated by TLC
    # against spec/QBFTInstanceTrace.tla and compared with the reference implementation call by call ----
    part = ST.run_part(tier, seed, verdict, log)
    transitions += part["tlc_states"]
    rc = verdict.report()
    acts = {k2[4:]: v for k2, v in res["counters"].items() if k2.startswith("act:")}
    cov = {
        "states": states, "transitions": transitions,
        "traces_validated_against_impl": res["behaviours"] + part["traces_accepted"],
        "samples": res["samples"][:1],
        "evaluations": res["steps"] + part["events"],
        "distinct_nontrivial": res["nontrivial"],
        "rule": "behaviours = TLC -simulate runs of the single-instance model in 6 families (all message classes, "
                "round-change heavy with the instance leading round 2, committee 7, field mutants) "
                + ("+ one test per node of the dumped state graph of a small config " if thorough else "")
                + "; non-trivial = at least one message processed by all three implementations. Other direction: "
                "every message-processing / timeout / controller scenario of the pinned reference test kit and seeded "
                "random executions, recorded from the real instance / controller, validated by TLC against "
                "QBFTInstanceTrace.tla (detail.spectest_traces)",
        "exhaustive": all(c["exhaustive"] for c in configs),
        "detail": {"configs": configs, "actions_replayed": acts, "cover_graph": cover,
                   "divergences": res["counters"].get("divergences", 0) + len(part["model_imprecisions"]),
                   "divergence_samples": res["divergences"][:5], "spectest_traces": part},
    }
    vlib.write_evidence(PROP, tier, seed, "model_checking", cov, time.time() - t0, [
        "the oracle is the pinned reference implementation (ssv-spec v0.3.7 qbft.Instance) with identical keys and "
        "byte-identical inputs; the TLA+ model generates the inputs and predicts accept/reject",
        "committees 4 and 7; rounds <= 5; BLS signing is deterministic",
        "trace direction: facts about recorded messages (signature / structure / height / root-data match, per element "
        "of a justification) are computed with the reference library's exported predicates; the environment of the "
        "recorded executions holds every key (Weaken = noSigCheck reading of Forgeable, signatures are logged facts)",
    ], len(verdict.violations))
    return rc


def replay(path):
    verdict = vlib.Verdict(PROP)
    with open(path) as f:
        first = f.readline()
    if '"event":"Reset"' in first.replace(" ", ""):
        # a recorded trace (NDJSON events): validate it again, record the scenario again from the current tree
        ST.replay(path, verdict, log)
        return verdict.report()
    binq = vlib.go_build("qbftdiff")
    outp = os.path.join(vlib.WORK, PROP, "replay_single.json")
    os.makedirs(os.path.dirname(outp), exist_ok=True)
    vlib.run_driver(binq, ["-in", path, "-out", outp])
    for v in json.load(open(outp))["violations"]:
        verdict.violation(v["signature"], "%s [%s step %d]" % (v["description"], v["behaviour"], v["step"]), path)
    return verdict.report()
