"""C17 - round timeouts fire once per armed round, never early, never for stale rounds (spec/Timer.tla)."""
import json
import os
import random
import re
import time
from concurrent.futures import ThreadPoolExecutor

import vlib
from vlib import log

PROP = "C17"
STATE_VARS = ["fired", "armed", "cancelled", "cH", "inst", "rcs", "tarm"]
PASSIVE = ("Expire", "Drop", "Advance")  # steps the real timer takes on its own


def _tier(tier):
    if tier == "quick":
        return dict(mc="Timer_mc_quick.cfg", cover="Timer_cover.cfg", timer_extra=150, ctl_leaves=150, ctl_extra=60,
                    unit="15ms", par=64, record_runs=160, vpath=3, mc_stop=150, attack_extra=3, single_attacks=False)
    return dict(mc="Timer_mc_thorough.cfg", cover="Timer_cover_thorough.cfg", timer_extra=3000, ctl_leaves=4000,
                ctl_extra=2000, unit="20ms", par=96, record_runs=2500, vpath=25, mc_stop=1500, attack_extra=40, single_attacks=True)


ATTACKS = [  # (single-guard cfg, the guard that is removed, the invariant TLC must report violated)
    ("Timer_attack_noRoundCheckOnWake.cfg", "noRoundCheckOnWake", "OnlyLatest"),
    ("Timer_attack_noRoundCheckOnWake_sup.cfg", "noRoundCheckOnWake", "Superseded"),
    ("Timer_attack_deadlineFromNow.cfg", "deadlineFromNowNotSlotStart", "NeverEarly"),
    ("Timer_attack_quickThreshold.cfg", "quickThresholdOffByOne", "NeverEarly"),
    ("Timer_attack_cancelIgnored.cfg", "cancelIgnored", "AfterCancelQuiet"),
    ("Timer_attack_tickerNotTimer.cfg", "tickerNotTimer", "OncePerArming"),
    ("Timer_attack_ctlNoRoundCheck.cfg", "ctlNoRoundCheck", "StaleNoChange"),
    ("Timer_attack_ctlNoDecidedCheck.cfg", "ctlNoDecidedCheck", "StaleNoChange"),
    ("Timer_attack_ctlNoStopCheck.cfg", "ctlNoStopCheck", "StaleNoChange"),
]
GUARD_TEXT = {
    "noRoundCheckOnWake": "waiter calls back without comparing the armed round",
    "deadlineFromNowNotSlotStart": "deadline counted from the arming instead of the slot start",
    "quickThresholdOffByOne": "quick allowance used one round too long",
    "cancelIgnored": "cancellation of the parent context ignored",
    "tickerNotTimer": "waiter keeps firing after its callback",
    "ctlNoRoundCheck": "OnTimeout without the old-round check",
    "ctlNoDecidedCheck": "OnTimeout without the decided check",
    "ctlNoStopCheck": "UponRoundTimeout on a force-stopped instance",
}


def _violated(st):
    """invariants of Timer.tla violated in a dumped state - each is a flag the SPEC computed (fired[k].early/stale/sup/
    afterCancel, cbad) or the callback count per round; nothing is re-derived here"""
    out = set()
    fired = st.get("fired") or []
    rounds = [f["round"] for f in fired]
    if len(rounds) != len(set(rounds)):
        out.add("OncePerArming")
    for f in fired:
        if f["stale"]:
            out.add("OnlyLatest")
        if f["early"]:
            out.add("NeverEarly")
        if f["sup"]:
            out.add("Superseded")
        if f["afterCancel"]:
            out.add("AfterCancelQuiet")
    if st.get("cbad") == "stale-changed":
        out.add("StaleNoChange")
    if st.get("cbad") == "live-not-moved":
        out.add("CurrentBumps")
    return out


def _attack_behaviours(nodes, edges, inits, seed, extra_per_pair):
    """attack traces = shortest paths (plus a seeded sample of other paths) of the weakened specs' state graph to states
    in which an invariant of the faithful spec is violated, one group per (removed guard, invariant)"""
    parent = vlib.bfs_paths(nodes, edges, inits)
    depth = {}

    def dep(n):
        d, stack = 0, []
        while n is not None and n not in depth:
            stack.append(n)
            n = parent[n]
        d = depth[n] if n is not None else -1
        for m in reversed(stack):
            d += 1
            depth[m] = d
        return d
    groups = {}
    for n, st in nodes.items():
        if n not in parent:
            continue
        # first violation only: the predecessor is still clean
        inv = _violated(st)
        if not inv:
            continue
        par = parent[n]
        newly = inv - (_violated(nodes[par]) if par is not None else set())
        for i in newly:
            groups.setdefault((st["wk"], i), []).append(n)
    rng = random.Random(seed)
    behs, found = [], {}
    for (wk, inv), ns in sorted(groups.items()):
        ns.sort(key=lambda n: (dep(n), n))
        pick = ns[:1] + rng.sample(ns[1:], min(extra_per_pair, len(ns) - 1))
        found[(wk, inv)] = len(ns)
        for j, n in enumerate(pick):
            path = vlib.path_to(parent, n)
            behs.append({"id": "attack-%s-%s-%d" % (wk, inv, j), "kind": "attack:%s: %s" % (GUARD_TEXT.get(wk, wk), inv),
                         "steps": [_row(nodes[x]) for x in path]})
    return behs, found


def _last_node(beh_id):
    m = re.match(r'^cover-leaf-(-?\d+)$', beh_id) or re.match(r'^cover-edge-(-?\d+)-(-?\d+)$', beh_id)
    return m.group(m.lastindex)


def _row(st):
    return {"act": vlib.tlaval.plain(st.get("act")), "state": {k: vlib.tlaval.plain(st[k]) for k in STATE_VARS if k in st}}


def _extend(beh, nodes, adj):
    """Let the timer run out: follow only the steps the real timer takes by itself (prompt schedule: deterministic
    up to the order of simultaneous expiries) until none is left, so that the last state predicts the callbacks."""
    n = _last_node(beh["id"])
    for _ in range(200):
        nxt = sorted(b for b in adj.get(n, ()) if b != n and (nodes[b].get("act") or {}).get("name") in PASSIVE)
        if not nxt:
            break
        n = nxt[0]
        beh["steps"].append(_row(nodes[n]))
    return beh


def _behaviours(nodes, edges, inits, seed, T):
    """cover of the dumped graph: every BFS-tree leaf of the timer half + a seeded sample of its non-tree edges, a seeded
    sample of leaves / non-tree edges of the controller half (only the selected paths are materialised)"""
    parent = vlib.bfs_paths(nodes, edges, inits)
    adj = {}
    for a, b, _ in edges:
        adj.setdefault(a, []).append(b)
    is_parent = set(x for x in parent.values() if x is not None)
    rng = random.Random(seed)
    sel = {"timer": {"leaf": [], "edge": []}, "ctl": {"leaf": [], "edge": []}}
    for n in parent:
        if n not in is_parent:
            sel[nodes[n]["part"]]["leaf"].append(n)
    for a, b, _ in edges:
        if a != b and a in parent and parent.get(b) != a:
            sel[nodes[a]["part"]]["edge"].append((a, b))
    for d in sel.values():
        d["leaf"].sort()
        d["edge"].sort()
        rng.shuffle(d["leaf"])
        rng.shuffle(d["edge"])
    gstat = {"nodes": len(nodes), "edges": len(edges),
             "timer_leaves": len(sel["timer"]["leaf"]), "timer_edges_total": len(sel["timer"]["edge"]),
             "ctl_leaves_total": len(sel["ctl"]["leaf"]), "ctl_edges_total": len(sel["ctl"]["edge"])}

    def mk(path, ident):
        return {"id": ident, "kind": "cover", "steps": [_row(nodes[x]) for x in path]}
    tsel = [mk(vlib.path_to(parent, n), "cover-leaf-%s" % n) for n in sel["timer"]["leaf"]] + \
        [mk(vlib.path_to(parent, a) + [b], "cover-edge-%s-%s" % (a, b)) for a, b in sel["timer"]["edge"][:T["timer_extra"]]]
    csel = [mk(vlib.path_to(parent, n), "cover-leaf-%s" % n) for n in sel["ctl"]["leaf"][:T["ctl_leaves"]]] + \
        [mk(vlib.path_to(parent, a) + [b], "cover-edge-%s-%s" % (a, b)) for a, b in sel["ctl"]["edge"][:T["ctl_extra"]]]
    tsel = [_extend(b, nodes, adj) for b in tsel]
    gstat.update({"timer_selected": len(tsel), "ctl_selected": len(csel)})
    return tsel + csel, gstat


def run(tier, seed):
    t0 = time.time()
    T = _tier(tier)
    verdict = vlib.Verdict(PROP)
    cov = {"configs": [], "attack_traces": 0, "divergences": 0}
    wd = os.path.join(vlib.WORK, PROP)
    os.makedirs(wd, exist_ok=True)
    bint = vlib.go_build("timer")

    # 1. TLC: exhaustive check of the faithful spec (both halves, every wake-up lateness), the prompt-schedule state graph
    #    (checked with all invariants and dumped for replay) and the attack configs - run side by side
    with ThreadPoolExecutor(6) as ex:
        f_mc = ex.submit(vlib.tlc, "MCTimer", T["mc"], workers=6, timeout=T["mc_stop"] + 300, stop_after=T["mc_stop"])
        f_cov = ex.submit(vlib.tlc_dump_graph, "MCTimer", T["cover"], timeout=1500, workers=4)
        f_atg = ex.submit(vlib.tlc_dump_graph, "MCTimer", "Timer_attacks.cfg", timeout=1500, workers=4)
        f_att = [(cfg, wk, inv, ex.submit(vlib.tlc, "MCTimer", cfg, workers=1, timeout=600)) for cfg, wk, inv in ATTACKS] \
            if T["single_attacks"] else []
        r = f_mc.result()
        rg, nodes, edges, inits = f_cov.result()
        ra, anodes, aedges, ainits = f_atg.result()
        singles = [(cfg, wk, inv, f.result()) for cfg, wk, inv, f in f_att]
    for rr, what in ((r, T["mc"]), (rg, T["cover"])):
        if not vlib.expect_tlc_ok(rr, what):
            raise vlib.MachineryError("faithful Timer spec violates %s in %s (model error, not a verdict):\n%s" %
                                      (rr.violation, what, json.dumps(vlib.tlaval.plain([s.get("act") for s in rr.trace]))))
        cov["configs"].append({"cfg": what, "distinct": rr.distinct, "generated": rr.generated, "depth": rr.depth,
                               "exhaustive": rr.finished, "wall_s": round(rr.wall, 1)})
        log("[C17] TLC %s: %d distinct / %d generated, finished=%s, %.1fs" % (what, rr.distinct, rr.generated, rr.finished, rr.wall))
    states, transitions = r.distinct + rg.distinct, r.generated + rg.generated
    if not nodes:
        raise vlib.MachineryError("no state graph dumped for %s" % T["cover"])

    # 2. behaviours: cover of the prompt-schedule graph (timer half: every BFS-tree leaf + seeded non-tree edges, each
    #    extended until the timer has run out; controller half: seeded sample) + attack traces
    log("[C17] TLC phase done (t+%.0fs)" % (time.time() - t0))
    behs, gstat = _behaviours(nodes, edges, inits, seed, T)
    cov["cover_graph"] = gstat
    if ra.error or ra.violation or not anodes:
        raise vlib.MachineryError("attack graph Timer_attacks.cfg: %s %s" % (ra.violation, ra.error))
    attack_behs, found = _attack_behaviours(anodes, aedges, ainits, seed, T["attack_extra"])
    for cfg, wk, inv in ATTACKS:
        if (wk, inv) not in found:
            raise vlib.MachineryError("removing the guard %s does not violate %s in the spec any more (model error)" % (wk, inv))
    for cfg, wk, inv, rs in singles:   # thorough: TLC itself reports the expected invariant for every single-guard config
        if rs.error or rs.violation != inv:
            raise vlib.MachineryError("attack config %s: expected TLC to report %s violated, got %s %s" % (cfg, inv, rs.violation, rs.error))
        attack_behs.append(vlib.trace_behaviour(rs.trace, "attack-tlc-" + cfg.replace(".cfg", "").replace("Timer_attack_", ""),
                                                "attack:%s: %s" % (GUARD_TEXT[wk], inv), state_vars=STATE_VARS))
        transitions += rs.generated
    cov["attack_pairs"] = {"%s/%s" % k: v for k, v in sorted(found.items())}
    states += ra.distinct
    transitions += ra.generated
    cov["attack_traces"] = len(attack_behs)
    inp = os.path.join(wd, "behaviours.ndjson")
    vlib.write_ndjson(inp, behs + attack_behs)
    outp = os.path.join(wd, "replay_result.json")
    _, wall_replay = vlib.run_driver(bint, ["-mode", "replay", "-in", inp, "-out", outp, "-unit", T["unit"], "-par", str(T["par"])], timeout=3000)
    res = json.load(open(outp))
    _collect(res, verdict, inp)
    log("[C17] replay done (t+%.0fs)" % (time.time() - t0))
    c = res["counters"]
    cov["replayed_behaviours"] = res["behaviours"]
    cov["replayed_timer"] = c.get("timer_behaviours", 0)
    cov["replayed_ctl"] = c.get("ctl_behaviours", 0)
    cov["replay_counters"] = c
    cov["divergences"] += c.get("divergences", 0)
    cov["divergence_samples"] = res["divergences"][:5]
    log("[C17] replayed %d behaviours (%d timer in real time, %d controller) in %.1fs: %d violations, %d divergences, %d attack steps refused" %
        (res["behaviours"], c.get("timer_behaviours", 0), c.get("ctl_behaviours", 0), wall_replay, c.get("violations", 0),
         c.get("divergences", 0), c.get("attack_steps_refused", 0)))

    # 3. own real-time schedules on the real timer, validated by TLC against the spec (TimerTrace)
    tr = os.path.join(wd, "trace.ndjson")
    outr = os.path.join(wd, "record_result.json")
    vlib.run_driver(bint, ["-mode", "record", "-trace", tr, "-out", outr, "-seed", str(seed), "-runs", str(T["record_runs"]),
                           "-par", "12"], timeout=3000)
    res2 = json.load(open(outr))
    log("[C17] record done (t+%.0fs)" % (time.time() - t0))
    _collect(res2, verdict, "record:seed=%d:runs=%d" % (seed, T["record_runs"]))
    with ThreadPoolExecutor(2) as ex:
        f_tv = ex.submit(vlib.tlc_validate_trace, "TimerTrace", "TimerTrace.cfg", tr, None, 1800)
        f_st = ex.submit(_selftest, tr, wd)
        accepted, consumed, nlines, rt = f_tv.result()
        cov["binding_selftest"] = f_st.result()
    cov["recorded_traces"] = res2["behaviours"]
    cov["recorded_events"] = nlines
    cov["trace_accepted"] = accepted
    transitions += rt.generated
    if not accepted:
        lines = open(tr).read().split("\n")
        bad = lines[consumed] if consumed < len(lines) else "?"
        log("[C17] recorded trace REJECTED by the spec near line %d: %s" % (consumed + 1, bad))
        cov["divergences"] += 1
        cov["trace_rejected_at"] = {"line": consumed + 1, "event": bad}
    log("[C17] %d recorded real-time runs / %d events: accepted=%s (t+%.0fs)" % (res2["behaviours"], nlines, accepted, time.time() - t0))

    # 4. validator-level path: real timer -> Validator.onTimeout -> queue -> ProcessMessage -> Controller.OnTimeout
    outv = os.path.join(wd, "vpath_result.json")
    vlib.run_driver(bint, ["-mode", "vpath", "-out", outv, "-seed", str(seed), "-runs", str(T["vpath"])], timeout=1200)
    res3 = json.load(open(outv))
    _collect(res3, verdict, "vpath:seed=%d:runs=%d" % (seed, T["vpath"]))
    cov["vpath"] = {"runs": res3["behaviours"], "counters": res3["counters"], "notes": res3["notes"][:5],
                    "divergences": res3["divergences"][:5]}
    cov["divergences"] += res3["counters"].get("divergences", 0)

    rc = verdict.report()
    if cov["divergences"] and rc == 0:
        log("[C17] NOTE: %d conformance divergences without a monitor trip (timing of the real-time replay / see evidence)" % cov["divergences"])
    coverage = {
        "states": states, "transitions": transitions,
        "traces_validated_against_impl": res["behaviours"] + (res2["behaviours"] if accepted else 0) + res3["behaviours"],
        "samples": res["samples"][:2] + res2["samples"][:1] + [open(tr).read().split("\n")[:8]],
        "evaluations": res["steps"] + res2["steps"] + res3["steps"],
        "distinct_nontrivial": res["nontrivial"] + res2["nontrivial"] + res3["nontrivial"],
        "rule": "behaviours = BFS-tree leaves of the dumped prompt-schedule state graph + seeded non-tree edges (timer half "
                "extended until the timer has run out; controller half sampled) + one attack trace per removed guard + seeded "
                "real-time schedules of the harness; non-trivial = at least two armings or a cancellation (timer), at least "
                "one OnTimeout delivery (controller)",
        "exhaustive": bool(r.finished and rg.finished),
        "detail": cov,
    }
    vlib.write_evidence(PROP, tier, seed, "model_checking", coverage, time.time() - t0, [
        "time is discrete in the spec; the real-time replay maps one instant to %s with environment actions and deadlines on "
        "alternating instants" % T["unit"],
        "Go timers never fire before their duration and the monotonic clock is consistent across cores (trusted)",
        "timeout-after-cancel depends on goroutine scheduling and is reported only when an isolated experiment reproduces it "
        "3 times out of 3 while a watchdog shows the scheduler running",
        "one consensus instance per timer (strictly increasing rounds); a waiter left over from the previous instance of the "
        "same runner is outside the property",
        "exhaustive results hold for the stated constants (rounds <= 4/5, three role classes, heights 0..2)",
    ], len(verdict.violations))
    return rc


def _collect(res, verdict, replay_path):
    for v in res["violations"]:
        verdict.violation(v["signature"], "%s [%s step %d]" % (v["description"], v["behaviour"], v["step"]), replay_path)


def _selftest(tr, wd):
    """corrupt one recorded callback (its round) and expect TimerTrace to reject the trace"""
    lines = [x for x in open(tr).read().split("\n") if x.strip()]
    idx = None
    for i, ln in enumerate(lines):
        e = json.loads(ln)
        if e["event"] == "Fire" and i > 10:
            e["r"] = e["r"] + 1 if e["r"] > 1 else e["r"] + 3   # a round that was superseded or never armed
            nxt = json.loads(lines[i + 1]) if i + 1 < len(lines) else {"event": "Reset"}
            if nxt["event"] == "Arm" and nxt["r"] == e["r"]:
                continue
            lines[i] = json.dumps(e)
            idx = i
            break
    if idx is None:
        return "skipped"
    p = os.path.join(wd, "trace_corrupt.ndjson")
    with open(p, "w") as f:
        f.write("\n".join(lines[:idx + 40]) + "\n")
    accepted, consumed, nlines, _ = vlib.tlc_validate_trace("TimerTrace", "TimerTrace.cfg", p, name="TimerTrace-selftest")
    if accepted:
        raise vlib.MachineryError("binding self-test failed: a corrupted trace was accepted by TimerTrace")
    return "corrupted line %d rejected near line %d" % (idx + 1, consumed + 1)


def replay(path):
    bint = vlib.go_build("timer")
    verdict = vlib.Verdict(PROP)
    wd = os.path.join(vlib.WORK, PROP)
    os.makedirs(wd, exist_ok=True)
    outp = os.path.join(wd, "replay_single.json")
    if path.startswith("record:") or path.startswith("vpath:"):
        mode, seed, runs = path.split(":")
        args = ["-mode", mode, "-out", outp, "-seed", seed.split("=")[1], "-runs", runs.split("=")[1]]
        if mode == "record":
            args += ["-trace", os.path.join(wd, "replay_trace.ndjson"), "-par", "12"]
        vlib.run_driver(bint, args, timeout=3000)
    else:
        vlib.run_driver(bint, ["-mode", "replay", "-in", path, "-out", outp, "-unit", "15ms", "-par", "64"], timeout=3000)
    _collect(json.load(open(outp)), verdict, path)
    return verdict.report()
