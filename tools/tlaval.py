"""Parser for TLA+ values as printed by TLC (counterexample traces, -simulate files, dot dumps).

Returns plain Python data: records -> dict, sequences/tuples -> list, sets -> {"$set": [...]} is avoided:
sets become sorted lists wrapped in PySet (a list subclass) so that callers can tell them apart,
functions with non-string domain -> dict with the printed key (ints stay ints).
"""
import re


class PySet(list):
    pass


_tok = re.compile(r'''\s*(?:
    (?P<str>"(?:[^"\\]|\\.)*") |
    (?P<num>-?\d+) |
    (?P<op>\|->|:>|@@|<<|>>|\[|\]|\{|\}|\(|\)|,) |
    (?P<id>[A-Za-z_][A-Za-z0-9_!]*)
)''', re.X)


def tokenize(s):
    pos = 0
    out = []
    n = len(s)
    while pos < n:
        m = _tok.match(s, pos)
        if not m:
            if s[pos:].strip() == "":
                break
            raise ValueError("bad TLA value at %r" % s[pos:pos + 40])
        pos = m.end()
        if m.group("str") is not None:
            out.append(("str", bytes(m.group("str")[1:-1], "utf-8").decode("unicode_escape")))
        elif m.group("num") is not None:
            out.append(("num", int(m.group("num"))))
        elif m.group("op") is not None:
            out.append(("op", m.group("op")))
        else:
            out.append(("id", m.group("id")))
    return out


class _P:
    def __init__(self, toks):
        self.t = toks
        self.i = 0

    def peek(self):
        return self.t[self.i] if self.i < len(self.t) else (None, None)

    def eat(self, kind=None, val=None):
        k, v = self.peek()
        if (kind and k != kind) or (val is not None and v != val):
            raise ValueError("expected %s %s got %s %s at %d" % (kind, val, k, v, self.i))
        self.i += 1
        return v

    def value(self):
        k, v = self.peek()
        if k == "str" or k == "num":
            self.i += 1
            return v
        if k == "id":
            self.i += 1
            if v == "TRUE":
                return True
            if v == "FALSE":
                return False
            return v  # model value
        if k == "op":
            if v == "<<":
                self.i += 1
                out = []
                while self.peek() != ("op", ">>"):
                    out.append(self.value())
                    if self.peek() == ("op", ","):
                        self.i += 1
                self.eat("op", ">>")
                return out
            if v == "{":
                self.i += 1
                out = PySet()
                while self.peek() != ("op", "}"):
                    out.append(self.value())
                    if self.peek() == ("op", ","):
                        self.i += 1
                self.eat("op", "}")
                return out
            if v == "[":
                self.i += 1
                out = {}
                while self.peek() != ("op", "]"):
                    name = self.eat("id")
                    self.eat("op", "|->")
                    out[name] = self.value()
                    if self.peek() == ("op", ","):
                        self.i += 1
                self.eat("op", "]")
                return out
            if v == "(":
                self.i += 1
                out = {}
                while True:
                    key = self.value()
                    self.eat("op", ":>")
                    out[_key(key)] = self.value()
                    if self.peek() == ("op", "@@"):
                        self.i += 1
                        continue
                    break
                self.eat("op", ")")
                return out
        raise ValueError("unexpected token %s %s" % (k, v))


def _key(k):
    if isinstance(k, (int, str)):
        return k
    return repr(k)


def parse(s):
    p = _P(tokenize(s))
    v = p.value()
    if p.i != len(p.t):
        raise ValueError("trailing tokens in %r" % s[:80])
    return v


_state_var = re.compile(r'^/\\ (\w+) = ', re.M)


def parse_state(text):
    """text: '/\\ a = ...\n/\\ b = ...' (values may span lines). Single-variable specs print 'a = v'."""
    text = text.strip()
    if not text.startswith("/\\"):
        m = re.match(r'^(\w+) = ', text)
        if not m:
            raise ValueError("bad state text %r" % text[:60])
        return {m.group(1): parse(text[m.end():])}
    ms = list(_state_var.finditer(text))
    out = {}
    for j, m in enumerate(ms):
        end = ms[j + 1].start() if j + 1 < len(ms) else len(text)
        out[m.group(1)] = parse(text[m.end():end])
    return out


def to_jsonable(v):
    if isinstance(v, PySet):
        return {"$set": [to_jsonable(x) for x in v]}
    if isinstance(v, list):
        return [to_jsonable(x) for x in v]
    if isinstance(v, dict):
        return {str(k): to_jsonable(x) for k, x in v.items()}
    return v


def plain(v):
    """sets -> lists, recursively (for NDJSON handed to Go drivers)."""
    if isinstance(v, list):
        return [plain(x) for x in v]
    if isinstance(v, dict):
        return {str(k): plain(x) for k, x in v.items()}
    return v
