#!/bin/sh
# usage: tools/confirm_seed.sh <seed dir with patch.diff demo_test.go> <package dir rel to repo> <go test -run regex>
# confirms: demo passes without the change, fails with it; existing tests of the package pass with the change.
export GOFLAGS=-mod=mod GOPROXY=off GOSUMDB=off GOTOOLCHAIN=local GOPATH=/root/go
sd=$1; pkg=$2; rx=$3
wt=/tmp/confirm-$$
git -C /repo worktree add -q $wt HEAD
cp $sd/demo_test.go $wt/$pkg/zz_seed_demo_test.go
FL="-vet=off -overlay /tmp/ov/overlay.json -ldflags=-checklinkname=0"
cd $wt
echo "--- demo WITHOUT change:"; go test $FL ./$pkg/ -run "$rx" -count=1 2>&1 | grep -E "^(ok|FAIL|---)" | head -5
git apply $sd/patch.diff
echo "--- demo WITH change:"; go test $FL ./$pkg/ -run "$rx" -count=1 2>&1 | grep -E "^(ok|FAIL|--- FAIL)" | head -5
rm $wt/$pkg/zz_seed_demo_test.go
echo "--- existing package tests WITH change:"; go test $FL ./$pkg/ -count=1 2>&1 | grep -E "^(ok|FAIL|--- FAIL)" | head -8
cd /; git -C /repo worktree remove --force $wt
