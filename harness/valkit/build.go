package valkit

import (
	"bytes"
	"crypto/sha256"
	"encoding/json"
	"fmt"
	"time"

	"github.com/attestantio/go-eth2-client/spec/phase0"
	specqbft "github.com/bloxapp/ssv-spec/qbft"
	spectypes "github.com/bloxapp/ssv-spec/types"
	tu "github.com/bloxapp/ssv-spec/types/testingutils"

	"github.com/bloxapp/ssv/network/commons"
	ssvmessage "github.com/bloxapp/ssv/protocol/v2/message"
	ssvtypes "github.com/bloxapp/ssv/protocol/v2/types"
)

// Msg is an abstract message class (the record of spec/MsgValidation.tla).
type Msg struct {
	St    string `json:"st"`    // cons | psig | dkg | event | unk
	Raw   string `json:"raw"`   // msg | empty | junk           (the pubsub payload)
	Val   string `json:"val"`   // registry class of the validator
	Role  int    `json:"role"`  // spectypes.BeaconRole, 99 = unknown
	Dom   string `json:"dom"`   // ok | wrong
	Topic string `json:"topic"` // ok | wrong
	Env   string `json:"env"`   // none | good | good5 | badsig | unkop | short | nomsg | badkey1..4
	Body  string `json:"body"`  // ok | empty | garbage          (SSVMessage.Data)
	Mt    int    `json:"mt"`    // qbft message type 0..3, 9 = unknown
	H     int    `json:"h"`     // slot code
	R     int    `json:"r"`     // round code
	Sg    []int  `json:"sg"`    // signers
	Fd    int    `json:"fd"`    // 0 none | 1 value A | 2 value B
	Root  int    `json:"root"`  // 1 hash(A) | 2 hash(B)
	Js    string `json:"js"`    // none | rcq | rcprep | pj | pjbad | rcbad
	Sf    string `json:"sf"`    // ok | zero
	Pt    int    `json:"pt"`    // partial signature type 0..5, 9 = unknown
	Pm    string `json:"pm"`    // ok | none | dup | wsigner | zsig | two
}

// TimePoint is an abstract time: slot code s and whole seconds o into the slot (the clock is set to o+0.5s).
type TimePoint struct {
	S int `json:"s"`
	O int `json:"o"`
}

// slot and round codes of spec/MsgValidation.tla (the real order is kept)
const (
	SlotZero = -1000 // 0
	SlotOne  = -999  // 1
	Slot31M  = 801   // 2^31-1
	Slot31   = 802   // 2^31
	Slot32M  = 803   // 2^32-1
	Slot32   = 804   // 2^32
	Slot62   = 900   // 2^62 + BaseSlot: its start time (uint64 seconds, wrapping) is the one of BaseSlot
	Slot63M  = 999   // 2^63-1
	Slot63   = 1000  // 2^63
	SlotMax  = 1001  // 2^64-1
	Round31M = 990   // 2^31-1
	Round31  = 991
	Round32M = 992
	RoundBig = 1000 // 2^32
	Round63M = 1001 // 2^63-1
	Round63  = 1002
	RoundMax = 1003 // 2^64-1
)

// RealSlot maps a slot code to the real slot number.
func RealSlot(code int) uint64 {
	switch code {
	case SlotZero:
		return 0
	case SlotOne:
		return 1
	case Slot31M:
		return 1<<31 - 1
	case Slot31:
		return 1 << 31
	case Slot32M:
		return 1<<32 - 1
	case Slot32:
		return 1 << 32
	case Slot62:
		return 1<<62 + BaseSlot
	case Slot63M:
		return 1<<63 - 1
	case Slot63:
		return 1 << 63
	case SlotMax:
		return ^uint64(0)
	}
	return uint64(int64(BaseSlot) + int64(code))
}

// RealRound maps a round code to the real round number.
func RealRound(code int) uint64 {
	switch code {
	case Round31M:
		return 1<<31 - 1
	case Round31:
		return 1 << 31
	case Round32M:
		return 1<<32 - 1
	case RoundBig:
		return 1 << 32
	case Round63M:
		return 1<<63 - 1
	case Round63:
		return 1 << 63
	case RoundMax:
		return ^uint64(0)
	}
	return uint64(code)
}

func (t TimePoint) Slot() phase0.Slot     { return phase0.Slot(RealSlot(t.S)) }
func (t TimePoint) Offset() time.Duration { return time.Duration(t.O)*time.Second + 500*time.Millisecond }

func signerID(s int) spectypes.OperatorID { return spectypes.OperatorID(uint64(s)) }

func (e *Env) value(fd int) []byte {
	switch fd {
	case 1:
		return e.ValueA
	case 2:
		return e.ValueB
	}
	return nil
}

func (e *Env) root(code int) [32]byte {
	switch code {
	case 2:
		return sha256.Sum256(e.ValueB)
	case 1:
		return sha256.Sum256(e.ValueA)
	}
	return [32]byte{}
}

var dummySig = func() []byte {
	b := make([]byte, 96)
	for i := range b {
		b[i] = byte(0x11 + i)
	}
	return b
}()

// blsSign signs a QBFT message with the share key of a committee member (cached); other ids get dummy bytes.
func (e *Env) blsSign(signer int, msg *specqbft.Message) []byte {
	sk, ok := e.KS.Shares[signerID(signer)]
	if !ok {
		return dummySig
	}
	enc, err := msg.Encode()
	if err != nil {
		return dummySig
	}
	key := fmt.Sprintf("%d|%x", signer, sha256.Sum256(enc))
	e.sigMu.Lock()
	if s, ok := e.blsCache[key]; ok {
		e.sigMu.Unlock()
		return s
	}
	e.sigMu.Unlock()
	s := tu.SignQBFTMsg(sk, signerID(signer), msg).Signature
	e.sigMu.Lock()
	e.blsCache[key] = s
	e.sigMu.Unlock()
	return s
}

// MsgID of a validator class and role.
func (e *Env) MsgID(val string, role int, domOK bool) spectypes.MessageID {
	dom := e.Domain
	if !domOK {
		dom = spectypes.DomainType{0xde, 0xad, 0xbe, 0xef}
	}
	pk, ok := e.ValPK[val]
	if !ok {
		pk = e.ValPK["unknown"]
	}
	return spectypes.NewMsgID(dom, pk, spectypes.BeaconRole(uint32(role)))
}

func (e *Env) signedQBFT(signers []int, msg *specqbft.Message, fullData []byte) *specqbft.SignedMessage {
	sm := &specqbft.SignedMessage{Message: *msg, FullData: fullData}
	first := 0
	if len(signers) > 0 {
		first = signers[0]
	}
	sm.Signature = e.blsSign(first, msg)
	for _, s := range signers {
		sm.Signers = append(sm.Signers, signerID(s))
	}
	return sm
}

// justification material for (height, round): a quorum of round-change messages (unprepared, or prepared with
// value A in round-1 and carrying the quorum of prepares) and the prepares themselves.
func (e *Env) justifications(id spectypes.MessageID, height, round uint64, prepared bool) (rcj, pj [][]byte) {
	q := int(e.KS.Threshold)
	var prepares []*specqbft.SignedMessage
	prepRound := round - 1
	if round <= 1 {
		prepRound = 1
	}
	if prepared {
		for s := 1; s <= q; s++ {
			pm := &specqbft.Message{MsgType: specqbft.PrepareMsgType, Height: specqbft.Height(height), Round: specqbft.Round(prepRound),
				Identifier: id[:], Root: e.root(1)}
			prepares = append(prepares, e.signedQBFT([]int{s}, pm, nil))
		}
		pj, _ = specqbft.MarshalJustifications(prepares)
	}
	var rcs []*specqbft.SignedMessage
	for s := 1; s <= q; s++ {
		rm := &specqbft.Message{MsgType: specqbft.RoundChangeMsgType, Height: specqbft.Height(height), Round: specqbft.Round(round), Identifier: id[:]}
		if prepared {
			rm.Root = e.root(1)
			rm.DataRound = specqbft.Round(prepRound)
			rm.RoundChangeJustification = pj
		}
		rcs = append(rcs, e.signedQBFT([]int{s}, rm, nil))
	}
	rcj, _ = specqbft.MarshalJustifications(rcs)
	return rcj, pj
}

// ConsensusMessage builds the SignedMessage of a consensus class (the object, before encoding).
func (e *Env) ConsensusMessage(m Msg) *specqbft.SignedMessage {
	id := e.MsgID(m.Val, m.Role, m.Dom == "ok")
	height, round := RealSlot(m.H), RealRound(m.R)
	msg := &specqbft.Message{MsgType: specqbft.MessageType(uint64(m.Mt)), Height: specqbft.Height(height), Round: specqbft.Round(round),
		Identifier: id[:], Root: e.root(m.Root)}
	switch m.Js {
	case "rcq":
		msg.RoundChangeJustification, _ = e.justifications(id, height, round, false)
	case "rcprep":
		msg.RoundChangeJustification, msg.PrepareJustification = e.justifications(id, height, round, true)
	case "pj":
		_, msg.PrepareJustification = e.justifications(id, height, round, true)
	case "pjbad":
		msg.PrepareJustification = [][]byte{{1, 2, 3}}
	case "rcbad":
		msg.RoundChangeJustification = [][]byte{{1, 2, 3}}
	}
	if m.Mt == 3 && m.Fd != 0 {
		msg.DataRound = 1 // a round-change that carries a value is a prepared one
	}
	sm := e.signedQBFT(m.Sg, msg, e.value(m.Fd))
	if m.Sf == "zero" {
		sm.Signature = make([]byte, 96)
	}
	return sm
}

// PartialMessage builds the SignedPartialSignatureMessage of a partial-signature class.
func (e *Env) PartialMessage(m Msg) *spectypes.SignedPartialSignatureMessage {
	signer := 0
	if len(m.Sg) > 0 {
		signer = m.Sg[0]
	}
	one := func(rootByte byte, s int, zero bool) *spectypes.PartialSignatureMessage {
		pm := &spectypes.PartialSignatureMessage{PartialSignature: append([]byte{}, dummySig...), Signer: signerID(s)}
		for i := range pm.SigningRoot {
			pm.SigningRoot[i] = rootByte
		}
		if zero {
			pm.PartialSignature = make([]byte, 96)
		}
		return pm
	}
	var msgs []*spectypes.PartialSignatureMessage
	switch m.Pm {
	case "none":
	case "dup":
		msgs = []*spectypes.PartialSignatureMessage{one(1, signer, false), one(1, signer, false)}
	case "two":
		msgs = []*spectypes.PartialSignatureMessage{one(1, signer, false), one(2, signer, false)}
	case "wsigner":
		msgs = []*spectypes.PartialSignatureMessage{one(1, signer%e.N+1, false)}
	case "zsig":
		msgs = []*spectypes.PartialSignatureMessage{one(1, signer, true)}
	default:
		msgs = []*spectypes.PartialSignatureMessage{one(1, signer, false)}
	}
	sm := &spectypes.SignedPartialSignatureMessage{
		Message:   spectypes.PartialSignatureMessages{Type: spectypes.PartialSigMsgType(uint64(m.Pt)), Slot: phase0.Slot(RealSlot(m.H)), Messages: msgs},
		Signature: append([]byte{}, dummySig...), Signer: signerID(signer)}
	if m.Sf == "zero" {
		sm.Signature = make([]byte, 96)
	}
	return sm
}

var junk40 = bytes.Repeat([]byte{0xAB}, 40)
var junk300 = bytes.Repeat([]byte{0xAB}, 300)

// Concrete is a concretised message: what a remote peer would publish.
type Concrete struct {
	Topic   string
	Data    []byte              // pubsub payload (with the envelope when m.Env says so)
	SSV     *spectypes.SSVMessage // the inner SSVMessage (nil when the payload is not one)
	Inner   []byte              // encoded SSVMessage (before the envelope)
	EnvOp   spectypes.OperatorID
	EnvSig  []byte
	Offsets []int // interesting byte offsets of Data (field boundaries) for the byte-level perturbations
}

// SSVMessageOf builds the inner SSVMessage of a class.
func (e *Env) SSVMessageOf(m Msg) (*spectypes.SSVMessage, error) {
	ssv := &spectypes.SSVMessage{MsgID: e.MsgID(m.Val, m.Role, m.Dom == "ok")}
	switch m.St {
	case "cons":
		ssv.MsgType = spectypes.SSVConsensusMsgType
	case "psig":
		ssv.MsgType = spectypes.SSVPartialSignatureMsgType
	case "dkg":
		ssv.MsgType = spectypes.DKGMsgType
	case "event":
		ssv.MsgType = ssvmessage.SSVEventMsgType
	default:
		ssv.MsgType = spectypes.MsgType(77)
	}
	switch m.Body {
	case "empty":
		ssv.Data = nil
		return ssv, nil
	case "garbage":
		ssv.Data = junk40
		return ssv, nil
	}
	var err error
	switch m.St {
	case "cons":
		ssv.Data = EncodeSignedMessage(e.ConsensusMessage(m))
	case "psig":
		ssv.Data, err = e.PartialMessage(m).Encode()
	case "event":
		ssv.Data, err = json.Marshal(&ssvtypes.EventMsg{Type: ssvtypes.Timeout, Data: junk300})
	default:
		ssv.Data = junk300
	}
	return ssv, err
}

// Concretise turns a class into the bytes on the wire.
func (e *Env) Concretise(m Msg) (*Concrete, error) {
	pk, ok := e.ValPK[m.Val]
	if !ok {
		pk = e.ValPK["unknown"]
	}
	c := &Concrete{Topic: Topic(pk)}
	if m.Topic != "ok" {
		c.Topic = WrongTopic(pk)
	}
	switch m.Raw {
	case "empty":
		return c, nil
	case "junk":
		c.Data = junk300
		return c, nil
	}
	ssv, err := e.SSVMessageOf(m)
	if err != nil {
		return nil, err
	}
	c.SSV = ssv
	c.Inner = EncodeSSVMessage(ssv)
	c.Data = c.Inner
	base := 0
	switch m.Env {
	case "none":
	case "short":
		c.Data = e.RSASign(1, c.Inner)[:100]
		return c, nil
	case "nomsg":
		c.Data = commons.EncodeSignedSSVMessage(nil, 1, e.RSASign(1, c.Inner))
		return c, nil
	default:
		op := spectypes.OperatorID(1)
		if len(m.Sg) > 0 && m.Sg[0] >= 1 && m.Sg[0] <= e.N {
			op = signerID(m.Sg[0])
		}
		sig := e.RSASign(op, c.Inner)
		switch m.Env {
		case "good5":
			op = OtherOperator
			sig = e.RSASign(op, c.Inner)
		case "badsig":
			sig = e.RSASign(op, append(append([]byte{}, c.Inner...), 'x'))
		case "unkop":
			op = UnknownOperator
		case "badkey1", "badkey2", "badkey3", "badkey4":
			op = BadKeyOperator + spectypes.OperatorID(m.Env[6]-'0') // registered, stored public key does not parse
		}
		c.EnvOp, c.EnvSig = op, sig
		c.Data = commons.EncodeSignedSSVMessage(c.Inner, op, sig)
		base = 264
		c.Offsets = append(c.Offsets, 0, 256, 264)
	}
	// field boundaries of the SSVMessage and of the SignedMessage inside it
	for _, o := range []int{0, 8, 12, 60, 64, 68} {
		c.Offsets = append(c.Offsets, base+o)
	}
	if m.St == "cons" && m.Body == "ok" {
		d := base + 68
		for _, o := range []int{96, 100, 104, 108} {
			c.Offsets = append(c.Offsets, d+o)
		}
		ms := d + 108 + 8*len(m.Sg)
		for _, o := range []int{0, 8, 16, 24, 28, 60, 68, 72, 76, 132} {
			c.Offsets = append(c.Offsets, ms+o)
		}
	}
	if m.St == "psig" && m.Body == "ok" {
		d := base + 68
		for _, o := range []int{4, 100, 108, 116, 124, 128, 132, 228, 260} {
			c.Offsets = append(c.Offsets, d+o)
		}
	}
	return c, nil
}
