// Package valkit is the reusable part of the message-validation harness (C08, C09; C10 reuses it):
// a virtual-clock BeaconNetwork, a real messageValidator with storage, shares and operator keys, and
// builders that concretise abstract message classes into real SSZ/JSON encoded pubsub messages.
package valkit

import (
	"sync"
	"time"

	"github.com/attestantio/go-eth2-client/spec/phase0"
	spectypes "github.com/bloxapp/ssv-spec/types"

	beaconprotocol "github.com/bloxapp/ssv/protocol/v2/blockchain/beacon"
)

// VNet is a beacon network whose genesis is re-based before each call so that time.Now() falls at a chosen
// (slot, offset).  The arithmetic is the one of beacon.Network (uint64 seconds, wrapping), only the genesis
// moves; the genesis carries a sub-second part so that the offset inside the slot is exact.
type VNet struct {
	beaconprotocol.Network
	mu      sync.RWMutex
	genSec  uint64
	genNsec int64
}

const SlotSeconds = 12

func NewVNet() *VNet {
	return &VNet{Network: beaconprotocol.NewNetwork(spectypes.BeaconTestNetwork)}
}

// SetNow re-bases the genesis: now = start of `slot` + off.  Keep off >= 1.2s and <= 11.5s (the validator
// truncates the reception time to whole seconds when it estimates the current slot).
func (v *VNet) SetNow(slot phase0.Slot, off time.Duration) {
	g := time.Now().Add(-(time.Duration(uint64(slot))*SlotSeconds*time.Second + off))
	v.mu.Lock()
	v.genSec = uint64(g.Unix())
	v.genNsec = int64(g.Nanosecond())
	v.mu.Unlock()
}

func (v *VNet) gen() (uint64, int64) {
	v.mu.RLock()
	defer v.mu.RUnlock()
	return v.genSec, v.genNsec
}

func (v *VNet) MinGenesisTime() uint64        { s, _ := v.gen(); return s }
func (v *VNet) SlotDurationSec() time.Duration { return SlotSeconds * time.Second }
func (v *VNet) SlotsPerEpoch() uint64          { return 32 }

func (v *VNet) GetSlotStartTime(slot phase0.Slot) time.Time {
	s, ns := v.gen()
	timeSinceGenesisStart := uint64(slot) * uint64(SlotSeconds)
	return time.Unix(int64(s+timeSinceGenesisStart), ns)
}
func (v *VNet) GetSlotEndTime(slot phase0.Slot) time.Time { return v.GetSlotStartTime(slot + 1) }
func (v *VNet) EstimatedSlotAtTime(t int64) phase0.Slot {
	s, _ := v.gen()
	genesis := int64(s)
	if t < genesis {
		return 0
	}
	return phase0.Slot(uint64(t-genesis) / uint64(SlotSeconds))
}
func (v *VNet) EstimatedCurrentSlot() phase0.Slot { return v.EstimatedSlotAtTime(time.Now().Unix()) }
func (v *VNet) EstimatedTimeAtSlot(slot phase0.Slot) int64 {
	return v.GetSlotStartTime(slot).Unix()
}
func (v *VNet) EstimatedCurrentEpoch() phase0.Epoch {
	return v.EstimatedEpochAtSlot(v.EstimatedCurrentSlot())
}
func (v *VNet) EstimatedEpochAtSlot(slot phase0.Slot) phase0.Epoch { return phase0.Epoch(slot / 32) }
func (v *VNet) FirstSlotAtEpoch(epoch phase0.Epoch) phase0.Slot    { return phase0.Slot(uint64(epoch) * 32) }
func (v *VNet) EpochStartTime(epoch phase0.Epoch) time.Time {
	return v.GetSlotStartTime(v.FirstSlotAtEpoch(epoch))
}
func (v *VNet) IsFirstSlotOfEpoch(slot phase0.Slot) bool       { return uint64(slot)%32 == 0 }
func (v *VNet) GetEpochFirstSlot(epoch phase0.Epoch) phase0.Slot { return phase0.Slot(uint64(epoch) * 32) }
func (v *VNet) GetNetwork() beaconprotocol.Network             { return v.Network }
