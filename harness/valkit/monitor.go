package valkit

import (
	"bytes"
	"crypto"
	"crypto/rsa"
	"crypto/sha256"
	"crypto/x509"
	"encoding/base64"
	"encoding/binary"
	"encoding/hex"
	"encoding/pem"
	"fmt"
	"strconv"
	"strings"

	specqbft "github.com/bloxapp/ssv-spec/qbft"
	spectypes "github.com/bloxapp/ssv-spec/types"
)

// Monitor is the C09 property monitor.  It is independent of the operational specification: it looks only at
// the concrete bytes that the real validator ACCEPTED, at the concrete time the harness had set, and at the
// concrete history of what was accepted before, and evaluates the statement of C09 ("GossipOK") on them.
// Break returns the name of the first rule the accepted message breaks ("none" if it breaks none).
type Monitor struct {
	env    *Env
	signed func(nowSlot uint64) bool // are signed envelopes active at this slot
	class  map[string]string         // validator pk (hex) -> registry class, the harness's own table
	pubs   map[spectypes.OperatorID]*rsa.PublicKey
	hist   []histEntry
}

type histEntry struct {
	pk      string
	role    uint32
	signers []uint64
	height  uint64
	round   uint64
	mt      uint64
	dataSum [32]byte
	hasData bool
}

func NewMonitor(e *Env, signed func(nowSlot uint64) bool) (*Monitor, error) {
	m := &Monitor{env: e, signed: signed, class: map[string]string{}, pubs: map[spectypes.OperatorID]*rsa.PublicKey{}}
	for c, pk := range e.ValPK {
		if c != "unknown" && c != "badpk" {
			m.class[hex.EncodeToString(pk)] = c
		}
	}
	for id, k := range e.OpKeys {
		b64, err := k.Public().Base64()
		if err != nil {
			return nil, err
		}
		raw, err := base64.StdEncoding.DecodeString(string(b64))
		if err != nil {
			return nil, err
		}
		blk, _ := pem.Decode(raw)
		if blk == nil {
			return nil, fmt.Errorf("operator key %d: no PEM block", id)
		}
		var pub *rsa.PublicKey
		if k, err := x509.ParsePKIXPublicKey(blk.Bytes); err == nil {
			pub, _ = k.(*rsa.PublicKey)
		}
		if pub == nil {
			if k, err := x509.ParsePKCS1PublicKey(blk.Bytes); err == nil {
				pub = k
			}
		}
		if pub == nil {
			return nil, fmt.Errorf("operator key %d: cannot parse", id)
		}
		m.pubs[id] = pub
	}
	return m, nil
}

// Reset forgets the history (a fresh validator).
func (m *Monitor) Reset() { m.hist = m.hist[:0] }

// Clone copies the monitor with its history.
func (m *Monitor) Clone() *Monitor {
	c := *m
	c.hist = append([]histEntry{}, m.hist...)
	return &c
}

func ttl(role uint32) (uint64, bool) {
	switch role {
	case 2, 3, 4:
		return 3, true
	case 0, 1:
		return 34, true
	}
	return 0, false
}

func maxRound(role uint32) uint64 {
	switch role {
	case 0, 1:
		return 12
	case 2, 3, 4:
		return 6
	}
	return 0
}

// roundAt: the round a correct instance started at the start of the slot is in after `elapsedMs`.
func roundAt(elapsedMs uint64) uint64 {
	deadline := uint64(0)
	for r := uint64(1); ; r++ {
		if r <= 8 {
			deadline += 2000
		} else {
			deadline += 120000
		}
		if elapsedMs < deadline {
			return r
		}
	}
}

func topicOf(pk []byte) string {
	v, err := strconv.ParseUint(hex.EncodeToString(pk)[:10], 16, 64)
	if err != nil {
		return "?"
	}
	return strconv.FormatUint(v%128, 10)
}

// Accepted evaluates the property on one accepted pubsub message and adds it to the history.
// timeExact=false: the clock-dependent clauses are not asserted (the call was too slow for the time point to be exact).
func (m *Monitor) Accepted(topic string, data []byte, nowSlot uint64, offMs uint64, timeExact bool) string {
	b, e := m.check(topic, data, nowSlot, offMs, timeExact)
	if e != nil {
		m.hist = append(m.hist, *e)
	}
	return b
}

// Check is Accepted without recording.
func (m *Monitor) Check(topic string, data []byte, nowSlot uint64, offMs uint64, timeExact bool) string {
	b, _ := m.check(topic, data, nowSlot, offMs, timeExact)
	return b
}

func (m *Monitor) check(topic string, data []byte, nowSlot uint64, offMs uint64, timeExact bool) (string, *histEntry) {
	payload := data
	signedEra := m.signed(nowSlot)
	var envOp uint64
	var envSig []byte
	if signedEra {
		if len(data) < 264 {
			return "not-a-consensus-or-partial-signature-message", nil
		}
		envSig, envOp, payload = data[:256], binary.LittleEndian.Uint64(data[256:264]), data[264:]
	}
	ssv := &spectypes.SSVMessage{}
	if err := ssv.Decode(payload); err != nil {
		return "not-a-consensus-or-partial-signature-message", nil
	}
	var cons *specqbft.SignedMessage
	var psig *spectypes.SignedPartialSignatureMessage
	switch ssv.MsgType {
	case spectypes.SSVConsensusMsgType:
		cons = &specqbft.SignedMessage{}
		if err := cons.Decode(ssv.Data); err != nil {
			return "not-a-consensus-or-partial-signature-message", nil
		}
	case spectypes.SSVPartialSignatureMsgType:
		psig = &spectypes.SignedPartialSignatureMessage{}
		if err := psig.Decode(ssv.Data); err != nil {
			return "not-a-consensus-or-partial-signature-message", nil
		}
	default:
		return "not-a-consensus-or-partial-signature-message", nil
	}
	pk := ssv.MsgID.GetPubKey()
	role := uint32(ssv.MsgID.GetRoleType())
	entry := &histEntry{pk: hex.EncodeToString(pk), role: role}
	// known, active, non-liquidated validator
	switch m.class[entry.pk] {
	case "":
		return "unknown-validator", nil
	case "liquidated":
		return "liquidated", nil
	case "active", "active2":
	default:
		return "inactive-validator", nil
	}
	// sent on that validator's topic
	if t := strings.TrimPrefix(topic, "ssv.v2."); t != topicOf(pk) {
		return "wrong-topic", entry
	}
	// valid signature of a registered operator over exactly its payload
	if signedEra {
		pub, ok := m.pubs[spectypes.OperatorID(envOp)]
		if !ok {
			return "bad-signature", entry
		}
		h := sha256.Sum256(payload)
		if err := rsa.VerifyPKCS1v15(pub, crypto.SHA256, h[:], envSig); err != nil {
			return "bad-signature", entry
		}
	}
	// signers: sorted, distinct, non-zero committee members; one unless a quorum-sized commit
	var signers []uint64
	if cons != nil {
		for _, s := range cons.Signers {
			signers = append(signers, uint64(s))
		}
	} else {
		signers = []uint64{uint64(psig.Signer)}
	}
	entry.signers = signers
	n := uint64(m.env.N)
	quorum := uint64(m.env.KS.Threshold)
	if len(signers) == 0 {
		return "no-signer", entry
	}
	for _, s := range signers {
		if s == 0 {
			return "zero-signer", entry
		}
	}
	for _, s := range signers {
		if s > n {
			return "non-member", entry
		}
	}
	for i := range signers {
		for j := i + 1; j < len(signers); j++ {
			if signers[i] == signers[j] {
				return "duplicate-signer", entry
			}
		}
	}
	for i := 1; i < len(signers); i++ {
		if signers[i-1] > signers[i] {
			return "unsorted-signers", entry
		}
	}
	if len(signers) > 1 && !(cons != nil && cons.Message.MsgType == specqbft.CommitMsgType) {
		return "multi-signer-non-commit", entry
	}
	if len(signers) > 1 && uint64(len(signers)) < quorum {
		return "decided-subquorum", entry
	}
	var msgSlot uint64
	if cons != nil {
		msgSlot = uint64(cons.Message.Height)
		entry.height, entry.round, entry.mt = msgSlot, uint64(cons.Message.Round), uint64(cons.Message.MsgType)
		// proposals come from the round leader
		if cons.Message.MsgType == specqbft.ProposalMsgType {
			r := uint64(cons.Message.Round)
			if r < 1 {
				return "non-leader-proposal", entry
			}
			idx := (msgSlot%n + (r-1)%n) % n
			if signers[0] != idx+1 {
				return "non-leader-proposal", entry
			}
		}
		// attached full data matches the root
		carries := cons.Message.MsgType == specqbft.ProposalMsgType || cons.Message.MsgType == specqbft.RoundChangeMsgType ||
			(cons.Message.MsgType == specqbft.CommitMsgType && len(signers) > 1)
		if carries && len(cons.FullData) > 0 {
			entry.hasData = true
			entry.dataSum = sha256.Sum256(cons.FullData)
			if !bytes.Equal(entry.dataSum[:], cons.Message.Root[:]) {
				return "root-mismatch", entry
			}
		}
	} else {
		msgSlot = uint64(psig.Message.Slot)
		entry.height = msgSlot
	}
	// slot window of the role
	if timeExact {
		t, limited := ttl(role)
		outside := msgSlot > nowSlot || (limited && msgSlot+t >= msgSlot && nowSlot > msgSlot+t)
		if psig != nil {
			if outside {
				return "partial-sig-outside-slot-window", nil // not recorded: the history is about consensus messages
			}
			return "none", nil
		}
		if msgSlot > nowSlot {
			if msgSlot > ^uint64(0)/12 { // its start time in seconds does not fit 64 bits
				return "slot-time-overflow", entry
			}
			return "early-slot", entry
		}
		if outside {
			return "late-slot", entry
		}
	} else if psig != nil {
		return "none", nil
	}
	// round window of the role
	r := entry.round
	if r < 1 || r > maxRound(role) {
		return "round-too-high", entry
	}
	if timeExact && msgSlot <= nowSlot {
		elapsed := (nowSlot-msgSlot)*12000 + offMs
		if r > roundAt(elapsed)+1 {
			return "round-too-far", entry
		}
	}
	// per-signer limits against what was accepted before
	in := func(s uint64, l []uint64) bool {
		for _, x := range l {
			if x == s {
				return true
			}
		}
		return false
	}
	for _, h := range m.hist {
		if h.pk != entry.pk || h.role != entry.role {
			continue
		}
		common := false
		for _, s := range signers {
			if in(s, h.signers) {
				common = true
			}
		}
		if !common {
			continue
		}
		if h.height > entry.height {
			return "slot-regression", entry
		}
		if h.height == entry.height && h.round > entry.round {
			return "round-regression", entry
		}
	}
	if len(signers) == 1 {
		same, differentData := false, false
		for _, h := range m.hist {
			if h.pk == entry.pk && h.role == entry.role && len(h.signers) == 1 && h.signers[0] == signers[0] &&
				h.height == entry.height && h.round == entry.round && h.mt == entry.mt {
				same = true
				if h.hasData != entry.hasData || h.dataSum != entry.dataSum {
					differentData = true
				}
			}
		}
		if same {
			switch entry.mt {
			case 0:
				if differentData {
					return "second-proposal", entry
				}
				return "too-many-proposals", entry
			case 1:
				return "too-many-prepares", entry
			case 2:
				return "too-many-commits", entry
			default:
				return "too-many-round-changes", entry
			}
		}
	}
	return "none", entry
}
