package valkit

import (
	"context"
	"crypto/ecdsa"
	"crypto/elliptic"
	crand "crypto/rand"
	"crypto/sha256"
	"crypto/x509"
	"encoding/base64"
	"encoding/pem"
	"errors"
	"fmt"
	"runtime"
	"runtime/debug"
	"sync"
	"time"

	eth2apiv1 "github.com/attestantio/go-eth2-client/api/v1"
	"github.com/attestantio/go-eth2-client/spec/phase0"
	specqbft "github.com/bloxapp/ssv-spec/qbft"
	spectypes "github.com/bloxapp/ssv-spec/types"
	tu "github.com/bloxapp/ssv-spec/types/testingutils"
	"github.com/ethereum/go-ethereum/common"
	"github.com/herumi/bls-eth-go-binary/bls"
	pubsub "github.com/libp2p/go-libp2p-pubsub"
	pspb "github.com/libp2p/go-libp2p-pubsub/pb"
	"github.com/libp2p/go-libp2p/core/peer"
	"go.uber.org/zap"

	"github.com/bloxapp/ssv/message/validation"
	"github.com/bloxapp/ssv/monitoring/metricsreporter"
	"github.com/bloxapp/ssv/network/commons"
	"github.com/bloxapp/ssv/networkconfig"
	"github.com/bloxapp/ssv/operator/keys"
	operatorstorage "github.com/bloxapp/ssv/operator/storage"
	beaconprotocol "github.com/bloxapp/ssv/protocol/v2/blockchain/beacon"
	ssvtypes "github.com/bloxapp/ssv/protocol/v2/types"
	registrystorage "github.com/bloxapp/ssv/registry/storage"
	"github.com/bloxapp/ssv/storage/basedb"
	"github.com/bloxapp/ssv/storage/kv"
)

// BaseSlot is the real slot of abstract slot 0: a multiple of 32 (epochs), 4 and 7 (round-robin leader).
const BaseSlot = uint64(896 * 10000)

const (
	OtherOperator   = spectypes.OperatorID(100) // registered, not in any committee
	UnknownOperator = spectypes.OperatorID(999) // not registered
	// BadKeyOperator+k (k = 1..4): registered operators whose stored public key cannot be parsed (the contract event
	// handler stores the key bytes of OperatorAdded unparsed): 1 not base64, 2 base64 of garbage, 3 base64 of a valid
	// PEM of a non-RSA (ECDSA P-256) key, 4 empty
	BadKeyOperator = spectypes.OperatorID(100)
)

// AllOperatorIDs are the ids an envelope can name with a distinct outcome (byte-level perturbation of the id field).
func (e *Env) AllOperatorIDs() []uint64 {
	out := []uint64{0, uint64(OtherOperator), uint64(UnknownOperator), 101, 102, 103, 104}
	for i := 1; i <= e.N; i++ {
		out = append(out, uint64(i))
	}
	return out
}

// ForkEpochOf maps the spec's ForkEpoch code (relative to the epoch of BaseSlot) to the real epoch.
func ForkEpochOf(code int) phase0.Epoch { return phase0.Epoch(int64(BaseSlot/32) + int64(code)) }

// validator classes of the registry
var ValClasses = []string{"active", "unknown", "liquidated", "nometa", "exited", "pending", "badpk", "active2"}

// Env is everything that is shared by the peers of one run: keys, storage with the shares of one committee
// for several validators (one per registry class), operator RSA keys.
type Env struct {
	N        int
	KS       *tu.TestKeySet
	Domain   spectypes.DomainType
	Storage  operatorstorage.Storage
	ValPK    map[string][]byte // class -> 48 byte validator public key
	OpKeys   map[spectypes.OperatorID]keys.OperatorPrivateKey
	ValueA   []byte
	ValueB   []byte
	sigMu    sync.Mutex
	rsaCache map[[32]byte][]byte
	blsCache map[string][]byte
}

var blsOnce sync.Once

func derivedPK(seed string) []byte {
	h := sha256.Sum256([]byte("verif-validator-" + seed))
	sk := &bls.SecretKey{}
	h[0] &= 0x3f
	if err := sk.SetLittleEndian(h[:]); err != nil {
		panic(err)
	}
	return sk.GetPublicKey().Serialize()
}

// NewEnv builds storage and keys for a committee of n (4 or 7) operators.
func NewEnv(n int) (*Env, error) {
	blsOnce.Do(func() { spectypes.InitBLS() })
	var ks *tu.TestKeySet
	switch n {
	case 4:
		ks = tu.Testing4SharesSet()
	case 7:
		ks = tu.Testing7SharesSet()
	default:
		return nil, fmt.Errorf("committee size %d not supported", n)
	}
	logger := zap.NewNop()
	db, err := kv.NewInMemory(logger, basedb.Options{})
	if err != nil {
		return nil, err
	}
	ns, err := operatorstorage.NewNodeStorage(logger, db)
	if err != nil {
		return nil, err
	}
	e := &Env{N: n, KS: ks, Domain: networkconfig.TestNetwork.Domain, Storage: ns, ValPK: map[string][]byte{},
		OpKeys: map[spectypes.OperatorID]keys.OperatorPrivateKey{}, rsaCache: map[[32]byte][]byte{}, blsCache: map[string][]byte{},
		ValueA: []byte("verif full data A: the value a leader proposes"), ValueB: []byte("verif full data B: another value")}
	e.ValPK["active"] = ks.ValidatorPK.Serialize()
	for _, c := range []string{"unknown", "liquidated", "nometa", "exited", "pending", "active2"} {
		e.ValPK[c] = derivedPK(c)
	}
	bad := make([]byte, 48)
	for i := range bad {
		bad[i] = 0xff
	}
	e.ValPK["badpk"] = bad
	mk := func(class string, meta *beaconprotocol.ValidatorMetadata, liquidated bool) error {
		sh := tu.TestingShare(ks)
		sh.ValidatorPubKey = e.ValPK[class]
		return ns.Shares().Save(nil, &ssvtypes.SSVShare{Share: *sh,
			Metadata: ssvtypes.Metadata{BeaconMetadata: meta, Liquidated: liquidated}})
	}
	active := func() *beaconprotocol.ValidatorMetadata {
		return &beaconprotocol.ValidatorMetadata{Status: eth2apiv1.ValidatorStateActiveOngoing, Index: 123}
	}
	if err := mk("active", active(), false); err != nil {
		return nil, err
	}
	if err := mk("active2", active(), false); err != nil {
		return nil, err
	}
	if err := mk("liquidated", active(), true); err != nil {
		return nil, err
	}
	if err := mk("nometa", nil, false); err != nil {
		return nil, err
	}
	if err := mk("exited", &beaconprotocol.ValidatorMetadata{Status: eth2apiv1.ValidatorStateExitedUnslashed, Index: 124}, false); err != nil {
		return nil, err
	}
	if err := mk("pending", &beaconprotocol.ValidatorMetadata{Status: eth2apiv1.ValidatorStatePendingQueued, Index: 125,
		ActivationEpoch: phase0.Epoch(1) << 60}, false); err != nil {
		return nil, err
	}
	ids := []spectypes.OperatorID{OtherOperator}
	for i := 1; i <= n; i++ {
		ids = append(ids, spectypes.OperatorID(i))
	}
	for _, id := range ids {
		k, err := keys.GeneratePrivateKey()
		if err != nil {
			return nil, err
		}
		pub, err := k.Public().Base64()
		if err != nil {
			return nil, err
		}
		if _, err := ns.SaveOperatorData(nil, &registrystorage.OperatorData{ID: id, PublicKey: pub, OwnerAddress: common.Address{}}); err != nil {
			return nil, err
		}
		e.OpKeys[id] = k
	}
	eck, err := ecdsa.GenerateKey(elliptic.P256(), crand.Reader)
	if err != nil {
		return nil, err
	}
	der, err := x509.MarshalPKIXPublicKey(&eck.PublicKey)
	if err != nil {
		return nil, err
	}
	ecPEM := pem.EncodeToMemory(&pem.Block{Type: "PUBLIC KEY", Bytes: der})
	badKeys := [][]byte{[]byte("!!! this is not base64 !!!"), []byte(base64.StdEncoding.EncodeToString([]byte("garbage, not a PEM block"))),
		[]byte(base64.StdEncoding.EncodeToString(ecPEM)), {}}
	for k, pk := range badKeys {
		if _, err := ns.SaveOperatorData(nil, &registrystorage.OperatorData{ID: BadKeyOperator + spectypes.OperatorID(k+1), PublicKey: pk, OwnerAddress: common.Address{}}); err != nil {
			return nil, err
		}
	}
	return e, nil
}

// RSASign signs payload with the operator's key (cached: PKCS1v15 is deterministic).
func (e *Env) RSASign(op spectypes.OperatorID, payload []byte) []byte {
	k, ok := e.OpKeys[op]
	if !ok {
		k = e.OpKeys[1]
	}
	h := sha256.Sum256(append([]byte{byte(op), byte(op >> 8)}, payload...))
	e.sigMu.Lock()
	if s, ok := e.rsaCache[h]; ok {
		e.sigMu.Unlock()
		return s
	}
	e.sigMu.Unlock()
	s, err := k.Sign(payload)
	if err != nil {
		panic(err)
	}
	e.sigMu.Lock()
	e.rsaCache[h] = s
	e.sigMu.Unlock()
	return s
}

// Topic returns the full pubsub topic name of a validator public key.
func Topic(pk []byte) string {
	return commons.GetTopicFullName(commons.ValidatorTopicID(pk)[0])
}

// WrongTopic returns a well-formed topic that is not the validator's.
func WrongTopic(pk []byte) string {
	n := (commons.ValidatorSubnet(fmt.Sprintf("%x", pk)) + 1) % commons.Subnets()
	return commons.GetTopicFullName(commons.SubnetTopicID(n))
}

// ---------------------------------------------------------------------------------------------------------

// Peer is one real messageValidator with its own virtual clock.
type Peer struct {
	Env   *Env
	Clock *VNet
	MV    validation.MessageValidator
	rec   *reasonRecorder
}

type reasonRecorder struct {
	metricsreporter.MetricsReporter
	mu     sync.Mutex
	class  string
	reason string
}

func (r *reasonRecorder) MessageAccepted(spectypes.BeaconRole, specqbft.Round) {
	r.mu.Lock()
	r.class, r.reason = "accept", ""
	r.mu.Unlock()
}
func (r *reasonRecorder) MessageIgnored(reason string, _ spectypes.BeaconRole, _ specqbft.Round) {
	r.mu.Lock()
	r.class, r.reason = "ignore", reason
	r.mu.Unlock()
}
func (r *reasonRecorder) MessageRejected(reason string, _ spectypes.BeaconRole, _ specqbft.Round) {
	r.mu.Lock()
	r.class, r.reason = "reject", reason
	r.mu.Unlock()
}

// NewPeer builds a fresh validator (empty per-signer state).  forkEpoch: signed envelopes are required for
// epochs > forkEpoch (networkconfig.PermissionlessActivationEpoch).
func (e *Env) NewPeer(forkEpoch phase0.Epoch) *Peer {
	clock := NewVNet()
	cfg := networkconfig.TestNetwork
	cfg.Beacon = clock
	cfg.PermissionlessActivationEpoch = forkEpoch
	rec := &reasonRecorder{MetricsReporter: metricsreporter.NewNop()}
	mv := validation.NewMessageValidator(cfg, validation.WithNodeStorage(e.Storage), validation.WithMetrics(rec))
	return &Peer{Env: e, Clock: clock, MV: mv, rec: rec}
}

// Outcome of one call of the real validator.
type Outcome struct {
	Class  string        // accept | ignore | reject | panic | hang
	Rule   string        // validation.Error.Text() (pubsub path: the reason given to the metrics reporter)
	Err    string        // full error text (ValidateSSVMessage path)
	Panic  string        // recovered value and stack
	Alloc  uint64        // bytes allocated during the call (all goroutines)
	Dur    time.Duration // wall time of the call
	TimeOK bool          // the call was fast enough for its virtual time point to be exact
}

const (
	HangAfter    = 2 * time.Second
	TimingMargin = 300 * time.Millisecond
)

func guarded(f func() (string, string, string)) (o Outcome) {
	var ms0, ms1 runtime.MemStats
	runtime.ReadMemStats(&ms0)
	done := make(chan Outcome, 1)
	t0 := time.Now()
	go func() {
		var out Outcome
		defer func() {
			if r := recover(); r != nil {
				out.Class = "panic"
				out.Panic = fmt.Sprintf("%v\n%s", r, debug.Stack())
			}
			done <- out
		}()
		out.Class, out.Rule, out.Err = f()
	}()
	select {
	case o = <-done:
	case <-time.After(HangAfter):
		o = Outcome{Class: "hang"}
	}
	o.Dur = time.Since(t0)
	runtime.ReadMemStats(&ms1)
	o.Alloc = ms1.TotalAlloc - ms0.TotalAlloc
	o.TimeOK = o.Dur < TimingMargin
	return o
}

// guardedLight is guarded without the (stop-the-world) memory statistics; used in the bulk sweeps.
func guardedLight(f func() (string, string, string)) (o Outcome) {
	t0 := time.Now()
	func() {
		defer func() {
			if r := recover(); r != nil {
				o.Class = "panic"
				o.Panic = fmt.Sprintf("%v\n%s", r, debug.Stack())
			}
		}()
		o.Class, o.Rule, o.Err = f()
	}()
	o.Dur = time.Since(t0)
	if o.Dur > HangAfter {
		o.Class = "hang"
	}
	o.TimeOK = o.Dur < TimingMargin
	return o
}

var somePeer = peer.ID("verif-remote-peer")

// ValidatePubsub sets the clock to (slot, off) and passes a real pubsub.Message to ValidatePubsubMessage.
// heavy=true runs the call in its own goroutine with a watchdog and measures allocation.
func (p *Peer) ValidatePubsub(topic string, data []byte, slot phase0.Slot, off time.Duration, heavy bool) Outcome {
	f := func() (string, string, string) {
		tp := topic
		pmsg := &pubsub.Message{Message: &pspb.Message{Topic: &tp, Data: data}, ReceivedFrom: somePeer}
		p.rec.mu.Lock()
		p.rec.class, p.rec.reason = "", ""
		p.rec.mu.Unlock()
		p.Clock.SetNow(slot, off)
		res := p.MV.ValidatePubsubMessage(context.Background(), somePeer, pmsg)
		p.rec.mu.Lock()
		class, reason := p.rec.class, p.rec.reason
		p.rec.mu.Unlock()
		want := map[pubsub.ValidationResult]string{pubsub.ValidationAccept: "accept", pubsub.ValidationIgnore: "ignore", pubsub.ValidationReject: "reject"}[res]
		if want == "" {
			return fmt.Sprintf("result-%d", res), reason, ""
		}
		if class != want { // the reporter was not told: keep the pubsub result, no rule text
			return want, "", ""
		}
		if want == "accept" && pmsg.ValidatorData == nil {
			return want, "", "accepted without ValidatorData"
		}
		return want, reason, ""
	}
	if heavy {
		return guarded(f)
	}
	return guardedLight(f)
}

// ValidateSSV sets the clock and calls ValidateSSVMessage (no topic, no envelope).
func (p *Peer) ValidateSSV(msg *spectypes.SSVMessage, slot phase0.Slot, off time.Duration, heavy bool) Outcome {
	f := func() (string, string, string) {
		p.Clock.SetNow(slot, off)
		_, _, err := p.MV.ValidateSSVMessage(msg)
		return ClassifyError(err)
	}
	if heavy {
		return guarded(f)
	}
	return guardedLight(f)
}

// ClassifyError maps the error of ValidateSSVMessage to (class, rule text, full text).
func ClassifyError(err error) (string, string, string) {
	if err == nil {
		return "accept", "", ""
	}
	var ve validation.Error
	if errors.As(err, &ve) {
		if ve.Reject() {
			return "reject", ve.Text(), err.Error()
		}
		return "ignore", ve.Text(), err.Error()
	}
	return "ignore", "", err.Error()
}
