package valkit

import (
	"bytes"
	"encoding/binary"
	"fmt"

	specqbft "github.com/bloxapp/ssv-spec/qbft"
	spectypes "github.com/bloxapp/ssv-spec/types"
)

// Raw SSZ encoders with the layout of the generated code of ssv-spec, but without its limit checks, so that
// out-of-range objects (14 signers, oversize lists) can be put on the wire.  SelfCheck compares them with the
// real encoders on in-range objects.

func u32(b []byte, v int) []byte { return binary.LittleEndian.AppendUint32(b, uint32(v)) }
func u64(b []byte, v uint64) []byte { return binary.LittleEndian.AppendUint64(b, v) }

func encodeByteLists(l [][]byte) []byte {
	var out []byte
	off := 4 * len(l)
	for _, it := range l {
		out = u32(out, off)
		off += len(it)
	}
	for _, it := range l {
		out = append(out, it...)
	}
	return out
}

// EncodeQBFTMessage = (*specqbft.Message).MarshalSSZ without limits.
func EncodeQBFTMessage(m *specqbft.Message) []byte {
	rcj := encodeByteLists(m.RoundChangeJustification)
	pj := encodeByteLists(m.PrepareJustification)
	var b []byte
	b = u64(b, uint64(m.MsgType))
	b = u64(b, uint64(m.Height))
	b = u64(b, uint64(m.Round))
	b = u32(b, 76)
	b = append(b, m.Root[:]...)
	b = u64(b, uint64(m.DataRound))
	b = u32(b, 76+len(m.Identifier))
	b = u32(b, 76+len(m.Identifier)+len(rcj))
	b = append(b, m.Identifier...)
	b = append(b, rcj...)
	b = append(b, pj...)
	return b
}

// EncodeSignedMessage = (*specqbft.SignedMessage).MarshalSSZ without limits.
func EncodeSignedMessage(s *specqbft.SignedMessage) []byte {
	msg := EncodeQBFTMessage(&s.Message)
	sig := make([]byte, 96)
	copy(sig, s.Signature)
	b := append([]byte{}, sig...)
	b = u32(b, 108)
	b = u32(b, 108+8*len(s.Signers))
	b = u32(b, 108+8*len(s.Signers)+len(msg))
	for _, id := range s.Signers {
		b = u64(b, uint64(id))
	}
	b = append(b, msg...)
	b = append(b, s.FullData...)
	return b
}

// EncodeSSVMessage = (*spectypes.SSVMessage).MarshalSSZ without limits.
func EncodeSSVMessage(m *spectypes.SSVMessage) []byte {
	var b []byte
	b = u64(b, uint64(m.MsgType))
	b = append(b, m.MsgID[:]...)
	b = u32(b, 68)
	b = append(b, m.Data...)
	return b
}

// SelfCheck: the raw encoders agree with the real ones.
func SelfCheck(e *Env) error {
	for _, m := range []Msg{
		{St: "cons", Raw: "msg", Val: "active", Dom: "ok", Topic: "ok", Env: "none", Body: "ok", Mt: 0, H: 0, R: 2, Sg: []int{2}, Fd: 1, Root: 1, Js: "rcprep", Sf: "ok"},
		{St: "cons", Raw: "msg", Val: "active", Dom: "ok", Topic: "ok", Env: "none", Body: "ok", Mt: 2, H: -1, R: 1, Sg: []int{1, 2, 3}, Fd: 0, Root: 1, Js: "none", Sf: "ok"},
		{St: "cons", Raw: "msg", Val: "active", Dom: "ok", Topic: "ok", Env: "none", Body: "ok", Mt: 3, H: 0, R: 3, Sg: []int{}, Fd: 2, Root: 2, Js: "rcq", Sf: "zero"},
	} {
		sm := e.ConsensusMessage(m)
		want, err := sm.Encode()
		if err != nil {
			return fmt.Errorf("real encoder refused an in-range message: %w", err)
		}
		if got := EncodeSignedMessage(sm); !bytes.Equal(got, want) {
			return fmt.Errorf("raw SignedMessage encoder differs from MarshalSSZ")
		}
		back := &specqbft.SignedMessage{}
		if err := back.Decode(want); err != nil {
			return fmt.Errorf("real decoder refused its own encoding: %w", err)
		}
		ssv := &spectypes.SSVMessage{MsgType: spectypes.SSVConsensusMsgType, MsgID: e.MsgID("active", 0, true), Data: want}
		w2, err := ssv.Encode()
		if err != nil {
			return err
		}
		if !bytes.Equal(EncodeSSVMessage(ssv), w2) {
			return fmt.Errorf("raw SSVMessage encoder differs from MarshalSSZ")
		}
	}
	return nil
}
