package qbftkit

import (
	specqbft "github.com/bloxapp/ssv-spec/qbft"
	"github.com/herumi/bls-eth-go-binary/bls"
)

// MutKinds are single-field mutations that make ANY consensus message invalid for a running instance of the
// world's height (each one is re-signed with the signer's real key where the signature is not the mutated field).
var MutKinds = []string{"wrongHeight", "badSig", "nonMember", "zeroSigner", "twoSigners", "rootMismatch", "malformedJustification", "unknownType"}

// BuildAny builds a well-formed single-signer message of the given type from operator s (whatever s is), without
// caring whether the receiving instance will accept it.
func (w *World) BuildAny(typ string, s OpID, round int, value string) *specqbft.SignedMessage {
	switch typ {
	case "proposal":
		msg := w.base(specqbft.ProposalMsgType, round, value)
		return w.sign(s, msg, Value(value))
	case "prepare":
		return w.ByzPrepare(s, round, value)
	case "commit":
		return w.ByzCommit(s, round, value)
	default:
		return w.sign(s, w.base(specqbft.RoundChangeMsgType, round, "none"), nil)
	}
}

// Mutate returns a copy of m with one rule-breaking mutation applied.
func (w *World) Mutate(m *specqbft.SignedMessage, kind string) *specqbft.SignedMessage {
	c := clone(m)
	signer := c.Signers[0]
	resign := func() {
		sk := w.KS.Shares[signer]
		if sk == nil {
			sk = w.KS.Shares[1]
		}
		full := c.FullData
		c2 := w.sign(signer, &c.Message, full)
		c.Signature = c2.Signature
	}
	switch kind {
	case "wrongHeight":
		c.Message.Height = w.Height + 1
		resign()
	case "badSig":
		c.Signature = append([]byte{}, c.Signature...)
		c.Signature[10] ^= 0x55
	case "nonMember":
		c.Signers = []OpID{OpID(w.N + 1)}
	case "zeroSigner":
		c.Signers = []OpID{0}
	case "twoSigners":
		other := OpID(1)
		if signer == 1 {
			other = 2
		}
		ids := []OpID{signer, other}
		if other < signer {
			ids = []OpID{other, signer}
		}
		sm := w.multiSign([]*bls.SecretKey{w.KS.Shares[ids[0]], w.KS.Shares[ids[1]]}, ids, &c.Message)
		sm.FullData = c.FullData
		return sm
	case "rootMismatch":
		// the root no longer matches the full data (proposal / prepared round-change) or the accepted proposal
		c.Message.Root = Root("a-other")
		if c.Message.MsgType == specqbft.RoundChangeMsgType && c.Message.DataRound == 0 {
			c.Message.DataRound = 1 // claims to be prepared without a justification quorum
		}
		resign()
	case "malformedJustification":
		c.Message.RoundChangeJustification = [][]byte{{1, 2, 3}}
		resign()
	case "unknownType":
		c.Message.MsgType = specqbft.MessageType(9)
		resign()
	default:
		panic("unknown mutation " + kind)
	}
	return c
}
