// Package qbftkit builds a "world" of real QBFT controllers (protocol/v2/qbft/controller + instance) for one
// validator / role / height, with real BLS keys, a capturing network, and an adversary that signs with the
// Byzantine operators' real keys. It is shared by the C01/C02/C07/C10 drivers.
package qbftkit

import (
	"bytes"
	"context"
	"encoding/json"
	"fmt"
	"sort"
	"strings"

	specqbft "github.com/bloxapp/ssv-spec/qbft"
	spectypes "github.com/bloxapp/ssv-spec/types"
	tu "github.com/bloxapp/ssv-spec/types/testingutils"
	"github.com/herumi/bls-eth-go-binary/bls"
	"go.uber.org/zap"

	qbftstorage "github.com/bloxapp/ssv/ibft/storage"
	"github.com/bloxapp/ssv/protocol/v2/qbft"
	"github.com/bloxapp/ssv/protocol/v2/qbft/controller"
	"github.com/bloxapp/ssv/protocol/v2/qbft/instance"
	"github.com/bloxapp/ssv/protocol/v2/qbft/roundtimer"
	ssvtypes "github.com/bloxapp/ssv/protocol/v2/types"
	"github.com/bloxapp/ssv/storage/basedb"
	"github.com/bloxapp/ssv/storage/kv"
)

type OpID = spectypes.OperatorID

// Domain is the SSV domain every world signs under (message ids and signing roots). The C10 driver sets it to
// the domain of the network config its peer validators run with.
var Domain = tu.TestingSSVDomainType

// Emitted is one broadcast captured from an honest operator.
type Emitted struct {
	From OpID
	Msg  *specqbft.SignedMessage
	Raw  *spectypes.SSVMessage
	Seq  int
}

type capNet struct {
	w    *World
	from OpID
}

func (n *capNet) Broadcast(m *spectypes.SSVMessage) error {
	sm := &specqbft.SignedMessage{}
	if err := sm.Decode(m.Data); err != nil {
		return err
	}
	e := &Emitted{From: n.from, Msg: sm, Raw: m, Seq: len(n.w.Pool)}
	n.w.Pool = append(n.w.Pool, e)
	if n.w.FailBroadcast != nil && n.w.FailBroadcast(n.from, sm) {
		// the message went out (it is captured and deliverable) but the publish call reports an error
		return fmt.Errorf("injected broadcast error")
	}
	return nil
}

// World is a committee of N operators; the honest ones run real controllers.
type World struct {
	dbs      []interface{ Close() error }
	KS       *tu.TestKeySet
	N, F     int
	Honest   []OpID
	Byz      map[OpID]bool
	Ctrl     map[OpID]*controller.Controller
	Cfg      map[OpID]*qbft.Config
	Height   specqbft.Height
	ID       []byte
	Role     spectypes.BeaconRole
	Pool     []*Emitted
	StartVal map[OpID]string
	// Reports: every decided message returned by Controller.ProcessMsg, per operator
	Reports  map[OpID][]*specqbft.SignedMessage
	Log      *zap.Logger
	FullNode bool
	// FailBroadcast, when set, makes the capturing network report an error for the selected publishes
	// (the message is still captured: "delivered but the call errored").
	FailBroadcast func(from OpID, m *specqbft.SignedMessage) bool
}

// ArmedRound is the round operator i's (testing) round timer was last armed for, 0 if never.
func (w *World) ArmedRound(i OpID) specqbft.Round {
	if t, ok := w.Cfg[i].Timer.(*roundtimer.TestQBFTTimer); ok && t.State.Timeouts > 0 {
		return t.State.Round
	}
	return 0
}

// TimeoutArmed delivers the timeout event the real timer would deliver: for the round it was last armed for.
func (w *World) TimeoutArmed(i OpID) error {
	r := w.ArmedRound(i)
	if r == 0 {
		return fmt.Errorf("operator %d: round timer was never armed", i)
	}
	return w.Timeout(i, r)
}

func KeySet(n int) *tu.TestKeySet {
	switch n {
	case 4:
		return tu.Testing4SharesSet()
	case 7:
		return tu.Testing7SharesSet()
	case 10:
		return tu.Testing10SharesSet()
	case 13:
		return tu.Testing13SharesSet()
	}
	panic("unsupported committee size")
}

// Value maps a spec value name to bytes. "none" is the absent value.
func Value(name string) []byte {
	if name == "" || name == "none" {
		return nil
	}
	return []byte("qbft-value-" + name)
}

// ValueName is the inverse of Value.
func ValueName(b []byte) string {
	if len(b) == 0 {
		return "none"
	}
	s := string(b)
	if strings.HasPrefix(s, "qbft-value-") {
		return s[len("qbft-value-"):]
	}
	return "?" + s
}

// LocalBad lists, per operator, values that fail THAT operator's own value check only (the check is operator-local,
// e.g. its slashing protection). Set by a driver before NewWorld and cleared afterwards.
var LocalBad = map[OpID]map[string]bool{}

// ValueCheckFor is operator id's value check.
func ValueCheckFor(id OpID, data []byte) error {
	if err := ValueCheck(data); err != nil {
		return err
	}
	if LocalBad[id][ValueName(data)] {
		return fmt.Errorf("invalid value for operator %d", id)
	}
	return nil
}

func ValueCheck(data []byte) error {
	if len(data) == 0 {
		return fmt.Errorf("empty value")
	}
	if strings.HasPrefix(ValueName(data), "bad") {
		return fmt.Errorf("invalid value")
	}
	return nil
}

func Root(name string) [32]byte {
	if name == "none" || name == "" {
		return [32]byte{}
	}
	r, err := specqbft.HashDataRoot(Value(name))
	if err != nil {
		panic(err)
	}
	return r
}

func NewWorld(n int, byz []int, height uint64, startVals map[int]string, role spectypes.BeaconRole) *World {
	ks := KeySet(n)
	w := &World{KS: ks, N: n, F: (n - 1) / 3, Byz: map[OpID]bool{}, Ctrl: map[OpID]*controller.Controller{},
		Cfg: map[OpID]*qbft.Config{}, Height: specqbft.Height(height), Role: role, StartVal: map[OpID]string{},
		Reports: map[OpID][]*specqbft.SignedMessage{}, Log: zap.NewNop()}
	for _, b := range byz {
		w.Byz[OpID(b)] = true
	}
	mid := spectypes.NewMsgID(Domain, ks.ValidatorPK.Serialize(), role)
	w.ID = mid[:]
	for i := 1; i <= n; i++ {
		id := OpID(i)
		w.StartVal[id] = startVals[i]
		if w.Byz[id] {
			continue
		}
		w.Honest = append(w.Honest, id)
		share := w.Share(id)
		db, err := kv.NewInMemory(w.Log, basedb.Options{Ctx: context.Background()})
		if err != nil {
			panic(err)
		}
		w.dbs = append(w.dbs, db)
		cfg := &qbft.Config{
			Signer:                tu.NewTestingKeyManager(),
			SigningPK:             share.SharePubKey,
			Domain:                Domain,
			ValueCheckF:           func(d []byte) error { return ValueCheckFor(id, d) },
			ProposerF:             specqbft.RoundRobinProposer,
			Storage:               qbftstorage.NewStoresFromRoles(db, role).Get(role),
			Network:               &capNet{w: w, from: id},
			Timer:                 roundtimer.NewTestingTimer(),
			SignatureVerification: true,
		}
		w.Cfg[id] = cfg
		w.Ctrl[id] = controller.NewController(w.ID, share, cfg, w.FullNode)
	}
	open = append(open, w)
	return w
}

// every operator has its own in-memory badger (memtables + background goroutines): a driver that replays tens of
// thousands of behaviours must release them (61k behaviours without this: 62 GB resident, OOM-killed)
var open []*World

func (w *World) Close() {
	for _, db := range w.dbs {
		_ = db.Close()
	}
	w.dbs = nil
}

// CloseAll closes every world created since the last call.
func CloseAll() {
	for _, w := range open {
		w.Close()
	}
	open = nil
}

func (w *World) Share(id OpID) *spectypes.Share {
	return &spectypes.Share{
		OperatorID:      id,
		ValidatorPubKey: w.KS.ValidatorPK.Serialize(),
		SharePubKey:     w.KS.Shares[id].GetPublicKey().Serialize(),
		DomainType:      Domain,
		Quorum:          w.KS.Threshold,
		PartialQuorum:   w.KS.PartialThreshold,
		Committee:       w.KS.Committee(),
	}
}

func (w *World) Quorum() int { return int(w.KS.Threshold) }

// Instance returns operator i's instance for the world's height (nil if none).
func (w *World) Instance(i OpID) *instance.Instance {
	return w.Ctrl[i].StoredInstances.FindInstance(w.Height)
}

func (w *World) Start(i OpID) error {
	return w.Ctrl[i].StartNewInstance(w.Log, w.Height, Value(w.StartVal[i]))
}

func clone(m *specqbft.SignedMessage) *specqbft.SignedMessage {
	b, err := m.Encode()
	if err != nil {
		panic(err)
	}
	c := &specqbft.SignedMessage{}
	if err := c.Decode(b); err != nil {
		panic(err)
	}
	return c
}

// CloneMsg returns an independent copy of a signed message.
func CloneMsg(m *specqbft.SignedMessage) *specqbft.SignedMessage { return clone(m) }

// Deliver hands a (re-decoded copy of a) message to operator `to` through Controller.ProcessMsg.
func (w *World) Deliver(to OpID, m *specqbft.SignedMessage) (*specqbft.SignedMessage, error) {
	dec, err := w.Ctrl[to].ProcessMsg(w.Log, clone(m))
	if dec != nil {
		w.Reports[to] = append(w.Reports[to], dec)
	}
	return dec, err
}

func (w *World) Timeout(i OpID, round specqbft.Round) error {
	data, _ := json.Marshal(&ssvtypes.TimeoutData{Height: w.Height, Round: round})
	return w.Ctrl[i].OnTimeout(w.Log, ssvtypes.EventMsg{Type: ssvtypes.Timeout, Data: data})
}

// ---- looking up honest broadcasts -------------------------------------------------------------------------

func (w *World) find(pred func(e *Emitted) bool) *Emitted {
	for _, e := range w.Pool {
		if len(e.Msg.Signers) == 1 && pred(e) {
			return e
		}
	}
	return nil
}

func (w *World) FindProposal(from OpID, round int, value string) *specqbft.SignedMessage {
	r := Root(value)
	if e := w.find(func(e *Emitted) bool {
		return e.From == from && e.Msg.Message.MsgType == specqbft.ProposalMsgType &&
			int(e.Msg.Message.Round) == round && e.Msg.Message.Root == r
	}); e != nil {
		return e.Msg
	}
	return nil
}

func (w *World) FindSimple(typ specqbft.MessageType, from OpID, round int, value string) *specqbft.SignedMessage {
	r := Root(value)
	if e := w.find(func(e *Emitted) bool {
		return e.From == from && e.Msg.Message.MsgType == typ && int(e.Msg.Message.Round) == round && e.Msg.Message.Root == r
	}); e != nil {
		return e.Msg
	}
	return nil
}

func (w *World) FindRC(from OpID, round, pr int, pv string) *specqbft.SignedMessage {
	r := Root(pv)
	if e := w.find(func(e *Emitted) bool {
		m := e.Msg.Message
		return e.From == from && m.MsgType == specqbft.RoundChangeMsgType && int(m.Round) == round &&
			int(m.DataRound) == pr && (pr == 0 || m.Root == r)
	}); e != nil {
		return e.Msg
	}
	return nil
}

// ---- the adversary: messages signed with the Byzantine operators' real keys -------------------------------

func (w *World) sign(s OpID, msg *specqbft.Message, fullData []byte) *specqbft.SignedMessage {
	sm := w.multiSign([]*bls.SecretKey{w.KS.Shares[s]}, []OpID{s}, msg) // signs under the package Domain
	sm.FullData = fullData
	return sm
}

func (w *World) base(typ specqbft.MessageType, round int, value string) *specqbft.Message {
	return &specqbft.Message{MsgType: typ, Height: w.Height, Round: specqbft.Round(round), Identifier: w.ID, Root: Root(value)}
}

func (w *World) ByzPrepare(s OpID, round int, value string) *specqbft.SignedMessage {
	return w.sign(s, w.base(specqbft.PrepareMsgType, round, value), nil)
}

func (w *World) ByzCommit(s OpID, round int, value string) *specqbft.SignedMessage {
	return w.sign(s, w.base(specqbft.CommitMsgType, round, value), nil)
}

// prepareQuorumFor collects a quorum of prepares for (pr, pv): honest ones from the pool, the rest signed by
// Byzantine operators. Returns nil if no quorum can be assembled.
func (w *World) prepareQuorumFor(pr int, pv string) []*specqbft.SignedMessage {
	var out []*specqbft.SignedMessage
	for i := 1; i <= w.N; i++ {
		id := OpID(i)
		if w.Byz[id] {
			out = append(out, w.ByzPrepare(id, pr, pv))
		} else if m := w.FindSimple(specqbft.PrepareMsgType, id, pr, pv); m != nil {
			out = append(out, m)
		}
	}
	if len(out) < w.Quorum() {
		return nil
	}
	return out
}

func marshalJ(msgs []*specqbft.SignedMessage) [][]byte {
	out, err := specqbft.MarshalJustifications(msgs)
	if err != nil {
		panic(err)
	}
	return out
}

// ByzRC builds a round-change from Byzantine s for `round`; pr = 0 means unprepared.
func (w *World) ByzRC(s OpID, round, pr int, pv string) (*specqbft.SignedMessage, error) {
	msg := w.base(specqbft.RoundChangeMsgType, round, "none")
	if pr == 0 {
		return w.sign(s, msg, nil), nil
	}
	js := w.prepareQuorumFor(pr, pv)
	if js == nil {
		return nil, fmt.Errorf("no prepare quorum can be assembled for (%d,%s)", pr, pv)
	}
	msg.Root = Root(pv)
	msg.DataRound = specqbft.Round(pr)
	msg.RoundChangeJustification = marshalJ(js)
	return w.sign(s, msg, Value(pv)), nil
}

// ByzProposal builds a proposal from Byzantine s for (round, value) with the best justification the adversary
// can assemble from honest round-changes in the pool plus its own.
func (w *World) ByzProposal(s OpID, round int, value string) (*specqbft.SignedMessage, error) {
	msg := w.base(specqbft.ProposalMsgType, round, value)
	if round > 1 {
		type cand struct {
			m  *specqbft.SignedMessage
			pr int
		}
		var unprepared, prepared []cand
		for i := 1; i <= w.N; i++ {
			id := OpID(i)
			if w.Byz[id] {
				rc, _ := w.ByzRC(id, round, 0, "none")
				unprepared = append(unprepared, cand{rc, 0})
				continue
			}
			for _, e := range w.Pool {
				m := e.Msg.Message
				if e.From != id || m.MsgType != specqbft.RoundChangeMsgType || int(m.Round) != round || len(e.Msg.Signers) != 1 {
					continue
				}
				if m.DataRound == 0 {
					unprepared = append(unprepared, cand{e.Msg, 0})
				} else if m.Root == Root(value) {
					prepared = append(prepared, cand{e.Msg, int(m.DataRound)})
				}
				break
			}
		}
		var rcs []*specqbft.SignedMessage
		for _, c := range unprepared {
			rcs = append(rcs, c.m)
		}
		if len(rcs) < w.Quorum() {
			// need prepared round-changes for this value too
			sort.Slice(prepared, func(a, b int) bool { return prepared[a].pr > prepared[b].pr })
			for _, c := range prepared {
				rcs = append(rcs, c.m)
			}
			if len(rcs) < w.Quorum() {
				// last resort of the adversary: replay honest round-changes of OTHER rounds (a correct receiver
				// refuses them: "wrong msg round")
				seen := map[OpID]bool{}
				for _, m := range rcs {
					seen[m.Signers[0]] = true
				}
				for _, e := range w.Pool {
					m := e.Msg.Message
					if m.MsgType == specqbft.RoundChangeMsgType && len(e.Msg.Signers) == 1 && !seen[e.From] &&
						int(m.Round) != round && m.DataRound == 0 {
						rcs = append(rcs, e.Msg)
						seen[e.From] = true
					}
				}
			}
			if len(rcs) < w.Quorum() {
				return nil, fmt.Errorf("adversary cannot justify a proposal for (%d,%s)", round, value)
			}
			if len(prepared) > 0 {
				js := w.prepareQuorumFor(prepared[0].pr, value)
				if js == nil {
					return nil, fmt.Errorf("no prepare quorum for the highest prepared round %d", prepared[0].pr)
				}
				msg.PrepareJustification = marshalJ(js)
			}
		}
		msg.RoundChangeJustification = marshalJ(rcs)
	}
	return w.sign(s, msg, Value(value)), nil
}

// Cert builds an aggregated commit for (round, value) signed by `signers`: honest members contribute the commit
// they really broadcast (nil if one of them did not), Byzantine members sign on the spot.
func (w *World) Cert(signers []OpID, round int, value string) *specqbft.SignedMessage {
	sort.Slice(signers, func(a, b int) bool { return signers[a] < signers[b] })
	var agg *specqbft.SignedMessage
	for _, s := range signers {
		var m *specqbft.SignedMessage
		if w.Byz[s] {
			m = w.ByzCommit(s, round, value)
		} else if m = w.FindSimple(specqbft.CommitMsgType, s, round, value); m == nil {
			return nil
		}
		if agg == nil {
			agg = clone(m)
		} else if err := agg.Aggregate(clone(m)); err != nil {
			panic(err)
		}
	}
	agg.FullData = Value(value)
	sort.Slice(agg.Signers, func(a, b int) bool { return agg.Signers[a] < agg.Signers[b] })
	return agg
}

// ForgedCert builds the forged certificate kinds of the spec (QBFT!ForgeKinds), all carried by Byzantine keys.
func (w *World) ForgedCert(kind string, round int, value string) *specqbft.SignedMessage {
	var byz []OpID
	for b := range w.Byz {
		byz = append(byz, b)
	}
	sort.Slice(byz, func(a, b int) bool { return byz[a] < byz[b] })
	b0 := byz[0]
	sk := w.KS.Shares[b0]
	msg := w.base(specqbft.CommitMsgType, round, value)
	multi := func(ids []OpID, sks []*bls.SecretKey) *specqbft.SignedMessage {
		sm := w.multiSign(sks, ids, msg)
		sm.FullData = Value(value)
		return sm
	}
	q := w.Quorum()
	switch kind {
	case "subQuorum":
		// a multi-signer commit below quorum size: the adversary plus one honest member whose genuine commit it
		// holds (a correctly aggregated two-signer message); without such a commit, two ids and a bad aggregate.
		// (A single-signer commit of the adversary is an ordinary commit, not a forged certificate.)
		for i := 1; i <= w.N; i++ {
			h := OpID(i)
			if w.Byz[h] {
				continue
			}
			if hc := w.FindSimple(specqbft.CommitMsgType, h, round, value); hc != nil {
				agg := clone(hc)
				if err := agg.Aggregate(w.ByzCommit(b0, round, value)); err == nil {
					sort.Slice(agg.Signers, func(a, b int) bool { return agg.Signers[a] < agg.Signers[b] })
					agg.FullData = Value(value)
					return agg
				}
			}
		}
		other := OpID(1)
		if other == b0 {
			other = 2
		}
		ids := []OpID{other, b0}
		sort.Slice(ids, func(a, b int) bool { return ids[a] < ids[b] })
		return multi(ids, []*bls.SecretKey{sk, sk})
	case "dupSigner": // the Byzantine signer repeated to reach quorum size
		ids, sks := []OpID{}, []*bls.SecretKey{}
		for k := 0; k < q; k++ {
			ids, sks = append(ids, b0), append(sks, sk)
		}
		return multi(ids, sks)
	case "zeroSigner":
		ids, sks := []OpID{0}, []*bls.SecretKey{sk}
		for k := 1; k < q; k++ {
			ids, sks = append(ids, OpID(k)), append(sks, sk)
		}
		return multi(ids, sks)
	case "foreignSigner": // ids outside the committee, signed with the adversary's key
		ids, sks := []OpID{}, []*bls.SecretKey{}
		for k := 0; k < q; k++ {
			ids, sks = append(ids, OpID(w.N+1+k)), append(sks, sk)
		}
		return multi(ids, sks)
	case "badAggregate": // honest ids listed, but the aggregate is made of the adversary's signatures only
		ids, sks := []OpID{}, []*bls.SecretKey{}
		for k := 1; len(ids) < q; k++ {
			ids, sks = append(ids, OpID(k)), append(sks, sk)
		}
		return multi(ids, sks)
	case "valueNotRoot": // a genuine-looking quorum over root(value) carrying different full data
		sm := w.anyQuorumCert(round, value)
		if sm == nil {
			// no genuine quorum exists yet: honest ids with the adversary's aggregate (quorum-sized, so it is a
			// decided message; a SINGLE-signer message here would be an ordinary commit of the adversary, which may
			// legitimately enter the commit container - that was a false alarm of the first thorough run)
			ids, sks := []OpID{}, []*bls.SecretKey{}
			for k := 1; len(ids) < q; k++ {
				ids, sks = append(ids, OpID(k)), append(sks, sk)
			}
			sm = multi(ids, sks)
		}
		sm.FullData = Value(value + "-other")
		return sm
	case "wrongIdentifier":
		other := append([]byte{}, w.ID...)
		other[len(other)-1] ^= 0xff
		msg.Identifier = other
		ids, sks := []OpID{}, []*bls.SecretKey{}
		for k := 1; len(ids) < q; k++ {
			ids, sks = append(ids, OpID(k)), append(sks, w.KS.Shares[OpID(k)])
		}
		return multi(ids, sks) // even signed by everybody, it is not for this controller
	case "notCommitType":
		msg.MsgType = specqbft.PrepareMsgType
		ids, sks := []OpID{}, []*bls.SecretKey{}
		for k := 1; len(ids) < q; k++ {
			ids, sks = append(ids, OpID(k)), append(sks, w.KS.Shares[OpID(k)])
		}
		return multi(ids, sks)
	}
	panic("unknown forge kind " + kind)
}

// multiSign aggregates the signatures of sks over msg and lists ids as signers, without any sanity check
// (the spec helper refuses duplicate signers; the adversary does not).
func (w *World) multiSign(sks []*bls.SecretKey, ids []OpID, msg *specqbft.Message) *specqbft.SignedMessage {
	root, err := spectypes.ComputeSigningRoot(msg, spectypes.ComputeSignatureDomain(Domain, spectypes.QBFTSignatureType))
	if err != nil {
		panic(err)
	}
	var agg *bls.Sign
	for _, sk := range sks {
		sig := sk.SignByte(root[:])
		if agg == nil {
			agg = sig
		} else {
			agg.Add(sig)
		}
	}
	return &specqbft.SignedMessage{Signature: agg.Serialize(), Signers: append([]OpID{}, ids...), Message: *msg}
}

// anyQuorumCert returns a valid certificate for (round,value) if the honest commits in the pool plus the
// adversary reach a quorum.
func (w *World) anyQuorumCert(round int, value string) *specqbft.SignedMessage {
	var ids []OpID
	for i := 1; i <= w.N; i++ {
		id := OpID(i)
		if w.Byz[id] || w.FindSimple(specqbft.CommitMsgType, id, round, value) != nil {
			ids = append(ids, id)
		}
	}
	if len(ids) < w.Quorum() {
		return nil
	}
	return w.Cert(ids, round, value)
}

// ---- projection of the real state onto the spec's node record ---------------------------------------------

type Node struct {
	Started  bool     `json:"started"`
	Round    int      `json:"round"`
	AccRound int      `json:"accRound"`
	AccValue string   `json:"accValue"`
	Lpr      int      `json:"lpr"`
	Lpv      string   `json:"lpv"`
	Decided  bool     `json:"decided"`
	Dval     string   `json:"dval"`
	Prep     []string `json:"prep"` // "signer@round=value" restricted like QBFT!Norm
	Comm     []string `json:"comm"`
	RC       []string `json:"rc"` // "signer@round:pr=pv"
}

func (w *World) Project(i OpID) Node {
	inst := w.Instance(i)
	if inst == nil {
		return Node{Round: 1, AccValue: "none", Lpv: "none", Dval: "none"}
	}
	s := inst.State
	n := Node{Started: true, Round: int(s.Round), AccValue: "none", Lpr: int(s.LastPreparedRound),
		Lpv: ValueName(s.LastPreparedValue), Decided: s.Decided, Dval: ValueName(s.DecidedValue)}
	if !s.Decided {
		n.Dval = "none"
	}
	if p := s.ProposalAcceptedForCurrentRound; p != nil {
		n.AccRound, n.AccValue = int(p.Message.Round), ValueName(p.FullData)
	}
	names := w.rootNames()
	for r, msgs := range s.PrepareContainer.Msgs {
		if int(r) != n.Round && int(r) != n.Lpr {
			continue
		}
		for _, m := range msgs {
			n.Prep = append(n.Prep, fmt.Sprintf("%d@%d=%s", m.Signers[0], r, names[m.Message.Root]))
		}
	}
	for r, msgs := range s.CommitContainer.Msgs {
		if int(r) != n.Round {
			continue
		}
		for _, m := range msgs {
			for _, sg := range m.Signers {
				n.Comm = append(n.Comm, fmt.Sprintf("%d@%d=%s", sg, r, names[m.Message.Root]))
			}
		}
	}
	for r, msgs := range s.RoundChangeContainer.Msgs {
		if int(r) < n.Round {
			continue
		}
		for _, m := range msgs {
			pv := "none"
			if m.Message.DataRound != 0 {
				pv = names[m.Message.Root]
			}
			n.RC = append(n.RC, fmt.Sprintf("%d@%d:%d=%s", m.Signers[0], r, m.Message.DataRound, pv))
		}
	}
	sort.Strings(n.Prep)
	n.Comm = uniq(n.Comm)
	sort.Strings(n.RC)
	return n
}

func uniq(xs []string) []string {
	sort.Strings(xs)
	var out []string
	for i, x := range xs {
		if i == 0 || xs[i-1] != x {
			out = append(out, x)
		}
	}
	return out
}

func (w *World) rootNames() map[[32]byte]string {
	m := map[[32]byte]string{}
	for _, v := range []string{"a", "b", "c", "bad", "a-other", "b-other"} {
		m[Root(v)] = v
	}
	return m
}

// VerifyCert independently re-verifies a decided message: >= quorum distinct non-zero committee members, the
// aggregate BLS signature verifies under exactly those members' share keys, full data hashes to the root.
// Returns "" if fine, else what is wrong.
func (w *World) VerifyCert(m *specqbft.SignedMessage) string {
	if m == nil {
		return "nil certificate"
	}
	if m.Message.MsgType != specqbft.CommitMsgType {
		return "not a commit"
	}
	if m.Message.Height != w.Height || !bytes.Equal(m.Message.Identifier, w.ID) {
		return "wrong height or identifier"
	}
	seen := map[OpID]bool{}
	var pks []bls.PublicKey
	for _, s := range m.Signers {
		if s == 0 || int(s) > w.N {
			return fmt.Sprintf("signer %d is not a committee member", s)
		}
		if seen[s] {
			return fmt.Sprintf("signer %d repeated", s)
		}
		seen[s] = true
		pks = append(pks, *w.KS.Shares[s].GetPublicKey())
	}
	if len(seen) < w.Quorum() {
		return fmt.Sprintf("%d signers < quorum %d", len(seen), w.Quorum())
	}
	r, err := specqbft.HashDataRoot(m.FullData)
	if err != nil || r != m.Message.Root {
		return "full data does not hash to the root"
	}
	root, err := spectypes.ComputeSigningRoot(&m.Message, spectypes.ComputeSignatureDomain(Domain, spectypes.QBFTSignatureType))
	if err != nil {
		return "cannot compute signing root"
	}
	sig := &bls.Sign{}
	if err := sig.Deserialize(m.Signature); err != nil {
		return "signature does not deserialize"
	}
	if !sig.FastAggregateVerify(pks, root[:]) {
		return "aggregate signature does not verify under the listed signers"
	}
	return ""
}
