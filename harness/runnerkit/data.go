package runnerkit

import (
	"crypto/sha256"
	"encoding/binary"
	"fmt"
	"sync"

	v1 "github.com/attestantio/go-eth2-client/api/v1"
	apiv1capella "github.com/attestantio/go-eth2-client/api/v1/capella"
	"github.com/attestantio/go-eth2-client/spec"
	"github.com/attestantio/go-eth2-client/spec/altair"
	"github.com/attestantio/go-eth2-client/spec/bellatrix"
	"github.com/attestantio/go-eth2-client/spec/capella"
	"github.com/attestantio/go-eth2-client/spec/phase0"
	specqbft "github.com/bloxapp/ssv-spec/qbft"
	spectypes "github.com/bloxapp/ssv-spec/types"
	tu "github.com/bloxapp/ssv-spec/types/testingutils"
	ssz "github.com/ferranbt/fastssz"
	"github.com/herumi/bls-eth-go-binary/bls"
)

// ---------------------------------------------------------------------------------------------------
// duties and consensus data (the harness's own construction; the runner gets the same data from the
// testing beacon node, but nothing below depends on what the runner does)

func pubKey(ks *tu.TestKeySet) phase0.BLSPubKey {
	pk := phase0.BLSPubKey{}
	copy(pk[:], ks.ValidatorPK.Serialize())
	return pk
}

// DutyFor builds the duty of a role for a slot.
func (k *Kit) DutyFor(role string, slot phase0.Slot) *spectypes.Duty {
	d := &spectypes.Duty{Type: BeaconRole(role), PubKey: pubKey(k.KS), Slot: slot, ValidatorIndex: tu.TestingValidatorIndex}
	switch role {
	case Attester:
		d.CommitteeIndex, d.CommitteesAtSlot, d.CommitteeLength, d.ValidatorCommitteeIndex = 3, 36, 128, 11
	case Aggregator:
		d.CommitteeIndex, d.CommitteesAtSlot, d.CommitteeLength, d.ValidatorCommitteeIndex = 22, 36, 128, 11
	case SyncCommittee, Contribution:
		d.CommitteeIndex, d.CommitteesAtSlot, d.CommitteeLength, d.ValidatorCommitteeIndex = 3, 36, 128, 11
		idx := []uint64{}
		for i := 0; i < k.Opt.NContrib; i++ {
			idx = append(idx, uint64(i))
		}
		d.ValidatorSyncCommitteeIndices = idx
	}
	return d
}

// ContributionsFor: what the (spied) beacon node returns for a contribution duty with n subnets.
func ContributionsFor(slot phase0.Slot, n int) spectypes.Contributions {
	d := spectypes.Contributions{}
	for i := 0; i < n; i++ {
		c := *tu.TestingSyncCommitteeContributions[i]
		c.Slot = slot
		d = append(d, &spectypes.Contribution{SelectionProofSig: tu.TestingContributionProofsSigned[i], Contribution: c})
	}
	return d
}

// RegistrationFor rebuilds the validator registration object of a duty slot.
func RegistrationFor(pk phase0.BLSPubKey, fee bellatrix.ExecutionAddress, slot phase0.Slot) *v1.ValidatorRegistration {
	epoch := spectypes.BeaconTestNetwork.EstimatedEpochAtSlot(slot)
	return &v1.ValidatorRegistration{FeeRecipient: fee, GasLimit: spectypes.DefaultGasLimit, Timestamp: spectypes.BeaconTestNetwork.EpochStartTime(epoch), Pubkey: pk}
}

// BeaconData: the duty data of (role, slot) as SSZ bytes + version. alt = FALSE: what the (spied) beacon node hands to
// the runner; alt = TRUE: other data that also passes the role's value check. The data depends on the slot so that
// objects of different duties are different objects.
func (k *Kit) BeaconData(role string, slot phase0.Slot, alt bool) (ssz.Marshaler, spec.DataVersion) {
	altRoot := phase0.Root{9, 9, 9, byte(slot)}
	switch role {
	case Attester:
		data := *tu.TestingAttestationData
		data.Slot = slot
		if alt {
			data.BeaconBlockRoot = altRoot
		}
		return &data, spec.DataVersionPhase0
	case Aggregator:
		b, _ := tu.TestingAggregateAndProof.MarshalSSZ()
		ap := &phase0.AggregateAndProof{}
		if err := ap.UnmarshalSSZ(b); err != nil {
			panic(err)
		}
		ap.Aggregate.Data.Slot = slot
		if alt {
			ap.Aggregate.Data.BeaconBlockRoot = altRoot
		}
		return ap, spec.DataVersionPhase0
	case Proposer:
		blk := &capella.BeaconBlock{}
		if err := blk.UnmarshalSSZ(tu.TestingBeaconBlockBytesV(spec.DataVersionCapella)); err != nil {
			panic(err)
		}
		blk.Slot = slot
		if alt {
			blk.StateRoot = altRoot
		}
		return blk, spec.DataVersionCapella
	case ProposerBlinded:
		blk := &apiv1capella.BlindedBeaconBlock{}
		if err := blk.UnmarshalSSZ(tu.TestingBlindedBeaconBlockBytesV(spec.DataVersionCapella)); err != nil {
			panic(err)
		}
		blk.Slot = slot
		if alt {
			blk.StateRoot = altRoot
		}
		return blk, spec.DataVersionCapella
	case SyncCommittee:
		return nil, spec.DataVersionPhase0 // a bare root, see SyncRoot
	case Contribution:
		cs := ContributionsFor(slot, k.Opt.NContrib)
		if alt {
			for _, c := range cs {
				c.Contribution.BeaconBlockRoot = altRoot
			}
		}
		return &cs, spec.DataVersionBellatrix
	}
	panic("no beacon data for role " + role)
}

// SyncRoot: the beacon block root of a sync-committee duty.
func SyncRoot(slot phase0.Slot, alt bool) phase0.Root {
	r := tu.TestingSyncCommitteeBlockRoot
	r[31] = byte(slot)
	if alt {
		r = phase0.Root{9, 9, 9, byte(slot)}
	}
	return r
}

// ConsensusDataFor builds consensus data for a role and slot.
//
//	variant "valid"   : the value the runner itself proposes (duty + data of the spied beacon node)
//	        "alt"     : another value that passes the role's value check (different beacon data)
//	        "invalid" : a value that fails the value check (wrong validator index in the duty)
func (k *Kit) ConsensusDataFor(role string, slot phase0.Slot, variant string) *spectypes.ConsensusData {
	cd := &spectypes.ConsensusData{Duty: *k.DutyFor(role, slot)}
	obj, ver := k.BeaconData(role, slot, variant == "alt")
	cd.Version = ver
	if role == SyncCommittee {
		r := SyncRoot(slot, variant == "alt")
		cd.DataSSZ = append([]byte{}, r[:]...)
	} else {
		b, err := obj.MarshalSSZ()
		if err != nil {
			panic(err)
		}
		cd.DataSSZ = b
	}
	if variant == "invalid" {
		cd.Duty.ValidatorIndex = tu.TestingValidatorIndex + 7
	}
	return cd
}

// ObjRef is one object the validator key may sign / that may be submitted, computed by the harness.
type ObjRef struct {
	Obj         ssz.HashRoot
	ObjRoot     [32]byte
	DomainType  phase0.DomainType
	SigningRoot [32]byte
	Slot        phase0.Slot // slot whose epoch fixes the domain
}

func (k *Kit) ref(obj ssz.HashRoot, dt phase0.DomainType, slot phase0.Slot) ObjRef {
	or, err := obj.HashTreeRoot()
	if err != nil {
		panic(err)
	}
	dom, err := k.BN.TestingBeaconNode.DomainData(spectypes.BeaconTestNetwork.EstimatedEpochAtSlot(slot), dt)
	if err != nil {
		panic(err)
	}
	sr, err := spectypes.ComputeETHSigningRoot(obj, dom)
	if err != nil {
		panic(err)
	}
	return ObjRef{Obj: obj, ObjRoot: or, DomainType: dt, SigningRoot: sr, Slot: slot}
}

// DecidedObjects: the duty objects contained in a decided value (in the order of the honest post-consensus message).
func (k *Kit) DecidedObjects(role string, cd *spectypes.ConsensusData) []ObjRef {
	slot := cd.Duty.Slot
	switch role {
	case Attester:
		d, err := cd.GetAttestationData()
		if err != nil {
			panic(err)
		}
		return []ObjRef{k.ref(d, spectypes.DomainAttester, slot)}
	case Aggregator:
		d, err := cd.GetAggregateAndProof()
		if err != nil {
			panic(err)
		}
		return []ObjRef{k.ref(d, spectypes.DomainAggregateAndProof, slot)}
	case Proposer:
		_, r, err := cd.GetBlockData()
		if err != nil {
			panic(err)
		}
		return []ObjRef{k.ref(r, spectypes.DomainProposer, slot)}
	case ProposerBlinded:
		_, r, err := cd.GetBlindedBlockData()
		if err != nil {
			panic(err)
		}
		return []ObjRef{k.ref(r, spectypes.DomainProposer, slot)}
	case SyncCommittee:
		r, err := cd.GetSyncCommitteeBlockRoot()
		if err != nil {
			panic(err)
		}
		return []ObjRef{k.ref(spectypes.SSZBytes(r[:]), spectypes.DomainSyncCommittee, slot)}
	case Contribution:
		cs, err := cd.GetSyncCommitteeContributions()
		if err != nil {
			panic(err)
		}
		out := []ObjRef{}
		for _, c := range cs {
			cc := c.Contribution
			cp := &altair.ContributionAndProof{AggregatorIndex: cd.Duty.ValidatorIndex, Contribution: &cc, SelectionProof: c.SelectionProofSig}
			out = append(out, k.ref(cp, spectypes.DomainContributionAndProof, slot))
		}
		return out
	}
	panic("no decided objects for role " + role)
}

// PreObjects: the slot-bound proofs / objects signed when a duty of that role starts.
func (k *Kit) PreObjects(role string, duty *spectypes.Duty) []ObjRef {
	slot := duty.Slot
	epoch := spectypes.BeaconTestNetwork.EstimatedEpochAtSlot(slot)
	switch role {
	case Attester, SyncCommittee:
		return nil
	case Proposer, ProposerBlinded:
		return []ObjRef{k.ref(spectypes.SSZUint64(epoch), spectypes.DomainRandao, slot)}
	case Aggregator:
		return []ObjRef{k.ref(spectypes.SSZUint64(slot), spectypes.DomainSelectionProof, slot)}
	case Contribution:
		out := []ObjRef{}
		for _, idx := range duty.ValidatorSyncCommitteeIndices {
			out = append(out, k.ref(&altair.SyncAggregatorSelectionData{Slot: slot, SubcommitteeIndex: idx}, spectypes.DomainSyncCommitteeSelectionProof, slot))
		}
		return out
	case Exit:
		return []ObjRef{k.ref(&phase0.VoluntaryExit{Epoch: epoch, ValidatorIndex: duty.ValidatorIndex}, spectypes.DomainVoluntaryExit, slot)}
	case Registration:
		return []ObjRef{k.ref(RegistrationFor(pubKey(k.KS), k.Share.FeeRecipientAddress, slot), spectypes.DomainApplicationBuilder, slot)}
	}
	panic("unknown role " + role)
}

// PreType: the partial-signature message type of the pre-consensus phase of a role.
func PreType(role string) spectypes.PartialSigMsgType {
	switch role {
	case Proposer, ProposerBlinded:
		return spectypes.RandaoPartialSig
	case Aggregator:
		return spectypes.SelectionProofPartialSig
	case Contribution:
		return spectypes.ContributionProofs
	case Exit:
		return spectypes.VoluntaryExitPartialSig
	case Registration:
		return spectypes.ValidatorRegistrationPartialSig
	}
	return spectypes.PostConsensusPartialSig
}

// ---------------------------------------------------------------------------------------------------
// share signatures

type sigKey struct {
	n      int
	signer spectypes.OperatorID
	root   [32]byte
}

var (
	sigMu    sync.Mutex
	sigCache = map[sigKey][]byte{}
)

// GoodSig: the correct share signature of a committee member over a signing root (cached).
func (k *Kit) GoodSig(signer spectypes.OperatorID, root [32]byte) []byte {
	key := sigKey{k.Opt.N, signer, root}
	sigMu.Lock()
	defer sigMu.Unlock()
	if s, ok := sigCache[key]; ok {
		return s
	}
	sk := k.KS.Shares[signer]
	if sk == nil {
		panic(fmt.Sprintf("no share for signer %d", signer))
	}
	s := sk.SignByte(root[:]).Serialize()
	sigCache[key] = s
	return s
}

// BadSig: a partial signature that does not verify for (signer, root).
//
//	flavour 0: a well-formed signature of the signer's own share over another message
//	flavour 1: a well-formed signature over the right root by a key that is nobody's share
//	flavour 2: 96 bytes that are not a curve point
func (k *Kit) BadSig(signer spectypes.OperatorID, root [32]byte, flavour int) []byte {
	switch flavour % 3 {
	case 0:
		other := sha256.Sum256(append([]byte("another message"), root[:]...))
		return k.GoodSig(signer, other)
	case 1:
		return strangerKey().SignByte(root[:]).Serialize()
	default:
		out := make([]byte, 96)
		h := sha256.Sum256(append([]byte{byte(signer)}, root[:]...))
		for i := range out {
			out[i] = h[i%32] | 1
		}
		out[0] = 0xff // compressed-point flags that cannot be valid together with a non-zero body
		return out
	}
}

var (
	strangerOnce sync.Once
	stranger     *bls.SecretKey
)

func strangerKey() *bls.SecretKey {
	strangerOnce.Do(func() {
		stranger = &bls.SecretKey{}
		if err := stranger.SetHexString("1f3a8c5d9e2b47a6c1d0e9f8a7b6c5d4e3f2a1b0c9d8e7f6a5b4c3d2e1f0a9b8"); err != nil {
			panic(err)
		}
	})
	return stranger
}

// ---------------------------------------------------------------------------------------------------
// messages

// PartialSigMsg builds the SSV message of one SignedPartialSignatureMessage (roots and sigs in message order).
// msgSigner signs the envelope (the runner does not verify it; message validation does).
func (k *Kit) PartialSigMsg(msgRole spectypes.BeaconRole, t spectypes.PartialSigMsgType, slot phase0.Slot, signer spectypes.OperatorID,
	roots [][32]byte, sigs [][]byte) *spectypes.SSVMessage {
	msgs := spectypes.PartialSignatureMessages{Type: t, Slot: slot}
	for i := range roots {
		msgs.Messages = append(msgs.Messages, &spectypes.PartialSignatureMessage{PartialSignature: sigs[i], SigningRoot: roots[i], Signer: signer})
	}
	sk := k.KS.Shares[signer]
	if sk == nil {
		sk = strangerKey()
	}
	r, err := spectypes.ComputeSigningRoot(msgs, spectypes.ComputeSignatureDomain(k.Share.DomainType, spectypes.PartialSignatureType))
	if err != nil {
		panic(err)
	}
	signed := &spectypes.SignedPartialSignatureMessage{Message: msgs, Signature: sk.SignByte(r[:]).Serialize(), Signer: signer}
	data, err := signed.Encode()
	if err != nil {
		panic(err)
	}
	return &spectypes.SSVMessage{MsgType: spectypes.SSVPartialSignatureMsgType, MsgID: k.MsgID(msgRole), Data: data}
}

// GoodPartialSigMsg: the message a correct member sends for the given objects.
func (k *Kit) GoodPartialSigMsg(br spectypes.BeaconRole, t spectypes.PartialSigMsgType, slot phase0.Slot, signer spectypes.OperatorID, objs []ObjRef) *spectypes.SSVMessage {
	roots := make([][32]byte, len(objs))
	sigs := make([][]byte, len(objs))
	for i, o := range objs {
		roots[i] = o.SigningRoot
		sigs[i] = k.GoodSig(signer, o.SigningRoot)
	}
	return k.PartialSigMsg(br, t, slot, signer, roots, sigs)
}

func (k *Kit) qbftSSV(br spectypes.BeaconRole, m *specqbft.SignedMessage) *spectypes.SSVMessage {
	data, err := m.Encode()
	if err != nil {
		panic(err)
	}
	return &spectypes.SSVMessage{MsgType: spectypes.SSVConsensusMsgType, MsgID: k.MsgID(br), Data: data}
}

func cdRoot(cd *spectypes.ConsensusData) ([32]byte, []byte) {
	byts, err := cd.Encode()
	if err != nil {
		panic(err)
	}
	r, err := specqbft.HashDataRoot(byts)
	if err != nil {
		panic(err)
	}
	return r, byts
}

// DecidingMsgs: proposal by operator 1, quorum prepares, quorum commits for (identifier of role idRole, height) —
// the genuine message sequence that makes a real instance decide cd. The SSV envelope carries the id of envRole.
func (k *Kit) DecidingMsgs(envRole, idRole spectypes.BeaconRole, cd *spectypes.ConsensusData, height specqbft.Height) []*spectypes.SSVMessage {
	id := k.MsgID(idRole)
	out := []*spectypes.SSVMessage{}
	for _, m := range tu.SSVDecidingMsgsForHeight(cd, id[:], height, k.KS) {
		out = append(out, k.qbftSSV(envRole, m))
	}
	return out
}

// DecidedMsg: an aggregated commit of the first `signers` operators (a decided message) for cd at height.
func (k *Kit) DecidedMsg(envRole, idRole spectypes.BeaconRole, cd *spectypes.ConsensusData, height specqbft.Height, signers int) *spectypes.SSVMessage {
	ids := []spectypes.OperatorID{}
	for i := 1; i <= signers; i++ {
		ids = append(ids, spectypes.OperatorID(i))
	}
	return k.DecidedMsgBy(envRole, idRole, cd, height, ids)
}

// DecidedMsgBy: a decided message aggregated from the commits of the given operators.
func (k *Kit) DecidedMsgBy(envRole, idRole spectypes.BeaconRole, cd *spectypes.ConsensusData, height specqbft.Height, ids []spectypes.OperatorID) *spectypes.SSVMessage {
	id := k.MsgID(idRole)
	root, full := cdRoot(cd)
	sks := []*bls.SecretKey{}
	for _, i := range ids {
		sks = append(sks, k.KS.Shares[i])
	}
	m := tu.MultiSignQBFTMsg(sks, ids, &specqbft.Message{MsgType: specqbft.CommitMsgType, Height: height, Round: specqbft.FirstRound, Identifier: id[:], Root: root})
	m.FullData = full
	return k.qbftSSV(envRole, m)
}

// QuorumIDs: the signer sets of decided messages: "q1" = operators 1..Q, "q2" = 2..Q+1, "all" = 1..N.
func (k *Kit) QuorumIDs(q string) []spectypes.OperatorID {
	lo, hi := 1, int(k.Share.Quorum)
	switch q {
	case "q2":
		lo, hi = 2, int(k.Share.Quorum)+1
	case "all":
		hi = k.Opt.N
	}
	ids := []spectypes.OperatorID{}
	for i := lo; i <= hi; i++ {
		ids = append(ids, spectypes.OperatorID(i))
	}
	return ids
}

// WrongRoot: a signing root nobody expects.
func WrongRoot(tag uint64) [32]byte {
	b := make([]byte, 8)
	binary.LittleEndian.PutUint64(b, tag)
	return sha256.Sum256(append([]byte("unexpected root"), b...))
}
