// Package runnerkit builds REAL duty runners of every role (protocol/v2/ssv/runner) around a real QBFT
// controller and a real validator.Validator, with spies on the three injected interfaces the properties
// C03 / C05 observe: the key manager (every SignBeaconObject / SignRoot), the beacon node (every Submit*
// call and the signature-carrying Get* calls) and the network (every broadcast).
// The constructors mirror /repo/protocol/v2/ssv/testing/runner.go; the only difference is the spies.
package runnerkit

import (
	"context"
	"fmt"
	"sync"

	"github.com/attestantio/go-eth2-client/api"
	"github.com/attestantio/go-eth2-client/spec"
	"github.com/attestantio/go-eth2-client/spec/altair"
	"github.com/attestantio/go-eth2-client/spec/bellatrix"
	"github.com/attestantio/go-eth2-client/spec/phase0"
	specqbft "github.com/bloxapp/ssv-spec/qbft"
	specssv "github.com/bloxapp/ssv-spec/ssv"
	spectypes "github.com/bloxapp/ssv-spec/types"
	tu "github.com/bloxapp/ssv-spec/types/testingutils"
	ssz "github.com/ferranbt/fastssz"
	"go.uber.org/zap"

	"github.com/bloxapp/ssv/networkconfig"
	"github.com/bloxapp/ssv/protocol/v2/qbft/controller"
	qbfttesting "github.com/bloxapp/ssv/protocol/v2/qbft/testing"
	"github.com/bloxapp/ssv/protocol/v2/ssv/queue"
	"github.com/bloxapp/ssv/protocol/v2/ssv/runner"
	"github.com/bloxapp/ssv/protocol/v2/ssv/validator"
	ssvtypes "github.com/bloxapp/ssv/protocol/v2/types"
)

// ---------------------------------------------------------------------------------------------------
// key sets (generated once per process)

var (
	ksMu    sync.Mutex
	ksCache = map[int]*tu.TestKeySet{}
)

func KeySet(n int) *tu.TestKeySet {
	ksMu.Lock()
	defer ksMu.Unlock()
	if ks, ok := ksCache[n]; ok {
		return ks
	}
	var ks *tu.TestKeySet
	switch n {
	case 4:
		ks = tu.Testing4SharesSet()
	case 7:
		ks = tu.Testing7SharesSet()
	case 10:
		ks = tu.Testing10SharesSet()
	case 13:
		ks = tu.Testing13SharesSet()
	default:
		panic(fmt.Sprintf("no key set for %d operators", n))
	}
	ksCache[n] = ks
	return ks
}

// ---------------------------------------------------------------------------------------------------
// spies

// SignCall is one call of the key manager.
type SignCall struct {
	Seq        int
	Kind       string // "SignBeaconObject" | "SignRoot"
	ObjRoot    [32]byte
	Domain     phase0.Domain
	DomainType phase0.DomainType
	SigRoot    [32]byte // signing root returned by SignBeaconObject
	PK         []byte
	Err        error
	Phase      string // harness call during which the signature was made (set by the driver through Kit.Phase)
}

// KMSpy wraps the spec's testing key manager.
type KMSpy struct {
	spectypes.KeyManager
	kit   *Kit
	Calls []SignCall
}

func (k *KMSpy) SignBeaconObject(obj ssz.HashRoot, domain phase0.Domain, pk []byte, dt phase0.DomainType) (spectypes.Signature, [32]byte, error) {
	sig, r, err := k.KeyManager.SignBeaconObject(obj, domain, pk, dt)
	or, _ := obj.HashTreeRoot()
	k.kit.seq++
	k.Calls = append(k.Calls, SignCall{Seq: k.kit.seq, Kind: "SignBeaconObject", ObjRoot: or, Domain: domain, DomainType: dt, SigRoot: r,
		PK: append([]byte{}, pk...), Err: err, Phase: k.kit.Phase})
	return sig, r, err
}

func (k *KMSpy) SignRoot(data spectypes.Root, sigType spectypes.SignatureType, pk []byte) (spectypes.Signature, error) {
	sig, err := k.KeyManager.SignRoot(data, sigType, pk)
	r, _ := data.GetRoot()
	k.kit.seq++
	k.Calls = append(k.Calls, SignCall{Seq: k.kit.seq, Kind: "SignRoot", ObjRoot: r, PK: append([]byte{}, pk...), Err: err, Phase: k.kit.Phase})
	return sig, err
}

// SubmitCall is one Submit* call on the beacon node.
type SubmitCall struct {
	Seq        int
	Method     string
	Obj        ssz.HashRoot // the unsigned object that was submitted
	ObjRoot    [32]byte
	DomainType phase0.DomainType
	Sig        phase0.BLSSignature
	Note       string // argument mismatches found by the spy itself (e.g. registration pubkey)
	Phase      string
}

// BNSpy wraps the spec's testing beacon node: every Get*/Domain call is answered by it, every Submit* is recorded.
type BNSpy struct {
	*tu.TestingBeaconNode
	kit     *Kit
	Submits []SubmitCall
	// Randao / selection proofs handed to the beacon node when it is asked for duty data
	Proofs []SubmitCall
	// NContrib limits the contributions returned to the runner (the testing node always returns three)
	NContrib int
}

func (b *BNSpy) rec(method string, obj ssz.HashRoot, dt phase0.DomainType, sig phase0.BLSSignature, note string) {
	or, _ := obj.HashTreeRoot()
	b.kit.seq++
	b.Submits = append(b.Submits, SubmitCall{Seq: b.kit.seq, Method: method, Obj: obj, ObjRoot: or, DomainType: dt, Sig: sig, Note: note, Phase: b.kit.Phase})
}

func (b *BNSpy) SubmitAttestation(att *phase0.Attestation) error {
	b.rec("SubmitAttestation", att.Data, spectypes.DomainAttester, att.Signature, "")
	return b.TestingBeaconNode.SubmitAttestation(att)
}

func (b *BNSpy) SubmitBeaconBlock(block *api.VersionedProposal, sig phase0.BLSSignature) error {
	var obj ssz.HashRoot
	switch {
	case block.Capella != nil:
		obj = block.Capella
	case block.Deneb != nil && block.Deneb.Block != nil:
		obj = block.Deneb.Block
	default:
		obj = spectypes.SSZBytes("unknown block version")
	}
	b.rec("SubmitBeaconBlock", obj, spectypes.DomainProposer, sig, "")
	return b.TestingBeaconNode.SubmitBeaconBlock(block, sig)
}

func (b *BNSpy) SubmitBlindedBeaconBlock(block *api.VersionedBlindedProposal, sig phase0.BLSSignature) error {
	var obj ssz.HashRoot
	switch {
	case block.Capella != nil:
		obj = block.Capella
	case block.Deneb != nil:
		obj = block.Deneb
	default:
		obj = spectypes.SSZBytes("unknown block version")
	}
	b.rec("SubmitBlindedBeaconBlock", obj, spectypes.DomainProposer, sig, "")
	return b.TestingBeaconNode.SubmitBlindedBeaconBlock(block, sig)
}

func (b *BNSpy) SubmitSignedAggregateSelectionProof(msg *phase0.SignedAggregateAndProof) error {
	b.rec("SubmitSignedAggregateSelectionProof", msg.Message, spectypes.DomainAggregateAndProof, msg.Signature, "")
	return b.TestingBeaconNode.SubmitSignedAggregateSelectionProof(msg)
}

func (b *BNSpy) SubmitSyncMessage(msg *altair.SyncCommitteeMessage) error {
	note := fmt.Sprintf("slot=%d validator=%d", msg.Slot, msg.ValidatorIndex)
	b.rec("SubmitSyncMessage", spectypes.SSZBytes(msg.BeaconBlockRoot[:]), spectypes.DomainSyncCommittee, msg.Signature, note)
	return b.TestingBeaconNode.SubmitSyncMessage(msg)
}

func (b *BNSpy) SubmitSignedContributionAndProof(c *altair.SignedContributionAndProof) error {
	b.rec("SubmitSignedContributionAndProof", c.Message, spectypes.DomainContributionAndProof, c.Signature, "")
	return b.TestingBeaconNode.SubmitSignedContributionAndProof(c)
}

func (b *BNSpy) SubmitVoluntaryExit(ve *phase0.SignedVoluntaryExit) error {
	b.rec("SubmitVoluntaryExit", ve.Message, spectypes.DomainVoluntaryExit, ve.Signature, "")
	return b.TestingBeaconNode.SubmitVoluntaryExit(ve)
}

func (b *BNSpy) SubmitValidatorRegistration(pubkey []byte, feeRecipient bellatrix.ExecutionAddress, sig phase0.BLSSignature) error {
	// the registration object itself is not an argument: the harness rebuilds it from the arguments and the duty (RegistrationFor)
	pk := phase0.BLSPubKey{}
	copy(pk[:], pubkey)
	obj := RegistrationFor(pk, feeRecipient, b.kit.RegistrationSlot)
	b.rec("SubmitValidatorRegistration", obj, spectypes.DomainApplicationBuilder, sig, "")
	return b.TestingBeaconNode.SubmitValidatorRegistration(pubkey, feeRecipient, sig)
}

// GetSyncCommitteeContribution: the testing node returns a fixed list of three contributions; the spy cuts it to
// the number of subnets asked for so that duties with 1..3 roots can be exercised.
func (b *BNSpy) GetSyncCommitteeContribution(slot phase0.Slot, selectionProofs []phase0.BLSSignature, subnetIDs []uint64) (ssz.Marshaler, spec.DataVersion, error) {
	for i, p := range selectionProofs {
		d := &altair.SyncAggregatorSelectionData{Slot: slot, SubcommitteeIndex: subnetIDs[i]}
		b.proof("GetSyncCommitteeContribution", d, spectypes.DomainSyncCommitteeSelectionProof, p)
	}
	c := ContributionsFor(slot, len(subnetIDs))
	return &c, spec.DataVersionBellatrix, nil
}

func (b *BNSpy) proof(method string, obj ssz.HashRoot, dt phase0.DomainType, sig phase0.BLSSignature) {
	or, _ := obj.HashTreeRoot()
	b.kit.seq++
	b.Proofs = append(b.Proofs, SubmitCall{Seq: b.kit.seq, Method: method, Obj: obj, ObjRoot: or, DomainType: dt, Sig: sig, Phase: b.kit.Phase})
}

// The duty data handed to the runner is the testing node's, made slot dependent (Kit.BeaconData).
func (b *BNSpy) GetAttestationData(slot phase0.Slot, committeeIndex phase0.CommitteeIndex) (ssz.Marshaler, spec.DataVersion, error) {
	d, v := b.kit.BeaconData(Attester, slot, false)
	return d, v, nil
}

func (b *BNSpy) GetBeaconBlock(slot phase0.Slot, graffiti, randao []byte) (ssz.Marshaler, spec.DataVersion, error) {
	b.proof("GetBeaconBlock", spectypes.SSZUint64(spectypes.BeaconTestNetwork.EstimatedEpochAtSlot(slot)), spectypes.DomainRandao, toSig(randao))
	d, v := b.kit.BeaconData(Proposer, slot, false)
	return d, v, nil
}

func (b *BNSpy) GetBlindedBeaconBlock(slot phase0.Slot, graffiti, randao []byte) (ssz.Marshaler, spec.DataVersion, error) {
	b.proof("GetBlindedBeaconBlock", spectypes.SSZUint64(spectypes.BeaconTestNetwork.EstimatedEpochAtSlot(slot)), spectypes.DomainRandao, toSig(randao))
	d, v := b.kit.BeaconData(ProposerBlinded, slot, false)
	return d, v, nil
}

func (b *BNSpy) SubmitAggregateSelectionProof(slot phase0.Slot, committeeIndex phase0.CommitteeIndex, committeeLength uint64, index phase0.ValidatorIndex, slotSig []byte) (ssz.Marshaler, spec.DataVersion, error) {
	b.proof("SubmitAggregateSelectionProof", spectypes.SSZUint64(slot), spectypes.DomainSelectionProof, toSig(slotSig))
	d, v := b.kit.BeaconData(Aggregator, slot, false)
	return d, v, nil
}

func (b *BNSpy) GetSyncMessageBlockRoot(slot phase0.Slot) (phase0.Root, spec.DataVersion, error) {
	return SyncRoot(slot, false), spec.DataVersionPhase0, nil
}

func toSig(b []byte) phase0.BLSSignature {
	s := phase0.BLSSignature{}
	copy(s[:], b)
	return s
}

// NetSpy records every broadcast (runner broadcasts and the controller's decided broadcasts).
type NetSpy struct {
	kit  *Kit
	Msgs []*spectypes.SSVMessage
}

func (n *NetSpy) Broadcast(m *spectypes.SSVMessage) error {
	n.kit.seq++
	n.Msgs = append(n.Msgs, m)
	return nil
}

// ---------------------------------------------------------------------------------------------------
// the kit

// Role names used by specs and drivers.
const (
	Attester        = "attester"
	Proposer        = "proposer"
	ProposerBlinded = "proposer_blinded"
	Aggregator      = "aggregator"
	SyncCommittee   = "sync_committee"
	Contribution    = "contribution"
	Exit            = "exit"
	Registration    = "registration"
)

var ConsensusRoles = []string{Attester, Proposer, ProposerBlinded, Aggregator, SyncCommittee, Contribution}
var AllRoles = []string{Attester, Proposer, ProposerBlinded, Aggregator, SyncCommittee, Contribution, Exit, Registration}

func BeaconRole(role string) spectypes.BeaconRole {
	switch role {
	case Attester:
		return spectypes.BNRoleAttester
	case Proposer, ProposerBlinded:
		return spectypes.BNRoleProposer
	case Aggregator:
		return spectypes.BNRoleAggregator
	case SyncCommittee:
		return spectypes.BNRoleSyncCommittee
	case Contribution:
		return spectypes.BNRoleSyncCommitteeContribution
	case Exit:
		return spectypes.BNRoleVoluntaryExit
	case Registration:
		return spectypes.BNRoleValidatorRegistration
	}
	panic("unknown role " + role)
}

// Options of a kit.
type Options struct {
	N        int  // committee size 4, 7, 10, 13
	Blinded  bool // the proposer runner produces blinded blocks
	NContrib int  // roots of a contribution duty (1..3); 0 = 3
}

// Kit is one operator (operator id 1) of one validator: seven real runners, a real validator around them, the spies.
type Kit struct {
	Opt     Options
	KS      *tu.TestKeySet
	Share   *spectypes.Share
	KM      *KMSpy
	BN      *BNSpy
	Net     *NetSpy
	Runners runner.DutyRunners
	V       *validator.Validator
	Log     *zap.Logger
	Phase   string // label attached to every spy record (the harness call in progress)
	// slot of the validator-registration duty in progress (the registration object depends on it)
	RegistrationSlot phase0.Slot
	seq              int
	cancel           context.CancelFunc
}

var nopLogger = zap.NewNop()

func ValidatorPK(ks *tu.TestKeySet) []byte { return ks.ValidatorPK.Serialize() }

// New builds a kit. Mirrors protocol/v2/ssv/testing.baseRunner / BaseValidator.
func New(opt Options) *Kit {
	if opt.NContrib == 0 {
		opt.NContrib = 3
	}
	ks := KeySet(opt.N)
	k := &Kit{Opt: opt, KS: ks, Log: nopLogger}
	k.Share = tu.TestingShare(ks)
	k.KM = &KMSpy{KeyManager: tu.NewTestingKeyManager(), kit: k}
	k.BN = &BNSpy{TestingBeaconNode: tu.NewTestingBeaconNode(), kit: k, NContrib: opt.NContrib}
	k.Net = &NetSpy{kit: k}
	vpk := ValidatorPK(ks)
	km := tu.NewTestingKeyManager()
	k.Runners = runner.DutyRunners{}
	for _, br := range []spectypes.BeaconRole{spectypes.BNRoleAttester, spectypes.BNRoleProposer, spectypes.BNRoleAggregator,
		spectypes.BNRoleSyncCommittee, spectypes.BNRoleSyncCommitteeContribution, spectypes.BNRoleValidatorRegistration, spectypes.BNRoleVoluntaryExit} {
		var valCheck specqbft.ProposedValueCheckF
		switch br {
		case spectypes.BNRoleAttester:
			valCheck = specssv.AttesterValueCheckF(km, spectypes.BeaconTestNetwork, vpk, tu.TestingValidatorIndex, nil)
		case spectypes.BNRoleProposer:
			valCheck = specssv.ProposerValueCheckF(km, spectypes.BeaconTestNetwork, vpk, tu.TestingValidatorIndex, nil)
		case spectypes.BNRoleAggregator:
			valCheck = specssv.AggregatorValueCheckF(km, spectypes.BeaconTestNetwork, vpk, tu.TestingValidatorIndex)
		case spectypes.BNRoleSyncCommittee:
			valCheck = specssv.SyncCommitteeValueCheckF(km, spectypes.BeaconTestNetwork, vpk, tu.TestingValidatorIndex)
		case spectypes.BNRoleSyncCommitteeContribution:
			valCheck = specssv.SyncCommitteeContributionValueCheckF(km, spectypes.BeaconTestNetwork, vpk, tu.TestingValidatorIndex)
		}
		k.Runners[br] = k.newRunner(br, valCheck)
	}
	if opt.Blinded {
		k.Runners[spectypes.BNRoleProposer].(*runner.ProposerRunner).ProducesBlindedBlocks = true
	}
	ctx, cancel := context.WithCancel(context.Background())
	k.cancel = cancel
	k.V = validator.NewValidator(ctx, cancel, validator.Options{
		Network:       k.Net,
		Beacon:        k.BN,
		BeaconNetwork: networkconfig.TestNetwork.Beacon,
		Storage:       qbfttesting.TestingStores(k.Log),
		SSVShare:      &ssvtypes.SSVShare{Share: *k.Share},
		Signer:        k.KM,
		DutyRunners:   k.Runners,
	})
	return k
}

func (k *Kit) Close() { k.cancel() }

func (k *Kit) MsgID(br spectypes.BeaconRole) spectypes.MessageID {
	return spectypes.NewMsgID(k.Share.DomainType, k.Share.ValidatorPubKey, br)
}

func (k *Kit) newRunner(br spectypes.BeaconRole, valCheck specqbft.ProposedValueCheckF) runner.Runner {
	identifier := k.MsgID(br)
	config := qbfttesting.TestingConfig(k.Log, k.KS, identifier.GetRoleType())
	config.ValueCheckF = valCheck
	config.ProposerF = func(state *specqbft.State, round specqbft.Round) spectypes.OperatorID { return 1 }
	config.Network = k.Net
	config.Signer = k.KM
	var contr *controller.Controller
	if br != spectypes.BNRoleVoluntaryExit {
		// the PRODUCTION constructor (operator/validator/controller.go): StoredInstances has capacity
		// InstanceContainerDefaultCapacity = 2, not the 1024 of the testing constructor
		contr = controller.NewController(identifier[:], k.Share, config, false)
	}
	switch br {
	case spectypes.BNRoleAttester:
		return runner.NewAttesterRunnner(spectypes.BeaconTestNetwork, k.Share, contr, k.BN, k.Net, k.KM, valCheck, 0)
	case spectypes.BNRoleAggregator:
		return runner.NewAggregatorRunner(spectypes.BeaconTestNetwork, k.Share, contr, k.BN, k.Net, k.KM, valCheck, 0)
	case spectypes.BNRoleProposer:
		return runner.NewProposerRunner(spectypes.BeaconTestNetwork, k.Share, contr, k.BN, k.Net, k.KM, valCheck, 0)
	case spectypes.BNRoleSyncCommittee:
		return runner.NewSyncCommitteeRunner(spectypes.BeaconTestNetwork, k.Share, contr, k.BN, k.Net, k.KM, valCheck, 0)
	case spectypes.BNRoleSyncCommitteeContribution:
		return runner.NewSyncCommitteeAggregatorRunner(spectypes.BeaconTestNetwork, k.Share, contr, k.BN, k.Net, k.KM, valCheck, 0)
	case spectypes.BNRoleValidatorRegistration:
		return runner.NewValidatorRegistrationRunner(spectypes.BeaconTestNetwork, k.Share, contr, k.BN, k.Net, k.KM)
	case spectypes.BNRoleVoluntaryExit:
		return runner.NewVoluntaryExitRunner(spectypes.BeaconTestNetwork, k.Share, k.BN, k.Net, k.KM)
	}
	panic("unknown role")
}

// Runner returns the real runner of a role name.
func (k *Kit) Runner(role string) runner.Runner { return k.Runners[BeaconRole(role)] }

// Deliver hands one SSV message to the real Validator.ProcessMessage (the queue is bypassed: this is the call the
// queue consumer makes). The message is re-decoded from its encoding, as it is when it comes from the network.
func (k *Kit) Deliver(phase string, m *spectypes.SSVMessage) error {
	enc, err := m.Encode()
	if err != nil {
		return fmt.Errorf("harness: encode: %w", err)
	}
	cp := &spectypes.SSVMessage{}
	if err := cp.Decode(enc); err != nil {
		return fmt.Errorf("harness: decode: %w", err)
	}
	dec, err := queue.DecodeSSVMessage(cp)
	if err != nil {
		return fmt.Errorf("undecodable: %w", err)
	}
	prev := k.Phase
	k.Phase = phase
	defer func() { k.Phase = prev }()
	return k.V.ProcessMessage(k.Log, dec)
}

// StartDuty calls the real Validator.StartDuty.
func (k *Kit) StartDuty(phase string, d *spectypes.Duty) error {
	prev := k.Phase
	k.Phase = phase
	defer func() { k.Phase = prev }()
	err := k.V.StartDuty(k.Log, d)
	if err == nil && d.Type == spectypes.BNRoleValidatorRegistration {
		k.RegistrationSlot = d.Slot
	}
	return err
}
