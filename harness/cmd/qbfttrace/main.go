// Recorder for the implementation -> specification direction of the QBFT family (C06, spec/QBFTInstanceTrace.tla).
//
// It runs, on the REAL node instance / controller (protocol/v2/qbft/instance, .../controller),
//   - the hand-written scenarios of the pinned reference test kit (github.com/bloxapp/ssv-spec/qbft/spectest,
//     spectest.AllTests) of the message-processing, timeout and controller kinds, wired exactly as the repository's
//     own protocol/v2/qbft/spectest does (pre-state through the JSON encoding of the reference instance, the node's
//     testing config, one ProcessMsg / StartNewInstance / UponRoundTimeout call per input), and
//   - seeded random executions of its own (qbftkit world, operator 1 against Byzantine builders and field mutants),
// and records one NDJSON event per public call at its return: action, the message's abstract fields, facts about the
// message computed with the reference library's exported predicates (never with the node's code), the call's result,
// the projected post-state (qbftkit's projection, values mapped to small ids) and the broadcasts since the previous
// event.  Every call is also made on the reference implementation (ssv-spec qbft.Instance / qbft.Controller) with
// byte-identical inputs; disagreements are listed in the result file ("refdiffs").
package main

import (
	"bytes"
	"encoding/hex"
	"encoding/json"
	"flag"
	"fmt"
	"math/rand"
	"os"
	"reflect"
	"sort"
	"strings"

	specqbft "github.com/bloxapp/ssv-spec/qbft"
	"github.com/bloxapp/ssv-spec/qbft/spectest"
	spectests "github.com/bloxapp/ssv-spec/qbft/spectest/tests"
	spectimeout "github.com/bloxapp/ssv-spec/qbft/spectest/tests/timeout"
	spectypes "github.com/bloxapp/ssv-spec/types"
	tu "github.com/bloxapp/ssv-spec/types/testingutils"
	"go.uber.org/zap"

	"github.com/bloxapp/ssv/protocol/v2/qbft"
	"github.com/bloxapp/ssv/protocol/v2/qbft/controller"
	"github.com/bloxapp/ssv/protocol/v2/qbft/instance"
	qbfttesting "github.com/bloxapp/ssv/protocol/v2/qbft/testing"
	ssvtypes "github.com/bloxapp/ssv/protocol/v2/types"

	kit "verif/harness/qbftkit"
	"verif/harness/vh"
)

const (
	maxModelRound = 16 // MaxRound of QBFTInstanceTrace*.cfg
	maxValues     = 8  // Values = v1..v8
	maxBad        = 3  // BadValues = x1..x3
)

var logger = zap.NewNop()

// ---------------------------------------------------------------------------------------------------------------
// value ids: full data / roots -> small ids.  The start value of a trace is always "v1" (StartValue of the cfg).
// ---------------------------------------------------------------------------------------------------------------

type valIDs struct {
	byRoot map[[32]byte]string
	data   map[[32]byte][]byte
	nv, nx int
	over   bool
	check  func([]byte) error
}

func newValIDs(check func([]byte) error) *valIDs {
	return &valIDs{byRoot: map[[32]byte]string{}, data: map[[32]byte][]byte{}, check: check}
}

func (v *valIDs) learn(data []byte) {
	r, err := specqbft.HashDataRoot(data)
	if err != nil {
		return
	}
	if _, ok := v.data[r]; !ok {
		v.data[r] = append([]byte{}, data...)
	}
}

func (v *valIDs) learnMsg(m *specqbft.SignedMessage) {
	if m != nil && m.FullData != nil {
		v.learn(m.FullData)
	}
}

// id of a root; the zero root is "none".  A root whose preimage is known is bad ("x..") iff the value check (the
// config's ValueCheckF - the same function on the node's and the reference's side) refuses the preimage.
func (v *valIDs) id(root [32]byte) string {
	if root == ([32]byte{}) {
		return "none"
	}
	if s, ok := v.byRoot[root]; ok {
		return s
	}
	bad := false
	if d, ok := v.data[root]; ok {
		bad = v.check(d) != nil
	}
	var s string
	if bad {
		v.nx++
		s = fmt.Sprintf("x%d", v.nx)
		if v.nx > maxBad {
			v.over = true
		}
	} else {
		v.nv++
		s = fmt.Sprintf("v%d", v.nv)
		if v.nv > maxValues {
			v.over = true
		}
	}
	v.byRoot[root] = s
	return s
}

func (v *valIDs) idOfData(data []byte) string {
	if data == nil {
		return "none"
	}
	r, err := specqbft.HashDataRoot(data)
	if err != nil {
		return "none"
	}
	v.learn(data)
	return v.id(r)
}

// ---------------------------------------------------------------------------------------------------------------
// abstraction of messages; every fact is computed with exported predicates of the REFERENCE library
// ---------------------------------------------------------------------------------------------------------------

type ctx struct {
	height    specqbft.Height
	committee []*spectypes.Operator
	ident     []byte
	ids       *valIDs
	overflow  bool // a field outside the model's range (round / signer id) was seen
}

type srv struct {
	Signer int    `json:"signer"`
	Round  int    `json:"round"`
	Value  string `json:"value"`
}

type prepAbs struct {
	Signer int    `json:"signer"`
	Round  int    `json:"round"`
	Value  string `json:"value"`
	OK     bool   `json:"ok"`
}

type rcAbs struct {
	Signer int    `json:"signer"`
	Round  int    `json:"round"`
	Pr     int    `json:"pr"`
	Pv     string `json:"pv"`
	JS     []int  `json:"js"`
	OK     bool   `json:"ok"`
}

type msgAbs struct {
	Type        string    `json:"type"`
	Round       int       `json:"round"`
	Signers     []int     `json:"signers"`
	Value       string    `json:"value"` // id of Message.Root
	Data        string    `json:"data"`  // id of H(FullData), "none" without full data
	DataMatches bool      `json:"data_matches"`
	HeightOK    bool      `json:"height_ok"`
	SigOK       bool      `json:"sig_ok"`
	StructOK    bool      `json:"struct_ok"`
	IDOK        bool      `json:"id_ok"`
	Pr          int       `json:"pr"`
	JS          []int     `json:"js"`
	JSOK        bool      `json:"js_ok"`
	RCJ         []rcAbs   `json:"rcj"`
	PJ          []prepAbs `json:"pj"`
}

func typeName(t specqbft.MessageType) string {
	switch t {
	case specqbft.ProposalMsgType:
		return "proposal"
	case specqbft.PrepareMsgType:
		return "prepare"
	case specqbft.CommitMsgType:
		return "commit"
	case specqbft.RoundChangeMsgType:
		return "rc"
	}
	return "other"
}

func (c *ctx) small(x uint64) int {
	if x > 64 {
		c.overflow = true
		return 65
	}
	return int(x)
}

func (c *ctx) round(r specqbft.Round) int {
	if uint64(r) > maxModelRound {
		c.overflow = true
	}
	return c.small(uint64(r))
}

func (c *ctx) signers(m *specqbft.SignedMessage) []int {
	out := []int{}
	for _, s := range m.Signers {
		out = append(out, c.small(uint64(s)))
	}
	return out
}

// sigOK: the reference library's signature predicate; memoised per (message root, signers, signature) because the
// projection looks at the justifications of stored round-changes after every call
func (c *ctx) sigOK(m *specqbft.SignedMessage) bool {
	if len(m.Signers) == 0 {
		return false
	}
	r, err := m.Message.GetRoot()
	if err != nil {
		return false
	}
	key := fmt.Sprintf("%x|%v|%x|%d", r, m.Signers, m.Signature, len(c.committee))
	if v, ok := sigMemo[key]; ok {
		return v
	}
	v := m.Signature.VerifyByOperators(m, kit.Domain, spectypes.QBFTSignatureType, c.committee) == nil
	sigMemo[key] = v
	return v
}

var sigMemo = map[string]bool{}

// a nested prepare (justification element): everything validSignedPrepareForHeightRoundAndRoot checks except the
// expected round and root, which the specification compares itself
func (c *ctx) prep(m *specqbft.SignedMessage) prepAbs {
	p := prepAbs{Round: c.round(m.Message.Round), Value: c.ids.id(m.Message.Root)}
	if len(m.Signers) >= 1 {
		p.Signer = c.small(uint64(m.Signers[0]))
	}
	p.OK = m.Message.MsgType == specqbft.PrepareMsgType && m.Message.Height == c.height && m.Validate() == nil &&
		len(m.Signers) == 1 && c.sigOK(m)
	return p
}

// signers of the prepares justifying a prepared round-change, and whether every one of them is a valid prepare
// for (DataRound, Root) of that round-change
func (c *ctx) justification(m *specqbft.SignedMessage) ([]int, bool) {
	js := []int{}
	if m.Message.DataRound == specqbft.NoRound {
		return js, true
	}
	ok := true
	nested, err := m.Message.GetRoundChangeJustifications()
	if err != nil {
		return js, false
	}
	seen := map[int]bool{}
	for _, pm := range nested {
		p := c.prep(pm)
		if !p.OK || pm.Message.Round != m.Message.DataRound || pm.Message.Root != m.Message.Root {
			ok = false
		}
		if !seen[p.Signer] {
			seen[p.Signer] = true
			js = append(js, p.Signer)
		}
	}
	sort.Ints(js)
	return js, ok
}

// a nested round-change (justification element of a proposal)
func (c *ctx) rc(m *specqbft.SignedMessage) rcAbs {
	r := rcAbs{Round: c.round(m.Message.Round), Pr: c.round(m.Message.DataRound), Pv: "none", JS: []int{}}
	if len(m.Signers) >= 1 {
		r.Signer = c.small(uint64(m.Signers[0]))
	}
	r.OK = m.Message.MsgType == specqbft.RoundChangeMsgType && m.Message.Height == c.height && len(m.Signers) == 1 &&
		c.sigOK(m) && m.Message.Validate() == nil
	if m.Message.DataRound != specqbft.NoRound {
		r.Pv = c.ids.id(m.Message.Root)
		js, ok := c.justification(m)
		if ok {
			r.JS = js
		} // else: no usable justification (the specification then finds no quorum)
	}
	return r
}

func (c *ctx) abs(m *specqbft.SignedMessage) msgAbs {
	a := msgAbs{Type: typeName(m.Message.MsgType), Round: c.round(m.Message.Round), Signers: c.signers(m),
		Value: c.ids.id(m.Message.Root), Data: "none", Pr: c.round(m.Message.DataRound), JS: []int{}, JSOK: true,
		RCJ: []rcAbs{}, PJ: []prepAbs{}}
	a.HeightOK = m.Message.Height == c.height
	a.StructOK = m.Validate() == nil
	a.SigOK = c.sigOK(m)
	a.IDOK = bytes.Equal(m.Message.Identifier, c.ident)
	if len(m.FullData) > 0 {
		a.Data = c.ids.idOfData(m.FullData)
	}
	if r, err := specqbft.HashDataRoot(m.FullData); err == nil && r == m.Message.Root {
		a.DataMatches = true
	}
	if !a.StructOK {
		return a
	}
	switch m.Message.MsgType {
	case specqbft.RoundChangeMsgType:
		a.JS, a.JSOK = c.justification(m)
	case specqbft.ProposalMsgType:
		rcs, _ := m.Message.GetRoundChangeJustifications()
		for _, x := range rcs {
			a.RCJ = append(a.RCJ, c.rc(x))
		}
		ps, _ := m.Message.GetPrepareJustifications()
		for _, x := range ps {
			a.PJ = append(a.PJ, c.prep(x))
		}
	}
	return a
}

// ---------------------------------------------------------------------------------------------------------------
// projection of the real state (qbftkit.World.Project, with value ids and records instead of strings)
// ---------------------------------------------------------------------------------------------------------------

type accSt struct {
	Round int    `json:"round"`
	Value string `json:"value"`
	From  int    `json:"from"`
}

type rcSt struct {
	Signer int    `json:"signer"`
	Round  int    `json:"round"`
	Pr     int    `json:"pr"`
	Pv     string `json:"pv"`
	JS     []int  `json:"js"`
}

type nodeSt struct {
	Started bool   `json:"started"`
	CanProc bool   `json:"canproc"`
	Round   int    `json:"round"`
	Acc     accSt  `json:"acc"`
	Lpr     int    `json:"lpr"`
	Lpv     string `json:"lpv"`
	Decided bool   `json:"decided"`
	Dval    string `json:"dval"`
	Prep    []srv  `json:"prep"`
	Comm    []srv  `json:"comm"`
	RC      []rcSt `json:"rc"`
}

func freshNode() nodeSt {
	return nodeSt{CanProc: true, Round: 1, Acc: accSt{Value: "none"}, Lpv: "none", Dval: "none", Prep: []srv{}, Comm: []srv{}, RC: []rcSt{}}
}

func (c *ctx) project(s *specqbft.State, started, canproc bool) nodeSt {
	n := freshNode()
	n.Started, n.CanProc = started, canproc
	n.Round = c.round(s.Round)
	n.Lpr = c.round(s.LastPreparedRound)
	n.Lpv = c.ids.idOfData(s.LastPreparedValue)
	n.Decided = s.Decided
	if s.Decided {
		n.Dval = c.ids.idOfData(s.DecidedValue)
	}
	if p := s.ProposalAcceptedForCurrentRound; p != nil {
		n.Acc = accSt{Round: c.round(p.Message.Round), Value: c.ids.idOfData(p.FullData)}
		if len(p.Signers) > 0 {
			n.Acc.From = c.small(uint64(p.Signers[0]))
		}
	}
	seenP, seenC := map[srv]bool{}, map[srv]bool{}
	for r, msgs := range s.PrepareContainer.Msgs {
		if r != s.Round && r != s.LastPreparedRound {
			continue
		}
		for _, m := range msgs {
			for _, sg := range m.Signers {
				e := srv{c.small(uint64(sg)), c.round(r), c.ids.id(m.Message.Root)}
				if !seenP[e] {
					seenP[e] = true
					n.Prep = append(n.Prep, e)
				}
			}
		}
	}
	for r, msgs := range s.CommitContainer.Msgs {
		if r != s.Round {
			continue
		}
		for _, m := range msgs {
			for _, sg := range m.Signers {
				e := srv{c.small(uint64(sg)), c.round(r), c.ids.id(m.Message.Root)}
				if !seenC[e] {
					seenC[e] = true
					n.Comm = append(n.Comm, e)
				}
			}
		}
	}
	for r, msgs := range s.RoundChangeContainer.Msgs {
		if r < s.Round {
			continue
		}
		for _, m := range msgs {
			e := rcSt{Round: c.round(r), Pr: c.round(m.Message.DataRound), Pv: "none", JS: []int{}}
			if len(m.Signers) > 0 {
				e.Signer = c.small(uint64(m.Signers[0]))
			}
			// pv: the full data the round-change carries (for a prepared one it hashes to the root, validated on
			// reception; an unprepared one normally carries none - the kit's do, and uponRoundChange proposes it)
			if len(m.FullData) > 0 {
				e.Pv = c.ids.idOfData(m.FullData)
			} else if m.Message.DataRound != specqbft.NoRound {
				e.Pv = c.ids.id(m.Message.Root)
			}
			if m.Message.DataRound != specqbft.NoRound {
				e.JS, _ = c.justification(m)
			}
			n.RC = append(n.RC, e)
		}
	}
	less := func(a, b srv) bool {
		if a.Round != b.Round {
			return a.Round < b.Round
		}
		if a.Signer != b.Signer {
			return a.Signer < b.Signer
		}
		return a.Value < b.Value
	}
	sort.Slice(n.Prep, func(i, j int) bool { return less(n.Prep[i], n.Prep[j]) })
	sort.Slice(n.Comm, func(i, j int) bool { return less(n.Comm[i], n.Comm[j]) })
	sort.Slice(n.RC, func(i, j int) bool {
		if n.RC[i].Round != n.RC[j].Round {
			return n.RC[i].Round < n.RC[j].Round
		}
		return n.RC[i].Signer < n.RC[j].Signer
	})
	return n
}

type outAbs struct {
	Type  string `json:"type"`
	Round int    `json:"round"`
	Value string `json:"value"`
	Pr    int    `json:"pr"`
}

func (c *ctx) outs(msgs [][]byte) []outAbs {
	out := []outAbs{}
	for _, raw := range msgs {
		m := &specqbft.SignedMessage{}
		if err := m.Decode(raw); err != nil {
			out = append(out, outAbs{Type: "undecodable", Value: "none"})
			continue
		}
		o := outAbs{Type: typeName(m.Message.MsgType), Round: c.round(m.Message.Round), Value: c.ids.id(m.Message.Root)}
		if m.Message.MsgType == specqbft.RoundChangeMsgType {
			o.Pr = c.round(m.Message.DataRound)
			if o.Pr == 0 {
				o.Value = "none"
			}
		}
		if m.Message.MsgType == specqbft.CommitMsgType && len(m.Signers) > 1 {
			o.Type = "decided"
		}
		out = append(out, o)
	}
	return out
}

// ---------------------------------------------------------------------------------------------------------------
// recording
// ---------------------------------------------------------------------------------------------------------------

type refDiff struct {
	Scenario string `json:"scenario"`
	Trace    string `json:"trace"`
	Step     int    `json:"step"`
	Field    string `json:"field"`
	Node     string `json:"node"`
	Ref      string `json:"ref"`
	What     string `json:"what"`
}

type trace struct {
	name   string
	events []map[string]any
}

type recorder struct {
	tw       *vh.TraceWriter
	diffs    []refDiff
	excluded map[string][]string
	counts   map[string]int
	n        int
}

func (r *recorder) exclude(reason, name string) {
	r.excluded[reason] = append(r.excluded[reason], name)
}

func (r *recorder) diff(scen, tr string, step int, field string, node, ref any, what string) {
	r.counts["refdiffs"]++
	if len(r.diffs) < 200 {
		r.diffs = append(r.diffs, refDiff{scen, tr, step, field, fmt.Sprint(node), fmt.Sprint(ref), what})
	}
}

func (r *recorder) flush(t *trace, kind string) {
	for _, e := range t.events {
		r.tw.Emit(e)
	}
	r.counts["traces"]++
	r.counts["traces:"+kind]++
	r.counts["events"] += len(t.events) - 1
}

func cp(m *specqbft.SignedMessage) *specqbft.SignedMessage {
	if m == nil {
		return nil
	}
	c := &specqbft.SignedMessage{Signature: append([]byte(nil), m.Signature...), Signers: append([]spectypes.OperatorID(nil), m.Signers...)}
	if m.FullData != nil {
		c.FullData = append([]byte{}, m.FullData...)
	}
	c.Message = m.Message
	c.Message.Identifier = append([]byte(nil), m.Message.Identifier...)
	cpj := func(j [][]byte) [][]byte {
		if j == nil {
			return nil
		}
		out := make([][]byte, len(j))
		for i := range j {
			out[i] = append([]byte(nil), j[i]...)
		}
		return out
	}
	c.Message.RoundChangeJustification = cpj(m.Message.RoundChangeJustification)
	c.Message.PrepareJustification = cpj(m.Message.PrepareJustification)
	return c
}

func netOut(cfgNet any, from int) [][]byte {
	n, ok := cfgNet.(*tu.TestingNetwork)
	if !ok {
		return nil
	}
	var out [][]byte
	for _, m := range n.BroadcastedMsgs[from:] {
		out = append(out, m.Data)
	}
	return out
}

func netLen(cfgNet any) int {
	if n, ok := cfgNet.(*tu.TestingNetwork); ok {
		return len(n.BroadcastedMsgs)
	}
	return 0
}

// broadcasts are compared after normalising the signer order of aggregated commits (the node sorts it)
func normOut(raw []byte) string {
	m := &specqbft.SignedMessage{}
	if err := m.Decode(raw); err != nil {
		return "undecodable:" + hex.EncodeToString(raw[:imin(8, len(raw))])
	}
	sort.Slice(m.Signers, func(i, j int) bool { return m.Signers[i] < m.Signers[j] })
	b, _ := m.Encode()
	r, _ := specqbft.HashDataRoot(b)
	return fmt.Sprintf("%s r%d %s", typeName(m.Message.MsgType), m.Message.Round, hex.EncodeToString(r[:6]))
}

func normOuts(raw [][]byte) string {
	var s []string
	for _, x := range raw {
		s = append(s, normOut(x))
	}
	return strings.Join(s, ",")
}

// splitDecided separates the instance's broadcasts from certificates (commits with more than one signer)
func splitDecided(raw [][]byte) (inst, certs [][]byte) {
	for _, x := range raw {
		m := &specqbft.SignedMessage{}
		if err := m.Decode(x); err == nil && m.Message.MsgType == specqbft.CommitMsgType && len(m.Signers) > 1 {
			certs = append(certs, x)
		} else {
			inst = append(inst, x)
		}
	}
	return
}

func rootOf(s *specqbft.State) string {
	if s == nil {
		return "nil"
	}
	r, err := s.GetRoot()
	if err != nil {
		return "err:" + err.Error()
	}
	return hex.EncodeToString(r[:8])
}

func errStr(err error) string {
	if err == nil {
		return "ok"
	}
	return "error: " + err.Error()
}

func resetEvent(name, kind string, n, leader, off int, pre nodeSt, crafted bool, seed int64) map[string]any {
	return map[string]any{"event": "Reset", "scen": name, "kind": kind, "n": n, "leader": leader, "off": off,
		"pre": pre, "crafted": crafted, "seed": seed}
}

func isFresh(n nodeSt) bool {
	f := freshNode()
	f.Started = n.Started
	return reflect.DeepEqual(n, f)
}

// ---- message-processing and timeout scenarios: the instance directly ---------------------------------------------

type instPair struct {
	a   *instance.Instance
	r   *specqbft.Instance
	c   *ctx
	cfg *qbft.Config
}

func (rec *recorder) newPair(pre *specqbft.Instance) (*instPair, error) {
	preByts, err := pre.Encode()
	if err != nil {
		return nil, err
	}
	msgID := specqbft.ControllerIdToMessageID(pre.State.ID)
	ks := tu.KeySetForShare(pre.State.Share)
	cfg := qbfttesting.TestingConfig(logger, ks, msgID.GetRoleType())
	a := instance.NewInstance(cfg, pre.State.Share, pre.State.ID, pre.State.Height)
	if err := a.Decode(preByts); err != nil {
		return nil, err
	}
	// the simple hack of the kit to change the proposer func
	if a.State.Height == spectests.ChangeProposerFuncInstanceHeight {
		cfg.ProposerF = func(state *specqbft.State, round specqbft.Round) spectypes.OperatorID { return 2 }
		pre.GetConfig().(*specqbft.Config).ProposerF = func(state *specqbft.State, round specqbft.Round) spectypes.OperatorID { return 2 }
	}
	c := &ctx{height: a.State.Height, committee: a.State.Share.Committee, ident: a.State.ID, ids: newValIDs(cfg.ValueCheckF)}
	return &instPair{a: a, r: pre, c: c, cfg: cfg}, nil
}

func leaderOf(height specqbft.Height) int {
	if height == spectests.ChangeProposerFuncInstanceHeight {
		return 2
	}
	return 1
}

func (p *instPair) prescan(msgs []*specqbft.SignedMessage) {
	if p.a.StartValue != nil {
		p.c.ids.idOfData(p.a.StartValue) // "v1"
	}
	p.c.ids.learnMsg(p.a.State.ProposalAcceptedForCurrentRound)
	if p.a.State.LastPreparedValue != nil {
		p.c.ids.learn(p.a.State.LastPreparedValue)
	}
	for _, m := range msgs {
		p.c.ids.learnMsg(m)
	}
}

func (rec *recorder) compareInst(scen string, step int, p *instPair, what string, ea, er error, oa, or [][]byte) {
	if (ea == nil) != (er == nil) {
		rec.diff(scen, scen, step, "accept", errStr(ea), errStr(er), what)
	}
	if normOuts(oa) != normOuts(or) {
		rec.diff(scen, scen, step, "broadcast", normOuts(oa), normOuts(or), what)
	}
	if p.a.State.Decided != p.r.State.Decided || !bytes.Equal(p.a.State.DecidedValue, p.r.State.DecidedValue) {
		rec.diff(scen, scen, step, "decision", fmt.Sprint(p.a.State.Decided, " ", hex.EncodeToString(p.a.State.DecidedValue)),
			fmt.Sprint(p.r.State.Decided, " ", hex.EncodeToString(p.r.State.DecidedValue)), what)
	}
	if ra, rr := rootOf(p.a.State), rootOf(p.r.State); ra != rr {
		rec.diff(scen, scen, step, "state-root", ra, rr, what)
	}
}

func (rec *recorder) runMsgProcessing(test *spectests.MsgProcessingSpecTest) {
	name := test.TestName()
	p, err := rec.newPair(test.Pre)
	if err != nil {
		rec.exclude("pre-state-not-loadable", name)
		return
	}
	p.prescan(test.InputMessages)
	if p.a.StartValue == nil || p.cfg.ValueCheckF(p.a.StartValue) != nil {
		rec.exclude("start-value-invalid", name)
		return
	}
	n := len(p.a.State.Share.Committee)
	pre := p.c.project(p.a.State, true, p.a.CanProcessMessages())
	tr := &trace{name: name}
	tr.events = append(tr.events, resetEvent(name, "msgproc", n, leaderOf(p.a.State.Height), 0, pre, !isFresh(pre), 0))
	rnet := p.r.GetConfig().GetNetwork()
	for k, msg := range test.InputMessages {
		abs := p.c.abs(msg)
		na, nr := netLen(p.cfg.Network), netLen(rnet)
		da, va, _, ea := p.a.ProcessMsg(logger, cp(msg))
		_, _, _, er := p.r.ProcessMsg(cp(msg))
		oa, or := netOut(p.cfg.Network, na), netOut(rnet, nr)
		rec.compareInst(name, k+1, p, fmt.Sprintf("ProcessMsg %s r%d signers%v", abs.Type, abs.Round, abs.Signers), ea, er, oa, or)
		tr.events = append(tr.events, map[string]any{"event": "ProcessMsg", "via": "instance", "msg": abs, "ok": ea == nil,
			"err": errStr(ea), "decided": da, "dvalret": p.c.ids.idOfData(va), "future": false, "reported": false,
			"post": p.c.project(p.a.State, true, p.a.CanProcessMessages()), "out": p.c.outs(oa)})
	}
	if p.c.overflow || p.c.ids.over {
		rec.exclude("field-outside-model-range", name)
		return
	}
	rec.counts["scenarios:msgproc"]++
	if !isFresh(pre) {
		rec.counts["crafted-pre-state"]++
	}
	rec.flush(tr, "msgproc")
}

func (rec *recorder) runTimeout(test *spectimeout.SpecTest) {
	name := test.TestName()
	p, err := rec.newPair(test.Pre)
	if err != nil {
		rec.exclude("pre-state-not-loadable", name)
		return
	}
	p.prescan(nil)
	n := len(p.a.State.Share.Committee)
	pre := p.c.project(p.a.State, true, p.a.CanProcessMessages())
	tr := &trace{name: name}
	tr.events = append(tr.events, resetEvent(name, "timeout", n, leaderOf(p.a.State.Height), 0, pre, !isFresh(pre), 0))
	rnet := p.r.GetConfig().GetNetwork()
	na, nr := netLen(p.cfg.Network), netLen(rnet)
	tround := int(p.a.State.Round)
	ea := p.a.UponRoundTimeout(logger)
	er := p.r.UponRoundTimeout()
	oa, or := netOut(p.cfg.Network, na), netOut(rnet, nr)
	rec.compareInst(name, 1, p, "UponRoundTimeout", ea, er, oa, or)
	tr.events = append(tr.events, map[string]any{"event": "Timeout", "via": "instance", "tround": tround, "ok": ea == nil,
		"err": errStr(ea), "post": p.c.project(p.a.State, true, p.a.CanProcessMessages()), "out": p.c.outs(oa)})
	if p.c.overflow || p.c.ids.over {
		rec.exclude("field-outside-model-range", name)
		return
	}
	rec.counts["scenarios:timeout"]++
	if !isFresh(pre) {
		rec.counts["crafted-pre-state"]++
	}
	rec.flush(tr, "timeout")
}

// ---- controller scenarios: one trace per height -------------------------------------------------------------------

type ctlRun struct {
	rec      *recorder
	scen     string
	kind     string
	n        int
	leader   int
	seed     int64
	a        *controller.Controller
	r        *specqbft.Controller
	anet     func() [][]byte // all broadcasts of the node so far (encoded signed messages)
	rnet     func() [][]byte
	check    func([]byte) error
	traces   map[specqbft.Height]*trace
	ctxs     map[specqbft.Height]*ctx
	started  map[specqbft.Height]bool
	canproc  map[specqbft.Height]bool
	order    []specqbft.Height
	step     int
	startVal map[specqbft.Height][]byte
	learn    []*specqbft.SignedMessage
	// reference comparison
	suspended  map[specqbft.Height]bool
	lastCert   bool // the call being compared delivered a certificate (quorum-signed commit)
	wasDecided bool // ... to an instance that was already decided
	certOK     bool // a certificate has been accepted in this run
}

func (c *ctlRun) ctxFor(h specqbft.Height) *ctx {
	if x, ok := c.ctxs[h]; ok {
		return x
	}
	x := &ctx{height: h, committee: c.a.Share.Committee, ident: c.a.Identifier, ids: newValIDs(c.check)}
	if sv, ok := c.startVal[h]; ok && sv != nil {
		x.ids.idOfData(sv)
	} else {
		// no instance is ever started at this height: "v1" stays reserved for the (absent) start value
		x.ids.nv = 1
	}
	for _, m := range c.learn {
		if m.Message.Height == h {
			x.ids.learnMsg(m)
		}
	}
	c.ctxs[h] = x
	return x
}

func (c *ctlRun) state(h specqbft.Height) nodeSt {
	x := c.ctxFor(h)
	inst := c.a.StoredInstances.FindInstance(h)
	if inst == nil {
		return freshNode()
	}
	return x.project(inst.State, c.started[h], inst.CanProcessMessages())
}

func (c *ctlRun) traceFor(h specqbft.Height) *trace {
	if t, ok := c.traces[h]; ok {
		return t
	}
	name := fmt.Sprintf("%s#h%d", c.scen, h)
	t := &trace{name: name}
	off := int(uint64(h) % uint64(c.n))
	t.events = append(t.events, resetEvent(name, c.kind, c.n, c.leader, off, c.state(h), false, c.seed))
	c.traces[h] = t
	c.order = append(c.order, h)
	return t
}

// after a call: instances of other heights that can no longer process messages (ForceStop by StartNewInstance)
func (c *ctlRun) noteStops(except specqbft.Height) {
	for _, inst := range c.a.StoredInstances {
		if inst == nil {
			continue
		}
		h := inst.GetHeight()
		was, seen := c.canproc[h]
		now := inst.CanProcessMessages()
		c.canproc[h] = now
		if h != except && seen && was && !now {
			t := c.traceFor(h)
			t.events = append(t.events, map[string]any{"event": "ForceStop", "post": c.state(h)})
		}
	}
}

func (c *ctlRun) compare(h specqbft.Height, what string, ea, er error, da, dr *specqbft.SignedMessage, oa, or [][]byte) {
	tn := fmt.Sprintf("%s#h%d", c.scen, h)
	if c.suspended[h] {
		c.rec.counts["steps-without-reference-comparison"]++
		return
	}
	if c.lastCert && c.wasDecided {
		// A further certificate for an already decided instance: the node stores it iff it has more signers than
		// the longest certificate it holds for ANY round/root, the reference iff more than it holds for THAT
		// round/root (controller/decided.go vs qbft/decided.go) - a deliberate difference of the CONTROLLERS, outside
		// C06.  When the containers part here, the reference is no longer an oracle for the rest of this trace.
		ia, ir := c.a.StoredInstances.FindInstance(h), c.r.StoredInstances.FindInstance(h)
		if ia != nil && ir != nil && (ea == nil) == (er == nil) && rootOf(ia.State) != rootOf(ir.State) {
			c.suspended[h] = true
			c.rec.counts["reference-suspended-after-second-certificate"]++
			return
		}
	}
	if (ea == nil) != (er == nil) {
		c.rec.diff(c.scen, tn, c.step, "accept", errStr(ea), errStr(er), what)
	}
	if (da == nil) != (dr == nil) || (da != nil && !bytes.Equal(da.FullData, dr.FullData)) {
		c.rec.diff(c.scen, tn, c.step, "decision", fmt.Sprint(da != nil), fmt.Sprint(dr != nil), what)
	}
	// certificates (re-)broadcast by the CONTROLLER are not the instance's output: the node deliberately
	// re-broadcasts a grown certificate on a late commit, the reference controller does not (counted, not monitored)
	ia0, da0 := splitDecided(oa)
	ir0, dr0 := splitDecided(or)
	if normOuts(ia0) != normOuts(ir0) {
		c.rec.diff(c.scen, tn, c.step, "broadcast", normOuts(ia0), normOuts(ir0), what)
	}
	if normOuts(da0) != normOuts(dr0) {
		c.rec.diff(c.scen, tn, c.step, "controller-certificate-broadcast", normOuts(da0), normOuts(dr0), what)
	}
	ia, ir := c.a.StoredInstances.FindInstance(h), c.r.StoredInstances.FindInstance(h)
	if (ia == nil) != (ir == nil) {
		c.rec.diff(c.scen, tn, c.step, "instance-exists", ia != nil, ir != nil, what)
	} else if ia != nil {
		if ia.State.Decided != ir.State.Decided || !bytes.Equal(ia.State.DecidedValue, ir.State.DecidedValue) {
			c.rec.diff(c.scen, tn, c.step, "decision", ia.State.Decided, ir.State.Decided, what)
		}
		// the node keeps the signers of a stored certificate as received; the state root is order-sensitive only
		// through the containers, which both sides fill with the same messages in the same order
		if ra, rr := rootOf(ia.State), rootOf(ir.State); ra != rr {
			c.rec.diff(c.scen, tn, c.step, "state-root", ra, rr, what)
		}
	}
}

func (c *ctlRun) start(h specqbft.Height, value []byte) {
	c.step++
	x := c.ctxFor(h)
	t := c.traceFor(h)
	past := h < c.a.Height
	valueOK := c.check(value) == nil
	na, nr := len(c.anet()), len(c.rnet())
	ea := c.a.StartNewInstance(logger, h, value)
	er := c.r.StartNewInstance(h, value)
	oa, or := c.anet()[na:], c.rnet()[nr:]
	if ea == nil {
		c.started[h] = true
	}
	c.compare(h, "StartNewInstance", ea, er, nil, nil, oa, or)
	t.events = append(t.events, map[string]any{"event": "Start", "value_ok": valueOK, "past_height": past, "ok": ea == nil,
		"err": errStr(ea), "post": c.state(h), "out": x.outs(oa)})
	if inst := c.a.StoredInstances.FindInstance(h); inst != nil {
		c.canproc[h] = inst.CanProcessMessages()
	}
	c.noteStops(h)
}

func (c *ctlRun) process(msg *specqbft.SignedMessage) {
	c.step++
	h := msg.Message.Height
	x := c.ctxFor(h)
	t := c.traceFor(h)
	abs := x.abs(msg)
	future := (c.a.Height == specqbft.FirstHeight && c.a.StoredInstances.FindInstance(c.a.Height) == nil) || h > c.a.Height
	na, nr := len(c.anet()), len(c.rnet())
	c.lastCert = msg.Message.MsgType == specqbft.CommitMsgType && len(msg.Signers) >= int(c.a.Share.Quorum)
	c.wasDecided = false
	if inst := c.a.StoredInstances.FindInstance(h); inst != nil {
		c.wasDecided = inst.State.Decided
	}
	da, ea := c.a.ProcessMsg(logger, cp(msg))
	dr, er := c.r.ProcessMsg(cp(msg))
	oa, or := c.anet()[na:], c.rnet()[nr:]
	c.compare(h, fmt.Sprintf("Controller.ProcessMsg %s h%d r%d signers%v", abs.Type, h, abs.Round, abs.Signers), ea, er, da, dr, oa, or)
	if c.lastCert && ea == nil {
		c.certOK = true
	}
	c.lastCert = false
	dec, dv := false, "none"
	if inst := c.a.StoredInstances.FindInstance(h); inst != nil {
		dec = inst.State.Decided
		if dec {
			dv = x.ids.idOfData(inst.State.DecidedValue)
		}
		c.canproc[h] = inst.CanProcessMessages()
	}
	t.events = append(t.events, map[string]any{"event": "ProcessMsg", "via": "controller", "msg": abs, "ok": ea == nil,
		"err": errStr(ea), "decided": dec, "dvalret": dv, "future": future, "reported": da != nil,
		"post": c.state(h), "out": x.outs(oa)})
	c.noteStops(h)
}

func (c *ctlRun) timeout(h specqbft.Height, round specqbft.Round) {
	c.step++
	x := c.ctxFor(h)
	t := c.traceFor(h)
	na, nr := len(c.anet()), len(c.rnet())
	data, _ := json.Marshal(&ssvtypes.TimeoutData{Height: h, Round: round})
	ea := c.a.OnTimeout(logger, ssvtypes.EventMsg{Type: ssvtypes.Timeout, Data: data})
	// the reference has no controller-level timeout entry point: the caller (the runner's timer callback in the
	// reference design) invokes the instance; the node's guards (instance exists, not an old round, not decided)
	// are the documented contract of OnTimeout and are applied by hand
	var er error
	if ir := c.r.StoredInstances.FindInstance(h); ir == nil {
		er = fmt.Errorf("instance is nil")
	} else if round >= ir.State.Round && !ir.State.Decided {
		er = ir.UponRoundTimeout()
	}
	oa, or := c.anet()[na:], c.rnet()[nr:]
	c.compare(h, fmt.Sprintf("OnTimeout h%d r%d", h, round), ea, er, nil, nil, oa, or)
	t.events = append(t.events, map[string]any{"event": "Timeout", "via": "controller", "tround": x.small(uint64(round)),
		"ok": ea == nil, "err": errStr(ea), "post": c.state(h), "out": x.outs(oa)})
	if inst := c.a.StoredInstances.FindInstance(h); inst != nil {
		c.canproc[h] = inst.CanProcessMessages()
	}
}

func (c *ctlRun) finish() bool {
	for _, x := range c.ctxs {
		if x.overflow || x.ids.over {
			return false
		}
	}
	for _, h := range c.order {
		c.rec.flush(c.traces[h], c.kind)
	}
	return true
}

func sliceNet(n *tu.TestingNetwork) func() [][]byte {
	return func() [][]byte {
		out := make([][]byte, 0, len(n.BroadcastedMsgs))
		for _, m := range n.BroadcastedMsgs {
			out = append(out, m.Data)
		}
		return out
	}
}

func (rec *recorder) runController(test *spectests.ControllerSpecTest) {
	name := test.TestName()
	ks := tu.Testing4SharesSet()
	identifier := []byte{1, 2, 3, 4}
	cfg := qbfttesting.TestingConfig(logger, ks, spectypes.BNRoleAttester)
	a := qbfttesting.NewTestingQBFTController(identifier, tu.TestingShare(ks), cfg, false)
	rcfg := tu.TestingConfig(ks)
	r := tu.NewTestingQBFTController(identifier, tu.TestingShare(ks), rcfg)
	if test.StartHeight != nil {
		a.Height = *test.StartHeight
		r.Height = *test.StartHeight
	}
	c := &ctlRun{rec: rec, scen: name, kind: "controller", n: 4, leader: 1, a: a, r: r,
		anet: sliceNet(cfg.Network.(*tu.TestingNetwork)), rnet: sliceNet(rcfg.Network.(*tu.TestingNetwork)),
		check: cfg.ValueCheckF, traces: map[specqbft.Height]*trace{}, ctxs: map[specqbft.Height]*ctx{},
		started: map[specqbft.Height]bool{}, canproc: map[specqbft.Height]bool{}, startVal: map[specqbft.Height][]byte{},
		suspended: map[specqbft.Height]bool{}}
	heights := []specqbft.Height{}
	for i, rd := range test.RunInstanceData {
		h := specqbft.Height(i)
		if rd.Height != nil {
			h = *rd.Height
		}
		heights = append(heights, h)
		if _, ok := c.startVal[h]; !ok {
			c.startVal[h] = rd.InputValue
		}
		c.learn = append(c.learn, rd.InputMessages...)
	}
	for i, rd := range test.RunInstanceData {
		c.start(heights[i], rd.InputValue)
		for _, m := range rd.InputMessages {
			c.process(m)
		}
	}
	if !c.finish() {
		rec.exclude("field-outside-model-range", name)
		return
	}
	rec.counts["scenarios:controller"]++
}

// ---- seeded random executions (qbftkit world: operator 1 against the Byzantine builders) ---------------------------

type refCapNet struct{ out *[][]byte }

func (n refCapNet) Broadcast(m *spectypes.SSVMessage) error {
	*n.out = append(*n.out, append([]byte{}, m.Data...))
	return nil
}

func (rec *recorder) runRandom(seed int64, idx int) {
	rng := rand.New(rand.NewSource(seed*1000003 + int64(idx)))
	n := 4
	if idx%5 == 4 {
		n = 7
	}
	var byz []int
	for i := 2; i <= n; i++ {
		byz = append(byz, i)
	}
	height := uint64(rng.Intn(n))
	w := kit.NewWorld(n, byz, height, map[int]string{1: "a"}, spectypes.BNRoleAttester)
	defer kit.CloseAll()
	share := w.Share(1)
	var rout [][]byte
	rcfg := tu.TestingConfig(w.KS)
	rcfg.ProposerF = specqbft.RoundRobinProposer
	rcfg.ValueCheckF = kit.ValueCheck
	rcfg.Network = refCapNet{&rout}
	rcfg.SigningPK = share.SharePubKey
	r := specqbft.NewController(w.ID, share, rcfg)
	name := fmt.Sprintf("random-%d-%d", seed, idx)
	h := specqbft.Height(height)
	c := &ctlRun{rec: rec, scen: name, kind: "random", n: n, leader: 0, seed: seed, a: w.Ctrl[1], r: r,
		anet: func() [][]byte {
			out := make([][]byte, 0, len(w.Pool))
			for _, e := range w.Pool {
				out = append(out, e.Raw.Data)
			}
			return out
		},
		rnet:  func() [][]byte { return rout },
		check: kit.ValueCheck, traces: map[specqbft.Height]*trace{}, ctxs: map[specqbft.Height]*ctx{},
		started: map[specqbft.Height]bool{}, canproc: map[specqbft.Height]bool{}, startVal: map[specqbft.Height][]byte{h: kit.Value("a")},
		suspended: map[specqbft.Height]bool{}}
	x := c.ctxFor(h)
	for _, v := range []string{"a", "b", "c", "bad", "a-other"} {
		x.ids.learn(kit.Value(v))
	}
	c.traceFor(h)
	vals := []string{"a", "a", "b", "bad"}
	steps := 12 + rng.Intn(22)
	byzOp := func() kit.OpID { return kit.OpID(2 + rng.Intn(n-1)) }
	leader := func(round int) kit.OpID { return kit.OpID((int(height)+round-1)%n + 1) }
	cur := func() (int, string) {
		inst := w.Instance(1)
		if inst == nil {
			return 1, "a"
		}
		v := "a"
		if p := inst.State.ProposalAcceptedForCurrentRound; p != nil {
			v = kit.ValueName(p.FullData)
		}
		return int(inst.State.Round), v
	}
	nearRound := func() int {
		rd, _ := cur()
		switch rng.Intn(8) {
		case 0:
			return imax(0, rd-1)
		case 1, 2:
			return rd + 1
		case 3:
			return rd + 2
		}
		return rd
	}
	afterCert := 0
	for k := 0; k < steps; k++ {
		inst := w.Instance(1)
		if inst == nil && rng.Intn(10) < 8 {
			c.start(h, kit.Value("a"))
			continue
		}
		rd, accv := cur()
		var m *specqbft.SignedMessage
		p := rng.Intn(100)
		if c.certOK {
			// The model's treatment of certificates (signer-expanded commit records, Norm after the round moved
			// back) is exact up to the acceptance of a certificate; afterwards only controller-level events are
			// generated (mutants, timeouts, certificates, a second start), at most three.
			if afterCert++; afterCert > 3 {
				break
			}
			p = 70 + rng.Intn(30)
		} else if inst != nil && rng.Intn(100) < 45 {
			// a move that makes progress from the state the instance is in (fresh signers, the accepted value):
			// a justified proposal of the round's leader, the next prepare / commit, the next round-change towards
			// the next round the instance leads or the one after the current
			if pm := progress(w, rng, inst, n, int(height)); pm != nil {
				c.process(pm)
				continue
			}
		}
		switch {
		case p < 14: // proposal with the best justification the adversary can assemble (else unjustified)
			round := nearRound()
			if round < 1 {
				round = 1
			}
			s := leader(round)
			if s == 1 || rng.Intn(6) == 0 {
				s = byzOp()
			}
			v := vals[rng.Intn(len(vals))]
			mm, err := w.ByzProposal(s, round, v)
			if err != nil {
				mm = w.BuildAny("proposal", s, round, v)
			}
			m = mm
		case p < 30:
			v := accv
			if rng.Intn(6) == 0 {
				v = "b"
			}
			m = w.ByzPrepare(byzOp(), nearRound(), v)
		case p < 46:
			v := accv
			if rng.Intn(6) == 0 {
				v = "b"
			}
			m = w.ByzCommit(byzOp(), nearRound(), v)
		case p < 62: // round change, unprepared or prepared (possibly prepared beyond its own round)
			round := nearRound()
			if round < 1 {
				round = 1
			}
			pr, pv := 0, "none"
			if rng.Intn(3) == 0 {
				pr, pv = 1+rng.Intn(round+1), vals[rng.Intn(2)]
			}
			mm, err := w.ByzRC(byzOp(), round, pr, pv)
			if err != nil {
				mm, _ = w.ByzRC(byzOp(), round, 0, "none")
			}
			m = mm
		case p < 70: // one of the instance's own broadcasts comes back
			if len(w.Pool) == 0 {
				continue
			}
			m = w.Pool[rng.Intn(len(w.Pool))].Msg
		case p < 80: // field mutants
			typ := []string{"proposal", "prepare", "commit", "rc"}[rng.Intn(4)]
			if c.certOK && typ == "commit" {
				typ = "prepare" // no single commits beside a stored certificate (see above)
			}
			s := leader(rd)
			if s == 1 {
				s = 2
			}
			base := w.BuildAny(typ, s, rd, accv)
			m = w.Mutate(base, kit.MutKinds[rng.Intn(len(kit.MutKinds))])
		case p < 88:
			c.timeout(h, specqbft.Round(nearRound()))
			continue
		case p < 93: // certificates: valid (as far as the honest commit exists), sub-quorum, forged
			var ids []kit.OpID
			for i := 2; i <= n; i++ {
				ids = append(ids, kit.OpID(i))
			}
			if rng.Intn(3) == 0 {
				ids = ids[:len(ids)-1-rng.Intn(2)]
				if c.certOK && len(ids) < 2 {
					continue // a one-signer "certificate" is a plain commit (none beside a stored certificate)
				}
			}
			if rng.Intn(3) == 0 {
				kinds := []string{"subQuorum", "dupSigner", "zeroSigner", "foreignSigner", "badAggregate", "valueNotRoot", "wrongIdentifier", "notCommitType"}
				m = w.ForgedCert(kinds[rng.Intn(len(kinds))], imax(1, nearRound()), vals[rng.Intn(len(vals))])
			} else {
				m = w.Cert(ids, imax(1, nearRound()), vals[rng.Intn(len(vals))])
			}
			if m == nil {
				continue
			}
		default:
			c.start(h, kit.Value("a"))
			continue
		}
		if m == nil {
			continue
		}
		if m.Message.Height != h {
			// wrong-height mutants are routed by the controller to another (absent) instance: they belong to the
			// trace of that height; keep them (the trace of an absent instance expects a refusal)
			c.ctxFor(m.Message.Height)
		}
		c.process(m)
	}
	if !c.finish() {
		rec.exclude("field-outside-model-range", name)
		return
	}
	rec.counts["random-executions"]++
}

// progress returns a message that moves the instance forward from its current state (nil if none applies).
func progress(w *kit.World, rng *rand.Rand, inst *instance.Instance, n, off int) *specqbft.SignedMessage {
	st := inst.State
	rd := int(st.Round)
	leader := func(round int) kit.OpID { return kit.OpID((off+round-1)%n + 1) }
	fresh := func(c *specqbft.MsgContainer, round int) kit.OpID {
		have := map[kit.OpID]bool{}
		for _, m := range c.MessagesForRound(specqbft.Round(round)) {
			for _, sg := range m.Signers {
				have[sg] = true
			}
		}
		var cand []kit.OpID
		for i := 2; i <= n; i++ {
			if !have[kit.OpID(i)] {
				cand = append(cand, kit.OpID(i))
			}
		}
		if len(cand) == 0 {
			return 0
		}
		return cand[rng.Intn(len(cand))]
	}
	if st.Decided {
		return nil
	}
	acc := st.ProposalAcceptedForCurrentRound
	roundChange := func() *specqbft.SignedMessage {
		target := rd + 1
		if rng.Intn(3) == 0 {
			for r := rd; r <= rd+n; r++ { // the next round operator 1 leads
				if leader(r) == 1 && (r > rd || acc == nil) {
					target = r
					break
				}
			}
		}
		s := fresh(st.RoundChangeContainer, target)
		if s == 0 {
			return nil
		}
		pr, pv := 0, "none"
		if st.LastPreparedRound != 0 && rng.Intn(2) == 0 {
			pr, pv = int(st.LastPreparedRound), kit.ValueName(st.LastPreparedValue)
		} else if rng.Intn(4) == 0 && target > 1 {
			pr, pv = 1+rng.Intn(target-1), []string{"a", "b"}[rng.Intn(2)]
		}
		m, err := w.ByzRC(s, target, pr, pv)
		if err != nil {
			m, _ = w.ByzRC(s, target, 0, "none")
		}
		return m
	}
	switch {
	case acc == nil:
		if leader(rd) != 1 && rng.Intn(3) != 0 {
			v := []string{"a", "a", "b"}[rng.Intn(3)]
			if st.LastPreparedRound != 0 {
				v = kit.ValueName(st.LastPreparedValue)
			}
			if m, err := w.ByzProposal(leader(rd), rd, v); err == nil {
				return m
			}
		}
		return roundChange()
	case rng.Intn(5) == 0:
		return roundChange()
	case int(st.LastPreparedRound) != rd:
		if s := fresh(st.PrepareContainer, rd); s != 0 {
			return w.ByzPrepare(s, rd, kit.ValueName(acc.FullData))
		}
	default:
		if s := fresh(st.CommitContainer, rd); s != 0 {
			return w.ByzCommit(s, rd, kit.ValueName(acc.FullData))
		}
	}
	return nil
}

// ---------------------------------------------------------------------------------------------------------------

func main() {
	traceP := flag.String("trace", "", "NDJSON events (output)")
	outP := flag.String("out", "", "result JSON (output)")
	seed := flag.Int64("seed", 1, "seed of the random executions")
	nrandom := flag.Int("random", 0, "number of random executions")
	shard := flag.Int("shard", 0, "shard index")
	of := flag.Int("of", 1, "number of shards")
	kitOn := flag.Bool("kit", true, "run the scenarios of the reference test kit")
	only := flag.String("only", "", "run only the scenario / random execution with this name")
	flag.Parse()
	ssvtypes.SetDefaultDomain(tu.TestingSSVDomainType)
	tw, err := vh.NewTraceWriter(*traceP)
	if err != nil {
		fmt.Fprintln(os.Stderr, err)
		os.Exit(3)
	}
	rec := &recorder{tw: tw, excluded: map[string][]string{}, counts: map[string]int{}}
	if *kitOn {
		for k, f := range spectest.AllTests {
			if k%*of != *shard {
				continue
			}
			t := f()
			if *only != "" && *only != t.TestName() && !strings.HasPrefix(*only, t.TestName()+"#") {
				continue
			}
			rec.counts["kit-scenarios"]++
			switch tt := t.(type) {
			case *spectests.MsgProcessingSpecTest:
				rec.runMsgProcessing(tt)
			case *spectimeout.SpecTest:
				rec.runTimeout(tt)
			case *spectests.ControllerSpecTest:
				rec.runController(tt)
			case *spectests.CreateMsgSpecTest:
				rec.exclude("kind:create-message (no instance call)", t.TestName())
			case *spectests.MsgSpecTest:
				rec.exclude("kind:message-encoding (no instance call)", t.TestName())
			case *spectests.RoundRobinSpecTest:
				rec.exclude("kind:round-robin-proposer (no instance call)", t.TestName())
			default:
				rec.exclude("kind:"+reflect.TypeOf(t).String(), t.TestName())
			}
		}
	}
	for i := 0; i < *nrandom; i++ {
		if i%*of != *shard {
			continue
		}
		if nm := fmt.Sprintf("random-%d-%d", *seed, i); *only != "" && *only != nm && !strings.HasPrefix(*only, nm+"#") {
			continue
		}
		rec.runRandom(*seed, i)
	}
	if err := tw.Close(); err != nil {
		fmt.Fprintln(os.Stderr, err)
		os.Exit(3)
	}
	if rec.diffs == nil {
		rec.diffs = []refDiff{}
	}
	res := map[string]any{"counts": rec.counts, "excluded": rec.excluded, "refdiffs": rec.diffs}
	b, _ := json.Marshal(res)
	if err := os.WriteFile(*outP, b, 0o644); err != nil {
		fmt.Fprintln(os.Stderr, err)
		os.Exit(3)
	}
}

func imin(a, b int) int {
	if a < b {
		return a
	}
	return b
}

func imax(a, b int) int {
	if a > b {
		return a
	}
	return b
}
