// Driver for spec/Controller.tla (property C15; the OnTimeout action is shared with C17).
//
// Binds the spec's actions to the REAL objects of /repo: a real validator.Validator (its Start loads the highest
// instance into every runner's controller) holding one real attester runner around a real qbft controller
// (controller.NewController, default instance-container capacity) whose config stores through the real
// ibft/storage on kv.NewInMemory. "Restart" throws the validator, runner and controller away and builds new ones on
// the same database. Decided certificates carry real aggregated BLS signatures (signature verification is on),
// local decisions are reached by feeding the seven deciding messages through Validator.ProcessMessage.
//
// Storage faults: the database handed to ibft/storage is wrapped (crashDB). Per step it can (a) kill the process right
// before its (k+1)-th Set (crash points between the writes of one save) and (b) make chosen Sets FAIL: the write
// attempts named by the step's fault plan (1 = the first Set the call makes) return an error and write nothing.
// (c) force an outcome on chosen Gets, by read attempt of the call (1 = its first Get): "err" (the error shape of the real
// badger wrapper: found=true + error), "empty" (not found although the record is there), "garbage" (a truncated record,
// which does not decode). The code reads in two places: Validator.Start -> LoadHighestInstance and, on a full node,
// InstanceForHeight for a height that is not in memory. The harness's own reads (monitors, projection) bypass the wrapper.
// Duties are started the way the node does it: an ExecuteDuty event through Validator.ProcessMessage -> OnExecuteDuty
// (which calls Validator.Start again - a no-op once started - and then StartDuty).
//
//	-mode replay : replays NDJSON behaviours (TLC state-graph cover, simulations, attack / finding traces), compares the
//	               real projection with the spec state after every step (divergence) and evaluates the C15 monitors
//	               on real outputs only (violation).
//	-mode record : seeded random executions on the real code, one event per call, for ControllerTrace.tla.
package main

import (
	"strings"
	"context"
	"encoding/json"
	"errors"
	"flag"
	"fmt"
	"math/rand"
	"os"
	"reflect"
	"runtime/pprof"
	"sort"

	"github.com/attestantio/go-eth2-client/spec"
	"github.com/attestantio/go-eth2-client/spec/phase0"
	specqbft "github.com/bloxapp/ssv-spec/qbft"
	specssv "github.com/bloxapp/ssv-spec/ssv"
	spectypes "github.com/bloxapp/ssv-spec/types"
	tu "github.com/bloxapp/ssv-spec/types/testingutils"
	"github.com/herumi/bls-eth-go-binary/bls"
	"go.uber.org/zap"

	ibftstorage "github.com/bloxapp/ssv/ibft/storage"
	"github.com/bloxapp/ssv/networkconfig"
	"github.com/bloxapp/ssv/protocol/v2/message"
	"github.com/bloxapp/ssv/protocol/v2/qbft"
	"github.com/bloxapp/ssv/protocol/v2/qbft/controller"
	"github.com/bloxapp/ssv/protocol/v2/qbft/instance"
	"github.com/bloxapp/ssv/protocol/v2/qbft/roundtimer"
	qbftstorage "github.com/bloxapp/ssv/protocol/v2/qbft/storage"
	"github.com/bloxapp/ssv/protocol/v2/ssv/queue"
	"github.com/bloxapp/ssv/protocol/v2/ssv/runner"
	"github.com/bloxapp/ssv/protocol/v2/ssv/validator"
	ssvtypes "github.com/bloxapp/ssv/protocol/v2/types"
	"github.com/bloxapp/ssv/storage/basedb"
	"github.com/bloxapp/ssv/storage/kv"

	"verif/harness/vh"
)

var (
	logger = zap.NewNop()
	ks     = tu.Testing4SharesSet()
	msgID  = spectypes.NewMsgID(tu.TestingSSVDomainType, tu.TestingValidatorPubKey[:], spectypes.BNRoleAttester)
	maxH   = 3
)

// ---- messages (built once per height, delivered re-decoded from their encoding) ----

type heightMsgs struct {
	value  []byte            // encoded ConsensusData = start value of the duty
	local  [][]byte          // proposal, 3 prepares, 3 commits (operators 1..3), round 1
	c4     []byte            // round-1 commit of operator 4
	cert   map[[2]int][]byte // (round, #signers) -> decided certificate
	duty   spectypes.Duty
	fullSz []byte
}

var msgCache = map[int]*heightMsgs{}

func consensusData(h int) *spectypes.ConsensusData {
	duty := tu.TestingAttesterDuty
	duty.Slot = phase0.Slot(h)
	att := *tu.TestingAttestationData
	att.Slot = phase0.Slot(h)
	ssz, err := att.MarshalSSZ()
	if err != nil {
		panic(err)
	}
	return &spectypes.ConsensusData{Duty: duty, Version: spec.DataVersionPhase0, DataSSZ: ssz}
}

func enc(m *specqbft.SignedMessage) []byte {
	b, err := m.Encode()
	if err != nil {
		panic(err)
	}
	return b
}

func msgsFor(h int) *heightMsgs {
	if m, ok := msgCache[h]; ok {
		return m
	}
	cd := consensusData(h)
	val, err := cd.Encode()
	if err != nil {
		panic(err)
	}
	root, err := specqbft.HashDataRoot(val)
	if err != nil {
		panic(err)
	}
	hm := &heightMsgs{value: val, cert: map[[2]int][]byte{}, duty: cd.Duty}
	for _, m := range tu.SSVDecidingMsgsForHeight(cd, msgID[:], specqbft.Height(h), ks) {
		hm.local = append(hm.local, enc(m))
	}
	hm.c4 = enc(tu.TestingCommitMessageWithParams(ks.Shares[4], 4, 1, specqbft.Height(h), msgID[:], root))
	for _, r := range []int{1, 2} {
		for _, n := range []int{3, 4} {
			var sks []*bls.SecretKey
			var ids []spectypes.OperatorID
			for i := 1; i <= n; i++ {
				sks = append(sks, ks.Shares[spectypes.OperatorID(i)])
				ids = append(ids, spectypes.OperatorID(i))
			}
			hm.cert[[2]int{r, n}] = enc(tu.TestingCommitMultiSignerMessageWithParams(sks, ids, specqbft.Round(r), specqbft.Height(h), msgID[:], root, val))
		}
	}
	msgCache[h] = hm
	return hm
}

func consensusMsg(data []byte) *queue.DecodedSSVMessage {
	d, err := queue.DecodeSSVMessage(&spectypes.SSVMessage{MsgType: spectypes.SSVConsensusMsgType, MsgID: msgID, Data: data})
	if err != nil {
		panic(err)
	}
	return d
}

func timeoutMsg(h, r int) *queue.DecodedSSVMessage { // as Validator.createTimerMessage builds it
	td, _ := json.Marshal(ssvtypes.TimeoutData{Height: specqbft.Height(h), Round: specqbft.Round(r)})
	ev := &ssvtypes.EventMsg{Type: ssvtypes.Timeout, Data: td}
	data, _ := ev.Encode()
	d, err := queue.DecodeSSVMessage(&spectypes.SSVMessage{MsgType: message.SSVEventMsgType, MsgID: msgID, Data: data})
	if err != nil {
		panic(err)
	}
	return d
}

// ---- the real system ----

type subNet struct{ *tu.TestingNetwork }

// flakyNet: the network of a behaviour whose id ends in "-bfail" reports an error for every broadcast although the
// message went out.  What the node stores and refuses must not depend on the result of a broadcast (added after round-3
// seed C15-seed5: a failed decided-message broadcast made the runner return before it saved the decided instance).
type flakyNet struct {
	*tu.TestingNetwork
	w *world
}

func (n flakyNet) Broadcast(m *spectypes.SSVMessage) error {
	err := n.TestingNetwork.Broadcast(m)
	if n.w.bcastFail {
		n.w.res.Counters["broadcast_faults_injected"]++
		return fmt.Errorf("injected: broadcast failed")
	}
	return err
}

func (subNet) Subscribe(spectypes.ValidatorPK) error { return nil }

// spyStore wraps the real ibft storage; every write is checked against what the real store held before it.
type spyStore struct {
	qbftstorage.QBFTStore                       // the store the code uses: through the fault-injecting crashDB
	raw                   qbftstorage.QBFTStore // the same records read past the wrapper (monitors only)
	w                     *world
	quiet                 bool // the throw-away reopen used by the restart probe
}

func certOf(si *qbftstorage.StoredInstance) (h, r, n int) {
	if si == nil || si.State == nil {
		return -1, 0, 0
	}
	h = int(si.State.Height)
	if si.DecidedMessage != nil {
		r, n = int(si.DecidedMessage.Message.Round), len(si.DecidedMessage.Signers)
	}
	return
}

// The checks compare the record about to be written with what the real store holds; they return the verdict as a
// closure that the caller runs only once the write has taken effect (a write that failed replaced nothing).
func (s *spyStore) checkHighest(si *qbftstorage.StoredInstance, call string) func() {
	old, err := s.raw.GetHighestInstance(msgID[:])
	if err != nil || old == nil {
		return func() {}
	}
	oh, or, on := certOf(old)
	nh, nr, nn := certOf(si)
	w := s.w
	// An incarnation that Validator.Start started although (or because the database denied that) a highest instance
	// is stored writes "highest" records blindly as long as its controller has not passed the stored height.
	blind := w.load != "ok" && int(w.p.ctrl.Height) <= oh
	viol := func(sig, desc string) {
		switch {
		case blind && w.load == "err":
			w.downgraded = "err"
			w.res.Violate("stored-overwritten-after-failed-highest-read", desc+fmt.Sprintf(" - by a validator that was started although the load of its highest instance (height %d) had FAILED", w.loadMax), w.beh, w.step)
		case blind:
			if w.downgraded == "" {
				w.downgraded = "empty"
			}
			w.res.Counters["obs_overwrite_after_empty_highest_read"]++
		default:
			w.res.Violate(sig, desc, w.beh, w.step)
		}
	}
	return func() {
		switch {
		case nh < oh:
			viol("highest-replaced-by-lower-height", fmt.Sprintf("%s: stored highest instance (height %d, round %d, %d signers) replaced by one for the lower height %d", call, oh, or, on, nh))
		case nh == oh && nn < on:
			viol("highest-replaced-by-fewer-signers", fmt.Sprintf("%s: stored highest instance of height %d (certificate of round %d, %d signers) replaced by a certificate of round %d with %d signers", call, oh, or, on, nr, nn))
		case nh == oh && nn == on && nr != or:
			w.res.Counters["obs_highest_replaced_by_equal_signers"]++
		}
	}
}

// wrote reports whether the record si is what the store holds now (highest record or historical record of its height).
func (s *spyStore) wrote(si *qbftstorage.StoredInstance, highest bool) bool {
	var now *qbftstorage.StoredInstance
	var err error
	h, r, n := certOf(si)
	if highest {
		now, err = s.raw.GetHighestInstance(msgID[:])
	} else {
		now, err = s.raw.GetInstance(msgID[:], specqbft.Height(h))
	}
	if err != nil || now == nil {
		return false
	}
	h2, r2, n2 := certOf(now)
	return h == h2 && r == r2 && n == n2
}

func (s *spyStore) checkHistorical(si *qbftstorage.StoredInstance, call string) func() {
	nh, nr, nn := certOf(si)
	old, err := s.raw.GetInstance(msgID[:], specqbft.Height(nh))
	w := s.w
	verdict := func() {}
	if err == nil && old != nil {
		_, or, on := certOf(old)
		if nn < on {
			sig := "historical-replaced-by-fewer-signers"
			obsOnly := ""
			// Recorded finding, kept narrow: the height was learned through a LATE decided message (below the
			// controller height of an earlier incarnation, so it never became the stored highest), it lies above the
			// stored highest found at the last restart, the restarted runner started it again, and this is the
			// first write of this incarnation to the record. Anything else keeps the generic signature.
			if li, ok := w.late[nh]; ok && li.inc < w.restarts && w.loadMax < nh && nh < li.at && w.startedInc[nh] && !w.histInc[nh] {
				sig = "history-overwritten-by-rerun-after-restart"
			}
			desc := fmt.Sprintf("%s: historical instance of height %d (certificate of round %d, %d signers) replaced by a certificate of round %d with %d signers", call, nh, or, on, nr, nn)
			// Storage reads that did not deliver the record, narrow:
			// (1) the read of InstanceForHeight inside THIS call failed ("err"/"garbage": the code saw an error and
			//     went on) or was answered not-found ("empty": nobody's fault) - the record was not seen;
			// (2) the height was started again by a validator that was started although the load of its highest
			//     instance had failed / was denied, at or below the height that was stored then.
			switch kind := w.db.firedRead(); {
			case kind == "err" || kind == "garbage":
				sig = "historical-overwritten-after-failed-instance-read"
				desc += fmt.Sprintf(" - after the storage read of InstanceForHeight(%d) in the same call failed (%s)", nh, kind)
			case kind == "empty":
				obsOnly = "obs_historical_overwritten_after_empty_instance_read"
			case w.load == "err" && nh <= w.loadMax && w.startedInc[nh] && !w.histInc[nh]:
				sig = "stored-overwritten-after-failed-highest-read"
				desc += fmt.Sprintf(" - the height was run again by a validator that was started although the load of its highest instance (height %d) had FAILED", w.loadMax)
			case w.load == "empty" && nh <= w.loadDenied && w.startedInc[nh] && !w.histInc[nh]:
				obsOnly = "obs_overwrite_after_empty_highest_read"
			}
			if obsOnly != "" {
				verdict = func() { w.res.Counters[obsOnly]++ }
			} else {
				verdict = func() { w.res.Violate(sig, desc, w.beh, w.step) }
			}
		}
	}
	return func() {
		verdict()
		w.histInc[nh] = true
	}
}

func (s *spyStore) SaveInstance(si *qbftstorage.StoredInstance) error {
	if s.quiet {
		return s.QBFTStore.SaveInstance(si)
	}
	s.w.res.Counters["store_save_historical"]++
	hist := s.checkHistorical(si, "SaveInstance")
	err := s.QBFTStore.SaveInstance(si)
	if err == nil || s.wrote(si, false) {
		hist()
	}
	s.saveErr(err)
	return err
}

func (s *spyStore) SaveHighestInstance(si *qbftstorage.StoredInstance) error {
	if s.quiet {
		return s.QBFTStore.SaveHighestInstance(si)
	}
	s.w.res.Counters["store_save_highest"]++
	hi := s.checkHighest(si, "SaveHighestInstance")
	err := s.QBFTStore.SaveHighestInstance(si)
	if err == nil || s.wrote(si, true) {
		hi()
	}
	s.saveErr(err)
	return err
}

func (s *spyStore) SaveHighestAndHistoricalInstance(si *qbftstorage.StoredInstance) error {
	if s.quiet {
		return s.QBFTStore.SaveHighestAndHistoricalInstance(si)
	}
	s.w.res.Counters["store_save_highest_and_historical"]++
	hi := s.checkHighest(si, "SaveHighestAndHistoricalInstance")
	hist := s.checkHistorical(si, "SaveHighestAndHistoricalInstance")
	err := s.QBFTStore.SaveHighestAndHistoricalInstance(si)
	if err == nil || s.wrote(si, true) {
		hi()
	}
	if err == nil || s.wrote(si, false) {
		hist()
	}
	s.saveErr(err)
	return err
}

// saveErr counts the saves that reported an error to the controller / runner (only injected failures do).
func (s *spyStore) saveErr(err error) {
	if err != nil {
		s.w.res.Counters["store_saves_failed"]++
	}
}

type proc struct {
	v        *validator.Validator
	r        *runner.AttesterRunner
	ctrl     *controller.Controller
	startErr error // Validator.Start returned an error (the pinned code never does for a failed load)
}

type world struct {
	bcastFail bool
	full     bool
	db       *crashDB
	prefix   string
	readHist bool
	p        *proc
	res      *vh.Result
	beh      string
	step     int
	// monitor bookkeeping, from real outputs only
	restarts   int
	incMax     int          // highest height started / learned as decided by this incarnation (-1 none)
	loadMax    int          // stored highest height the last restart answers for (-1: none, or the database denied it)
	load       string       // how the last Validator.Start loaded: "ok" | "err" (the store reported an error) | "empty"
	downgraded string       // "err" / "empty": an incarnation started on such a highest read has overwritten the highest record by a lower one
	bootHit    bool         // the forced read outcome of the last restart inside crashing() was hit
	loadDenied int          // load == "empty": the stored highest height the database denied (-1 otherwise)
	everDec    int          // highest height ever learned as decided (observation only)
	startedInc map[int]bool // heights successfully started by this incarnation
	certTop    int          // highest height this incarnation learned from a completely processed, timely decided message
	certDesc   string
	late       map[int]lateInfo // heights learned through a decided message that arrived below the controller height
	histInc    map[int]bool     // historical records written by this incarnation
}

// crashDB is the database handed to ibft/storage: the real in-memory badger, except that when armed the process
// "dies" (panic with crashSignal, recovered by the harness) right before the (left+1)-th Set. Everything written
// before that point stays durable; the harness then throws the validator away and restarts on the surviving data.
//
// Failing writes: plan(F) numbers the Sets from 1; a Set whose number is in F returns errInjected and writes nothing
// (a transient disk / badger error). fired lists the numbers that were hit.
type crashSignal struct{}

type crashDB struct {
	basedb.Database
	armed bool
	left  int
	sets  int // Sets that reached the real database since the last arm()

	failAt  map[int]bool
	attempt int
	fired   []int

	// forced read outcomes by read attempt (1 = the first Get since planReads): "ok" | "err" | "empty" | "garbage"
	rplan    []string
	rattempt int
	rfired   []string
}

func (d *crashDB) planReads(kinds []string) { d.rplan, d.rattempt, d.rfired = kinds, 0, []string{} }

func (d *crashDB) unplanReads() (fired []string) {
	fired = d.rfired
	d.rplan, d.rattempt, d.rfired = nil, 0, nil
	return
}

// firedRead: the forced outcome that a read of the current call was given ("" = none)
func (d *crashDB) firedRead() string {
	if len(d.rfired) == 0 {
		return ""
	}
	return d.rfired[0]
}

// Get is the read the code makes (ibftStorage.get). The error shape is the one of kv.badgerTxn.Get: found = true
// together with the error; a record that is not there is found = false without an error.
func (d *crashDB) Get(prefix []byte, key []byte) (basedb.Obj, bool, error) {
	if d.rplan == nil {
		return d.Database.Get(prefix, key)
	}
	d.rattempt++
	kind := "ok"
	if d.rattempt <= len(d.rplan) {
		kind = d.rplan[d.rattempt-1]
	}
	switch kind {
	case "err":
		d.rfired = append(d.rfired, kind)
		return basedb.Obj{}, true, errInjectedRead
	case "empty":
		d.rfired = append(d.rfired, kind)
		return basedb.Obj{}, false, nil
	case "garbage":
		d.rfired = append(d.rfired, kind)
		obj, found, err := d.Database.Get(prefix, key)
		if err != nil {
			return obj, found, err
		}
		if !found {
			return basedb.Obj{Key: key, Value: []byte("{\"State\":")}, true, nil
		}
		obj.Value = obj.Value[:len(obj.Value)/2] // a torn record
		return obj, true, nil
	}
	return d.Database.Get(prefix, key)
}

var (
	errInjected     = errors.New("verif: injected storage write failure")
	errInjectedRead = errors.New("verif: injected storage read failure")
)

func (d *crashDB) arm(k int) { d.armed, d.left, d.sets = true, k, 0 }
func (d *crashDB) disarm()   { d.armed = false }

func (d *crashDB) plan(f []int) {
	d.failAt, d.attempt, d.fired = map[int]bool{}, 0, []int{}
	for _, a := range f {
		d.failAt[a] = true
	}
}

func (d *crashDB) unplan() (fired []int, attempts int) {
	fired, attempts = d.fired, d.attempt
	d.failAt, d.attempt, d.fired = nil, 0, nil
	return
}

func (d *crashDB) Set(prefix []byte, key []byte, value []byte) error {
	d.attempt++
	if d.failAt[d.attempt] {
		d.fired = append(d.fired, d.attempt)
		return errInjected
	}
	if d.armed {
		if d.left == 0 {
			d.armed = false
			panic(crashSignal{})
		}
		d.left--
	}
	d.sets++
	return d.Database.Set(prefix, key, value)
}

// untilCrash runs f and reports whether the injected process death happened inside it.
func untilCrash(f func()) (crashed bool) {
	defer func() {
		if r := recover(); r != nil {
			if _, ok := r.(crashSignal); !ok {
				panic(r)
			}
			crashed = true
		}
	}()
	f()
	return false
}

// one in-memory badger database for the whole run (opening one per behaviour costs far more than the protocol
// work); every behaviour gets its own storage prefix, i.e. its own empty ibft store.
var (
	sharedDB *crashDB
	worldSeq int
)

type lateInfo struct{ at, inc int } // controller height at that moment, incarnation

func newWorld(full bool, res *vh.Result, beh string) *world {
	if sharedDB == nil {
		db, err := kv.NewInMemory(logger, basedb.Options{Ctx: context.Background()})
		if err != nil {
			panic(err)
		}
		sharedDB = &crashDB{Database: db}
	}
	worldSeq++
	w := &world{full: full, db: sharedDB, prefix: fmt.Sprintf("w%d-%s", worldSeq, spectypes.BNRoleAttester.String()),
		res: res, beh: beh, incMax: -1, loadMax: -1, everDec: -1, certTop: -1, load: "ok", loadDenied: -1,
		startedInc: map[int]bool{}, histInc: map[int]bool{}, late: map[int]lateInfo{}}
	w.bcastFail = strings.HasSuffix(beh, "-bfail")
	w.p, _ = w.boot(false, "ok")
	return w
}

// realStore: the real ibft storage the CODE gets (over the fault-injecting wrapper)
func (w *world) realStore() qbftstorage.QBFTStore {
	return ibftstorage.New(w.db, w.prefix)
}

// rawStore: the same records for the harness's own reads
func (w *world) rawStore() qbftstorage.QBFTStore {
	return ibftstorage.New(w.db.Database, w.prefix)
}

// boot = what the node does at start-up for this validator: runners around new controllers, Validator.Start.
// rd = the outcome forced on the storage read of Start (LoadHighestInstance); hit = that read was made.
func (w *world) boot(quiet bool, rd string) (p *proc, hit bool) {
	ssvtypes.SetDefaultDomain(tu.TestingSSVDomainType) // Validator.Start derives the identifier from the default domain
	km := tu.NewTestingKeyManager()
	net := tu.NewTestingNetwork()
	share := tu.TestingShare(ks)
	valCheck := specssv.AttesterValueCheckF(km, spectypes.BeaconTestNetwork, tu.TestingValidatorPubKey[:], tu.TestingValidatorIndex, nil)
	store := &spyStore{QBFTStore: w.realStore(), raw: w.rawStore(), w: w, quiet: quiet}
	cfg := &qbft.Config{
		Signer:                km,
		SigningPK:             ks.Shares[1].GetPublicKey().Serialize(),
		Domain:                tu.TestingSSVDomainType,
		ValueCheckF:           valCheck,
		ProposerF:             func(*specqbft.State, specqbft.Round) spectypes.OperatorID { return 1 },
		Storage:               store,
		Network:               flakyNet{net, w},
		Timer:                 roundtimer.NewTestingTimer(),
		SignatureVerification: true,
	}
	ctrl := controller.NewController(msgID[:], share, cfg, w.full)
	r := runner.NewAttesterRunnner(spectypes.BeaconTestNetwork, share, ctrl, tu.NewTestingBeaconNode(), flakyNet{net, w}, km, valCheck, 0).(*runner.AttesterRunner)
	stores := ibftstorage.NewStores()
	stores.Add(spectypes.BNRoleAttester, store)
	ctx, cancel := context.WithCancel(context.Background())
	cancel() // the queue consumers exit at once: the harness is the only caller (single goroutine)
	v := validator.NewValidator(ctx, cancel, validator.Options{
		Network:       subNet{net},
		Beacon:        tu.NewTestingBeaconNode(),
		BeaconNetwork: networkconfig.TestNetwork.Beacon,
		Storage:       stores,
		SSVShare:      &ssvtypes.SSVShare{Share: *share},
		Signer:        km,
		DutyRunners:   runner.DutyRunners{spectypes.BNRoleAttester: r},
		FullNode:      w.full,
	})
	hit = true
	if rd != "" && rd != "ok" {
		w.db.planReads([]string{rd})
	}
	started, err := v.Start(logger)
	if rd != "" && rd != "ok" {
		hit = len(w.db.unplanReads()) == 1
	}
	if err == nil && !started {
		panic("Validator.Start: not started, no error")
	}
	if err != nil {
		w.res.Counters["validator_start_errors"]++ // a tree in which Start refuses (e.g. the repair): not the pinned code
	}
	return &proc{v: v, r: r, ctrl: ctrl, startErr: err}, hit
}

// ---- projection of the real state onto the spec's variables ----

type instObs struct {
	H     int       `json:"h"`
	Run   bool      `json:"run"`
	Prop  bool      `json:"prop"`
	Dec   bool      `json:"dec"`
	Round int       `json:"round"`
	CC    [][][]int `json:"cc"`
	Stop  bool      `json:"stop"`
}

type recObs struct {
	H    int     `json:"h"`
	Cr   int     `json:"cr"`
	N    int     `json:"n"`
	Inst instObs `json:"inst"`
}

type obs struct {
	Height   int            `json:"height"`
	Stored   []instObs      `json:"stored"`
	Has      bool           `json:"has"`
	Run      int            `json:"run"`
	Hi       recObs         `json:"hi"`
	Hist     map[int]recObs `json:"hist"`
	HistRead bool           `json:"-"`
}

func stateObs(st *specqbft.State, run, stop bool) instObs {
	o := instObs{H: int(st.Height), Run: run, Prop: st.ProposalAcceptedForCurrentRound != nil, Dec: st.Decided,
		Round: int(st.Round), Stop: stop, CC: [][][]int{{}, {}}}
	if st.CommitContainer != nil {
		for r, msgs := range st.CommitContainer.Msgs {
			if r < 1 || r > 2 {
				if len(msgs) > 0 {
					o.CC = append(o.CC, [][]int{{int(r)}}) // outside the spec's rounds: shows up as a divergence
				}
				continue
			}
			for _, m := range msgs {
				var s []int
				for _, id := range m.Signers {
					s = append(s, int(id))
				}
				sort.Ints(s)
				o.CC[r-1] = append(o.CC[r-1], s)
			}
		}
	}
	return o
}

var noInst = instObs{H: -1, CC: [][][]int{{}, {}}}

func recOf(si *qbftstorage.StoredInstance) recObs {
	if si == nil || si.State == nil {
		return recObs{H: -1, Inst: noInst}
	}
	h, r, n := certOf(si)
	return recObs{H: h, Cr: r, N: n, Inst: stateObs(si.State, false, false)}
}

func (w *world) observe() obs {
	c := w.p.ctrl
	o := obs{Height: int(c.Height), Stored: []instObs{}, Run: -1, Hist: map[int]recObs{}}
	for _, i := range c.StoredInstances {
		o.Stored = append(o.Stored, stateObs(i.State, i.StartValue != nil, !i.CanProcessMessages()))
	}
	if st := w.p.r.GetBaseRunner().State; st != nil {
		o.Has = true
		if st.RunningInstance != nil {
			o.Run = int(st.RunningInstance.GetHeight())
		}
	}
	s := w.rawStore()
	hi, err := s.GetHighestInstance(msgID[:])
	if err != nil {
		panic(err)
	}
	o.Hi = recOf(hi)
	if !w.full && !w.readHist {
		return o // a light node never writes historical records: checked at restarts and at the end only
	}
	o.HistRead = true
	for h := 0; h <= maxH; h++ {
		si, err := s.GetInstance(msgID[:], specqbft.Height(h))
		if err != nil {
			panic(err)
		}
		o.Hist[h] = recOf(si)
	}
	return o
}

func specInst(m map[string]any) instObs {
	o := instObs{H: vh.Int(m, "h"), Run: vh.Bool(m, "run"), Prop: vh.Bool(m, "prop"), Dec: vh.Bool(m, "dec"),
		Round: vh.Int(m, "round"), Stop: vh.Bool(m, "stop"), CC: [][][]int{}}
	for _, rr := range vh.List(m, "cc") {
		row := [][]int{}
		if l, ok := rr.([]any); ok {
			for _, it := range l {
				var s []int
				if xs, ok := it.([]any); ok {
					for _, x := range xs {
						s = append(s, int(x.(float64)))
					}
				}
				sort.Ints(s)
				row = append(row, s)
			}
		}
		o.CC = append(o.CC, row)
	}
	return o
}

func specRec(m map[string]any) recObs {
	return recObs{H: vh.Int(m, "h"), Cr: vh.Int(m, "cr"), N: vh.Int(m, "n"), Inst: specInst(vh.Map(m, "inst"))}
}

func specObs(st map[string]any) obs {
	o := obs{Height: vh.Int(st, "height"), Stored: []instObs{}, Hist: map[int]recObs{}}
	for _, x := range vh.List(st, "stored") {
		o.Stored = append(o.Stored, specInst(x.(map[string]any)))
	}
	rs := vh.Map(st, "rs")
	o.Has, o.Run = vh.Bool(rs, "has"), vh.Int(rs, "run")
	db := vh.Map(st, "db")
	o.Hi = specRec(vh.Map(db, "hi"))
	for k, v := range vh.Map(db, "hist") {
		var h int
		fmt.Sscanf(k, "%d", &h)
		o.Hist[h] = specRec(v.(map[string]any))
	}
	return o
}

// compare reports conformance divergences field by field; footprint fields first.
func (w *world) compare(sp, re obs) bool {
	ok := true
	d := func(field string, a, b any) {
		if !reflect.DeepEqual(a, b) {
			w.res.Diverge(w.beh, w.step, field, a, b)
			ok = false
		}
	}
	d("height", sp.Height, re.Height)
	d("runner", [2]any{sp.Has, sp.Run}, [2]any{re.Has, re.Run})
	d("stored", sp.Stored, re.Stored)
	d("db.hi", sp.Hi, re.Hi)
	if re.HistRead {
		for h, r := range sp.Hist {
			d(fmt.Sprintf("db.hist[%d]", h), r, re.Hist[h])
		}
	}
	return ok
}

// ---- the spec's actions on the real objects, with the C15 monitors ----

func (w *world) hasInstance(h int) bool {
	return w.p.ctrl.StoredInstances.FindInstance(specqbft.Height(h)) != nil
}

func (w *world) learned(h int) {
	if h > w.incMax {
		w.incMax = h
	}
	if h > w.everDec {
		w.everDec = h
	}
}

func (w *world) afterCall(before int, call string) {
	if after := int(w.p.ctrl.Height); after < before {
		w.res.Violate("height-went-back", fmt.Sprintf("%s moved the controller height from %d back to %d", call, before, after), w.beh, w.step)
	}
	for _, i := range w.p.ctrl.StoredInstances { // local decisions count as learned
		if i.State.Decided {
			w.learned(int(i.State.Height))
		}
	}
}

// started evaluates the no-rerun monitor for a start (duty or direct) that the real code ACCEPTED.
func (w *world) started(s int, call string, hBefore int, hadInst bool, viaRunner bool) {
	zeroCase := s == 0 && hBefore == 0 && !hadInst // the code's explicit height-0 special case
	switch {
	case hadInst:
		w.res.Violate("height-rerun", fmt.Sprintf("%s(%d) started consensus although the controller already held an instance for height %d", call, s, s), w.beh, w.step)
	case s < hBefore:
		w.res.Violate("height-rerun", fmt.Sprintf("%s(%d) started consensus below the controller height %d", call, s, hBefore), w.beh, w.step)
	case viaRunner && w.load == "err" && s <= w.loadMax:
		// no height-0 excuse: the code was TOLD that its read failed, "Height 0 = nothing yet" does not apply
		w.res.Violate("height-rerun-after-failed-highest-read", fmt.Sprintf("%s(%d) accepted (controller height %d) by a validator that Validator.Start started although LoadHighestInstance had returned an error; the stored highest decided height is %d", call, s, hBefore, w.loadMax), w.beh, w.step)
	case viaRunner && w.load == "empty" && s <= w.loadDenied:
		w.res.Counters["obs_start_at_or_below_stored_height_after_empty_highest_read"]++
	case viaRunner && s <= w.loadMax && !zeroCase:
		w.res.Violate("restart-lost-highest", fmt.Sprintf("%s(%d) accepted after a restart although the stored highest decided height is %d", call, s, w.loadMax), w.beh, w.step)
	case viaRunner && s <= w.incMax && !zeroCase:
		w.res.Violate("height-rerun", fmt.Sprintf("%s(%d) started consensus at or below height %d which this runner had already started or learned as decided", call, s, w.incMax), w.beh, w.step)
	case viaRunner && s <= w.everDec:
		w.res.Counters["obs_start_at_or_below_decided_height_forgotten_by_restart"]++
	}
	w.startedInc[s] = true
	if s > w.incMax {
		w.incMax = s
	}
}

// executeDutyMsg: as operator/validator.CreateDutyExecuteMsg builds it
func executeDutyMsg(duty *spectypes.Duty) *queue.DecodedSSVMessage {
	edd, _ := json.Marshal(ssvtypes.ExecuteDutyData{Duty: duty})
	ev := &ssvtypes.EventMsg{Type: ssvtypes.ExecuteDuty, Data: edd}
	data, _ := ev.Encode()
	d, err := queue.DecodeSSVMessage(&spectypes.SSVMessage{MsgType: message.SSVEventMsgType, MsgID: msgID, Data: data})
	if err != nil {
		panic(err)
	}
	return d
}

func (w *world) startDuty(s int) error {
	hb, had := int(w.p.ctrl.Height), w.hasInstance(s)
	duty := msgsFor(s).duty
	err := w.p.v.ProcessMessage(logger, executeDutyMsg(&duty)) // -> OnExecuteDuty -> Start (no-op) -> StartDuty
	if err == nil {
		w.started(s, "StartNewDuty", hb, had, true)
	}
	w.afterCall(hb, "StartNewDuty")
	return err
}

func (w *world) ctlStart(s int) error {
	hb, had := int(w.p.ctrl.Height), w.hasInstance(s)
	err := w.p.ctrl.StartNewInstance(logger, specqbft.Height(s), msgsFor(s).value)
	if err == nil {
		w.started(s, "StartNewInstance", hb, had, false)
	}
	w.afterCall(hb, "StartNewInstance")
	return err
}

func (w *world) deliver(data []byte, call string) error {
	hb := int(w.p.ctrl.Height)
	err := w.p.v.ProcessMessage(logger, consensusMsg(data))
	w.afterCall(hb, call)
	return err
}

func (w *world) decided(h, r, n int) error {
	if hb := int(w.p.ctrl.Height); h < hb {
		if _, ok := w.late[h]; !ok {
			w.late[h] = lateInfo{at: hb, inc: w.restarts}
		}
	}
	hb := int(w.p.ctrl.Height)
	inst := w.p.ctrl.StoredInstances.FindInstance(specqbft.Height(h))
	memDecided := inst != nil && inst.State.Decided
	_, lateBefore := w.late[h]
	err := w.deliver(msgsFor(h).cert[[2]int{r, n}], "decided message")
	w.learned(h) // a valid quorum certificate for h has reached the runner
	// What this message taught the node must survive the death of this incarnation (checked at the next restart).
	// Counted only when it was timely (not below the controller height), the node did not already hold the instance
	// as decided in memory (then it learned it earlier) and the height was never learned through a late decided
	// message (recorded finding: such a height is not covered by the stored highest).
	// ... and no database write of this call failed: a failed write followed by a restart legitimately forgets.
	if h >= hb && !memDecided && !lateBefore && len(w.db.fired) == 0 && w.db.firedRead() == "" && h > w.certTop {
		w.certTop = h
		w.certDesc = fmt.Sprintf("decided certificate of height %d (round %d, %d signers) processed completely at step %d while the controller height was %d", h, r, n, w.step, hb)
	}
	return err
}

// faulty runs one call under a plan of failing database writes (write attempts of the call, 1 = its first Set).
// It returns the attempts that were hit; the call itself goes on - what the code does with the error is its business.
func (w *world) faulty(plan []int, call func()) (fired []int) {
	fired, _ = w.faultyRW(plan, nil, call)
	return fired
}

// faultyRW: the same with forced outcomes of the call's storage reads (by read attempt, 1 = its first Get).
func (w *world) faultyRW(plan []int, reads []string, call func()) (fired []int, rfired []string) {
	fired, rfired = []int{}, []string{}
	if len(reads) > 0 {
		w.db.planReads(reads)
	}
	if len(plan) > 0 {
		w.db.plan(plan)
	}
	call()
	if len(plan) > 0 {
		fired, _ = w.db.unplan()
		w.res.Counters["write_faults_injected"] += len(fired)
	}
	if len(reads) > 0 {
		rfired = w.db.unplanReads()
		w.res.Counters["read_faults_injected"] += len(rfired)
	}
	return fired, rfired
}

// readPlan: the act's forced read outcome as a plan ("" / "ok" = none)
func readPlan(kind string) []string {
	if kind == "" || kind == "ok" {
		return nil
	}
	return []string{kind}
}

func (w *world) localMsgs(h int) {
	for _, m := range msgsFor(h).local {
		_ = w.deliver(m, "consensus message")
	}
}

// crashing runs one call with the process dying right before its (k+1)-th database write, then restarts on the
// surviving database. fired=false: the call made at most k writes and completed (no crash; no restart either).
func (w *world) crashing(k int, brd string, call func()) (fired bool) {
	w.db.arm(k)
	fired = untilCrash(call)
	w.db.disarm()
	if fired {
		w.res.Counters["crashes_inside_a_save"]++
		w.bootHit = w.restart(brd)
	}
	return fired
}

// onTimeout delivers a timeout event; stale ones (C17, second half) must leave the controller untouched.
func (w *world) onTimeout(h, r int) {
	c := w.p.ctrl
	inst := c.StoredInstances.FindInstance(specqbft.Height(h))
	stale := inst == nil || r < int(inst.State.Round) || inst.State.Decided || h != int(c.Height)
	before, _ := c.GetRoot()
	hb := int(c.Height)
	_ = w.p.v.ProcessMessage(logger, timeoutMsg(h, r))
	w.afterCall(hb, "OnTimeout")
	after, _ := c.GetRoot()
	w.res.Counters["timeouts_delivered"]++
	if stale {
		w.res.Counters["stale_timeouts"]++
		if before != after { // belongs to C17: recorded, never a C15 verdict
			w.res.Counters["obs_c17_stale_timeout_changed_controller"]++
			w.res.Notes = append(w.res.Notes, fmt.Sprintf("C17 observation: stale timeout (height %d round %d) changed the controller root [%s step %d]", h, r, w.beh, w.step))
		}
	}
}

// restart: the process is gone; Validator.Start on the surviving database. rd = the outcome forced on the one storage
// read Start makes (LoadHighestInstance): "" / "ok" = the real one. Returns whether the forced outcome was hit.
func (w *world) restart(rd string) (hit bool) {
	if rd == "" {
		rd = "ok"
	}
	hi, err := w.rawStore().GetHighestInstance(msgID[:])
	if err != nil {
		panic(err)
	}
	w.restarts++
	if sh, _, _ := certOf(hi); sh < w.certTop {
		desc := fmt.Sprintf("the incarnation that just died had learned height %d as decided (%s), but the stored highest decided height it leaves behind is %d: the next incarnation resumes below it", w.certTop, w.certDesc, sh)
		// full node, after a blind incarnation has put a lower record over the highest one: the stored copy of the
		// higher height keeps UponDecided from saving it again, so the downgrade sticks
		switch w.downgraded {
		case "err":
			w.res.Violate("stored-overwritten-after-failed-highest-read", desc+" - the highest record had been overwritten by a lower one by a validator that was started although the load of its highest instance had FAILED", w.beh, w.step)
		case "empty":
			w.res.Counters["obs_overwrite_after_empty_highest_read"]++
		default:
			w.res.Violate("restart-lost-highest", desc, w.beh, w.step)
		}
	}
	w.incMax, w.loadMax, w.certTop = -1, -1, -1
	w.load, w.loadDenied = "ok", -1
	w.startedInc, w.histInc = map[int]bool{}, map[int]bool{}
	w.p, hit = w.boot(false, rd)
	if rd != "ok" {
		w.res.Counters["restarts_with_forced_highest_read_"+rd]++
		if hit {
			w.res.Counters["read_faults_injected"]++
		} else {
			w.res.Diverge(w.beh, w.step, "restart.brd", rd, "Validator.Start made no storage read")
		}
	}
	if hi == nil {
		if hit && (rd == "err" || rd == "garbage") && w.p.startErr == nil {
			w.load = "err" // nothing stored: nothing to answer for
		}
		return hit
	}
	h, _, _ := certOf(hi)
	switch {
	case !hit || rd == "ok":
		w.loadMax = h
		if got := int(w.p.ctrl.Height); got != h {
			w.res.Violate("restart-lost-highest", fmt.Sprintf("after restart the controller is at height %d, the stored highest decided instance has height %d", got, h), w.beh, w.step)
		}
	case rd == "empty":
		// the database denied the record: no code can tell this from a first start (observation only)
		w.load, w.loadDenied = "empty", h
		w.res.Counters["obs_restart_on_empty_highest_read"]++
		return hit
	default: // "err", "garbage": LoadHighestInstance returned an error
		w.loadMax = h
		if w.p.startErr != nil {
			// Start refused: fine (the property allows refusing to start / retrying). Duties reach OnExecuteDuty,
			// which retries Start.
			w.res.Counters["restarts_refused_after_failed_highest_read"]++
			return hit
		}
		w.load = "err"
	}
	// a second, throw-away reopen of the same database (with the same read outcome) must refuse every duty up to the
	// stored highest height
	probe, _ := w.boot(true, rd)
	for s := 0; s <= h && s <= maxH; s++ {
		duty := msgsFor(s).duty
		if err := probe.v.ProcessMessage(logger, executeDutyMsg(&duty)); err == nil {
			if w.load == "err" {
				w.res.Violate("height-rerun-after-failed-highest-read", fmt.Sprintf("a validator reopened on the stored highest decided height %d, whose LoadHighestInstance returned an error (%s) and which Validator.Start started nevertheless, accepted the duty of slot %d", h, rd, s), w.beh, w.step)
			} else {
				w.res.Violate("restart-lost-highest", fmt.Sprintf("a runner reopened on the stored highest decided height %d accepted the duty of slot %d", h, s), w.beh, w.step)
			}
		}
	}
	w.res.Counters["restart_probes"]++
	return hit
}

func replay(b vh.Behaviour, res *vh.Result) {
	if len(b.Steps) == 0 {
		return
	}
	full := vh.Bool(b.Steps[0].Act, "full")
	w := newWorld(full, res, b.ID)
	nontrivial := false
	for i, st := range b.Steps {
		w.step = i
		a := st.Act
		switch name := vh.Str(a, "name"); name {
		case "init":
		case "StartDuty":
			err := w.startDuty(vh.Int(a, "slot"))
			if (err == nil) != vh.Bool(a, "ok") {
				res.Diverge(b.ID, i, "StartDuty.ok", vh.Bool(a, "ok"), fmt.Sprint(err))
			}
		case "CtlStart":
			err := w.ctlStart(vh.Int(a, "slot"))
			if (err == nil) != vh.Bool(a, "ok") {
				res.Diverge(b.ID, i, "CtlStart.ok", vh.Bool(a, "ok"), fmt.Sprint(err))
			}
		case "LocalMsgs":
			plan := vh.Ints(a, "fail")
			if fired := w.faulty(plan, func() { w.localMsgs(vh.Int(a, "h")) }); len(fired) != len(plan) {
				res.Diverge(b.ID, i, "LocalMsgs.fail", plan, fired) // a write the spec expects was not attempted
			}
			nontrivial = true
		case "Commit4":
			_ = w.deliver(msgsFor(vh.Int(a, "h")).c4, "commit message")
		case "Decided":
			plan, reads := vh.Ints(a, "fail"), readPlan(vh.Str(a, "rd"))
			fired, rfired := w.faultyRW(plan, reads, func() { _ = w.decided(vh.Int(a, "h"), vh.Int(a, "r"), vh.Int(a, "n")) })
			if len(fired) != len(plan) {
				res.Diverge(b.ID, i, "Decided.fail", plan, fired)
			}
			if len(rfired) != len(reads) {
				res.Diverge(b.ID, i, "Decided.rd", reads, rfired) // a read the spec expects was not made
			}
			nontrivial = true
		case "DecidedCrash":
			h, r, n, k := vh.Int(a, "h"), vh.Int(a, "r"), vh.Int(a, "n"), vh.Int(a, "k")
			if !w.crashing(k, vh.Str(a, "brd"), func() { _ = w.decided(h, r, n) }) {
				res.Diverge(b.ID, i, "DecidedCrash.fired", true, false) // fewer writes than the spec expects
				w.restart(vh.Str(a, "brd"))
			}
			nontrivial = true
		case "LocalMsgsCrash":
			h, k := vh.Int(a, "h"), vh.Int(a, "k")
			if !w.crashing(k, vh.Str(a, "brd"), func() { w.localMsgs(h) }) {
				res.Diverge(b.ID, i, "LocalMsgsCrash.fired", true, false)
				w.restart(vh.Str(a, "brd"))
			}
			nontrivial = true
		case "OnTimeout":
			w.onTimeout(vh.Int(a, "h"), vh.Int(a, "r"))
		case "Restart":
			w.restart(vh.Str(a, "brd"))
			nontrivial = true
		default:
			panic("unknown action " + name)
		}
		if st.State != nil && i > 0 {
			nm := vh.Str(a, "name")
			w.readHist = i == len(b.Steps)-1 || nm == "Restart" || nm == "DecidedCrash" || nm == "LocalMsgsCrash"
			w.compare(specObs(st.State), w.observe())
		}
	}
	res.Behaviours++
	res.Steps += len(b.Steps)
	if nontrivial {
		res.Nontrivial++
	}
}

// ---- own seeded executions on the real code, recorded for ControllerTrace.tla ----

func summary(o obs) map[string]any {
	st := []any{}
	for _, i := range o.Stored {
		st = append(st, map[string]any{"h": i.H, "dec": i.Dec, "round": i.Round})
	}
	hist := []any{}
	for h := 0; h <= maxH; h++ {
		r := o.Hist[h]
		hist = append(hist, map[string]any{"h": r.H, "cr": r.Cr, "n": r.N})
	}
	return map[string]any{"height": o.Height, "stored": st, "has": o.Has, "run": o.Run,
		"hi": map[string]any{"h": o.Hi.H, "cr": o.Hi.Cr, "n": o.Hi.N}, "hist": hist}
}

func record(path string, seed int64, runs int, full bool, res *vh.Result) {
	tw, err := vh.NewTraceWriter(path)
	if err != nil {
		panic(err)
	}
	rng := rand.New(rand.NewSource(seed))
	for k := 0; k < runs; k++ {
		beh := fmt.Sprintf("own-%d", k)
		w := newWorld(full, res, beh)
		tw.Emit(map[string]any{"event": "Reset", "full": full})
		nsteps := 6 + rng.Intn(12)
		restartsLeft := 3
		faultsLeft := 3     // MaxWriteFaults of ControllerTrace_*.cfg
		readFaultsLeft := 3 // MaxReadFaults of ControllerTrace_*.cfg
		kinds := []string{"err", "empty", "garbage"}
		// the outcome forced on the storage read of a restart (mostly none)
		bootRead := func() string {
			if readFaultsLeft == 0 || rng.Intn(4) != 0 {
				return "ok"
			}
			return kinds[rng.Intn(3)]
		}
		// the same for the (at most one) storage read of a decided message; only logged when it was hit
		callRead := func() []string {
			if readFaultsLeft == 0 || rng.Intn(6) != 0 {
				return nil
			}
			return []string{kinds[rng.Intn(3)]}
		}
		rfailOf := func(rd string, hit bool) []string {
			if rd == "ok" || !hit {
				return []string{}
			}
			readFaultsLeft--
			return []string{rd}
		}
		// a random plan of failing write attempts for one call (mostly none); only the attempts that were hit are logged
		faultPlan := func() []int {
			if faultsLeft == 0 || rng.Intn(4) != 0 {
				return nil
			}
			plan := []int{1 + rng.Intn(4)}
			if faultsLeft > 1 && rng.Intn(3) == 0 {
				if b := 1 + rng.Intn(4); b != plan[0] {
					plan = append(plan, b)
				}
			}
			return plan
		}
		for s := 0; s < nsteps; s++ {
			w.step = s
			ev := map[string]any{}
			c := w.p.ctrl
			cur := int(c.Height)
			inst := c.StoredInstances.FindInstance(c.Height)
			x := rng.Intn(100)
			switch {
			case x < 22:
				slot := rng.Intn(maxH + 1)
				err := w.startDuty(slot)
				ev = map[string]any{"event": "StartDuty", "slot": slot, "ok": err == nil}
			case x < 30:
				slot := rng.Intn(maxH + 1)
				err := w.ctlStart(slot)
				ev = map[string]any{"event": "CtlStart", "slot": slot, "ok": err == nil}
			case x < 45 && inst != nil && inst.StartValue != nil && inst.CanProcessMessages() && inst.State.ProposalAcceptedForCurrentRound == nil:
				ev = map[string]any{"event": "LocalMsgs", "h": cur, "fail": []int{}}
				feed := func() { w.localMsgs(cur) }
				if k := rng.Intn(2); restartsLeft > 0 && rng.Intn(4) == 0 {
					brd := bootRead()
					if w.crashing(k, brd, feed) { // the process died before its (k+1)-th database write
						restartsLeft--
						ev = map[string]any{"event": "LocalMsgsCrash", "h": cur, "k": k, "rfail": rfailOf(brd, w.bootHit)}
					}
				} else {
					fired := w.faulty(faultPlan(), feed)
					faultsLeft -= len(fired)
					ev["fail"] = fired
				}
			case x < 52 && inst != nil && inst.State.ProposalAcceptedForCurrentRound != nil && inst.State.Round == 1 && inst.CanProcessMessages() && !hasSingle(inst, 4):
				_ = w.deliver(msgsFor(cur).c4, "commit message")
				ev = map[string]any{"event": "Commit4", "h": cur}
			case x < 82:
				h, r, n := rng.Intn(maxH+1), 1+rng.Intn(2), 3+rng.Intn(2)
				ev = map[string]any{"event": "Decided", "h": h, "r": r, "n": n, "fail": []int{}, "rfail": []string{}}
				if k := rng.Intn(2); restartsLeft > 0 && rng.Intn(4) == 0 {
					brd := bootRead()
					if w.crashing(k, brd, func() { _ = w.decided(h, r, n) }) {
						restartsLeft--
						ev = map[string]any{"event": "DecidedCrash", "h": h, "r": r, "n": n, "k": k, "rfail": rfailOf(brd, w.bootHit)}
					}
				} else {
					fired, rfired := w.faultyRW(faultPlan(), callRead(), func() { _ = w.decided(h, r, n) })
					faultsLeft -= len(fired)
					readFaultsLeft -= len(rfired)
					ev["fail"] = fired
					ev["rfail"] = rfired
				}
			case x < 90:
				h, r := rng.Intn(maxH+1), 1+rng.Intn(2)
				if i := c.StoredInstances.FindInstance(specqbft.Height(h)); i != nil && r >= int(i.State.Round) && !i.State.Decided && i.CanProcessMessages() && i.State.Round >= 2 {
					r = 1 // keep live timeouts inside the spec's two rounds
				}
				w.onTimeout(h, r)
				ev = map[string]any{"event": "OnTimeout", "h": h, "r": r}
			case restartsLeft > 0:
				restartsLeft--
				brd := bootRead()
				hit := w.restart(brd)
				ev = map[string]any{"event": "Restart", "rfail": rfailOf(brd, hit)}
			default:
				continue
			}
			w.readHist = true
			ev["obs"] = summary(w.observe())
			tw.Emit(ev)
			res.Steps++
		}
		res.Behaviours++
		res.Nontrivial++
	}
	if err := tw.Close(); err != nil {
		panic(err)
	}
	res.Counters["recorded_events"] = tw.N
}

func hasSingle(i *instance.Instance, id spectypes.OperatorID) bool {
	for _, m := range i.State.CommitContainer.Msgs[1] {
		if len(m.Signers) == 1 && m.Signers[0] == id {
			return true
		}
	}
	return false
}

func main() {
	mode := flag.String("mode", "replay", "replay | record")
	in := flag.String("in", "", "behaviours NDJSON (replay)")
	out := flag.String("out", "", "result JSON")
	trace := flag.String("trace", "", "trace NDJSON to write (record)")
	seed := flag.Int64("seed", 1, "seed")
	runs := flag.Int("runs", 100, "number of own executions")
	flag.IntVar(&maxH, "maxh", 3, "highest height / slot")
	full := flag.Bool("full", false, "record mode: full node")
	prof := flag.String("cpuprofile", "", "write a CPU profile")
	flag.Parse()
	if *prof != "" {
		f, _ := os.Create(*prof)
		_ = pprof.StartCPUProfile(f)
		defer pprof.StopCPUProfile()
	}
	res := vh.NewResult()
	switch *mode {
	case "replay":
		behs, err := vh.ReadBehaviours(*in)
		if err != nil {
			fmt.Fprintln(os.Stderr, err)
			os.Exit(3)
		}
		for _, b := range behs {
			if res.Counters["violations"] > 40 && (len(b.ID) < 6 || (b.ID[:6] != "attack" && b.ID[:6] != "findin")) {
				continue // enough evidence; attack and finding traces are still replayed
			}
			replay(b, res)
		}
		if len(behs) > 0 {
			res.Samples = append(res.Samples, behs[len(behs)/2])
		}
	case "record":
		record(*trace, *seed, *runs, *full, res)
	}
	if err := res.Write(*out); err != nil {
		fmt.Fprintln(os.Stderr, err)
		os.Exit(3)
	}
}
