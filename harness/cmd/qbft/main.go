// Driver for spec/QBFT.tla (and QBFTCont.tla): replays TLC behaviours on real controllers/instances
// (protocol/v2/qbft), compares the projected real state with the spec state after every step, and evaluates
// the monitors of C01 (agreement), C02 (certificates) and C07 (timeout step, termination of continuations)
// on the real objects. Violation signatures are prefixed with the property they belong to.
package main

import (
	"flag"
	"fmt"
	"os"
	"reflect"
	"sort"
	"strconv"
	"strings"

	specqbft "github.com/bloxapp/ssv-spec/qbft"
	spectypes "github.com/bloxapp/ssv-spec/types"

	kit "verif/harness/qbftkit"
	"verif/harness/vh"
)

type run struct {
	w       *kit.World
	res     *vh.Result
	b       vh.Behaviour
	step    int
	decided map[kit.OpID]string // first decided value seen per operator (real)
	attack  bool
	faulty  bool // broadcast errors are injected: a processing call may return that error
}

func toInt(v any) int {
	if f, ok := v.(float64); ok {
		return int(f)
	}
	return 0
}

func newRun(b vh.Behaviour, res *vh.Result) *run {
	p := b.Params
	n := toInt(p["N"])
	if n == 0 {
		n = 4
	}
	var byz []int
	for _, x := range vh.List(p, "Byz") {
		byz = append(byz, toInt(x))
	}
	sv := map[int]string{}
	if m := vh.Map(p, "StartValue"); m != nil {
		for k, v := range m {
			var i int
			fmt.Sscanf(k, "%d", &i)
			sv[i], _ = v.(string)
		}
	}
	for i := 1; i <= n; i++ {
		if sv[i] == "" {
			sv[i] = "b"
			if i == 1 {
				sv[i] = "a"
			}
		}
	}
	height := uint64(toInt(p["LeaderOffset"]))
	kit.LocalBad = map[kit.OpID]map[string]bool{}
	if lb, ok := p["LocalBad"].(map[string]any); ok {
		for k, vs := range lb {
			idn, _ := strconv.Atoi(k)
			id := kit.OpID(idn)
			kit.LocalBad[id] = map[string]bool{}
			if l, ok := vs.([]any); ok {
				for _, v := range l {
					kit.LocalBad[id][fmt.Sprint(v)] = true
				}
			}
		}
	}
	w := kit.NewWorld(n, byz, height, sv, spectypes.BNRoleAttester)
	r := &run{w: w, res: res, b: b, decided: map[kit.OpID]string{}, attack: strings.HasPrefix(b.Kind, "attack")}
	// fault injection on the network interface: the publish call errors although the message went out
	switch fb := vh.Str(p, "failBroadcasts"); fb {
	case "":
	case "all":
		w.FailBroadcast = func(kit.OpID, *specqbft.SignedMessage) bool { return true }
		r.faulty = true
	default:
		types := map[string]specqbft.MessageType{"proposal": specqbft.ProposalMsgType, "prepare": specqbft.PrepareMsgType,
			"commit": specqbft.CommitMsgType, "rc": specqbft.RoundChangeMsgType}
		t := types[fb]
		w.FailBroadcast = func(_ kit.OpID, m *specqbft.SignedMessage) bool { return m.Message.MsgType == t && len(m.Signers) == 1 }
		r.faulty = true
	}
	return r
}

func (r *run) violate(sig, desc string) {
	r.res.Violate(sig, desc, r.b.ID, r.step)
}

func (r *run) diverge(field string, spec, real any) {
	r.res.Diverge(r.b.ID, r.step, field, spec, real)
}

// deliver + C02 monitor on whatever the controller reports
func (r *run) deliver(to kit.OpID, m *specqbft.SignedMessage, what string, expectOK bool) {
	if m == nil {
		r.diverge(what+".message", "emitted by an honest operator (spec)", "not found among real broadcasts")
		return
	}
	before := r.w.Project(to)
	dec, err := r.w.Deliver(to, m)
	after := r.w.Project(to)
	if expectOK && err != nil {
		r.diverge(what+".accepted", true, err.Error())
	}
	if !before.Decided && after.Decided {
		// an operator just reported a decision: it must come with a verifiable certificate
		if dec == nil {
			r.violate("C02:decided-without-certificate", fmt.Sprintf("operator %d became decided on %s by %s and reported no certificate", to, after.Dval, what))
		}
	}
	if dec != nil {
		if why := r.w.VerifyCert(dec); why != "" {
			r.violate("C02:invalid-certificate", fmt.Sprintf("operator %d reported a decision whose certificate does not verify (%s) after %s", to, why, what))
		}
		if after.Decided && kit.ValueName(dec.FullData) != after.Dval {
			r.violate("C02:certificate-value-mismatch", fmt.Sprintf("operator %d decided %s but its certificate carries %s", to, after.Dval, kit.ValueName(dec.FullData)))
		}
		if len(m.Signers) == 1 { // locally reached decision
			if kit.ValueCheckFor(to, dec.FullData) != nil {
				r.violate("C02:local-decision-on-invalid-value", fmt.Sprintf("operator %d decided locally on a value that fails its value check", to))
			}
			if inst := r.w.Instance(to); inst != nil && inst.State.ProposalAcceptedForCurrentRound != nil {
				p := inst.State.ProposalAcceptedForCurrentRound
				leader := specqbft.RoundRobinProposer(inst.State, p.Message.Round)
				if len(p.Signers) != 1 || p.Signers[0] != leader {
					r.violate("C02:local-decision-not-from-leader", fmt.Sprintf("operator %d decided locally on a proposal of %v, leader of round %d is %d", to, p.Signers, p.Message.Round, leader))
				}
			}
		}
	}
}

func sortedIDs(xs []int) []kit.OpID {
	sort.Ints(xs)
	out := make([]kit.OpID, len(xs))
	for i, x := range xs {
		out[i] = kit.OpID(x)
	}
	return out
}

func (r *run) apply(a map[string]any) {
	w := r.w
	name := vh.Str(a, "name")
	to := kit.OpID(vh.Int(a, "to"))
	from := kit.OpID(vh.Int(a, "from"))
	round := vh.Int(a, "round")
	value := vh.Str(a, "value")
	ok := !r.attack && !r.faulty
	switch name {
	case "init", "Switch":
	case "Start":
		if err := w.Start(to); err != nil {
			r.diverge("start", "ok", err.Error())
		}
	case "RecvProposal":
		r.deliver(to, w.FindProposal(from, round, value), name, ok)
	case "RecvByzProposal":
		m, err := w.ByzProposal(from, round, value)
		if err != nil {
			r.diverge("byzProposal", "justifiable (spec)", err.Error())
			return
		}
		r.deliver(to, m, name, ok)
	case "RecvSubstProposal":
		// an honest leader's proposal relayed with substituted FullData (not covered by the signature): the faithful
		// spec refuses it (stuttering step), so acceptance is never expected; a decision reached on top of it is
		// judged by the certificate monitor of deliver()
		m := w.FindProposal(from, round, value)
		if m == nil {
			r.diverge(name+".message", "emitted by an honest operator (spec)", "not found among real broadcasts")
			return
		}
		c := kit.CloneMsg(m)
		c.FullData = kit.Value(vh.Str(a, "data"))
		r.deliver(to, c, name, false)
	case "RecvPrepare":
		r.deliver(to, w.FindSimple(specqbft.PrepareMsgType, from, round, value), name, ok)
	case "RecvByzPrepare":
		r.deliver(to, w.ByzPrepare(from, round, value), name, ok)
	case "RecvCommit":
		r.deliver(to, w.FindSimple(specqbft.CommitMsgType, from, round, value), name, ok)
	case "RecvByzCommit":
		r.deliver(to, w.ByzCommit(from, round, value), name, ok)
	case "PrepareQuorum", "CommitQuorum":
		typ := specqbft.PrepareMsgType
		if name == "CommitQuorum" {
			typ = specqbft.CommitMsgType
		}
		for _, s := range sortedIDs(vh.Ints(a, "signers")) {
			if w.Byz[s] {
				if typ == specqbft.PrepareMsgType {
					r.deliver(to, w.ByzPrepare(s, round, value), name, ok)
				} else {
					r.deliver(to, w.ByzCommit(s, round, value), name, ok)
				}
			} else {
				r.deliver(to, w.FindSimple(typ, s, round, value), name, ok)
			}
		}
	case "RecvRC":
		r.deliver(to, w.FindRC(from, round, vh.Int(a, "pr"), vh.Str(a, "pv")), name, ok)
	case "RecvByzRC":
		m, err := w.ByzRC(from, round, vh.Int(a, "pr"), vh.Str(a, "pv"))
		if err != nil {
			r.diverge("byzRC", "constructible (spec)", err.Error())
			return
		}
		r.deliver(to, m, name, ok)
	case "Timeout", "ContTimeout":
		before := w.Project(to)
		poolBefore := len(w.Pool)
		// the event the real timer would deliver: for the round it was last armed for
		err := w.TimeoutArmed(to)
		after := w.Project(to)
		if err != nil && !r.faulty {
			r.diverge("timeout", "ok", err.Error())
		}
		// C07 (3): before the cut-off a round timeout moves to the next round and announces it
		if before.Started && !before.Decided && before.Round < 14 {
			announced := false
			for _, e := range w.Pool[poolBefore:] {
				if e.From == to && e.Msg.Message.MsgType == specqbft.RoundChangeMsgType && int(e.Msg.Message.Round) == before.Round+1 {
					announced = true
				}
			}
			if after.Round != before.Round+1 || !announced || after.AccValue != "none" {
				r.violate("C07:timeout-step", fmt.Sprintf("operator %d timed out in round %d: round now %d, round-change for %d announced=%v, accepted proposal now %s",
					to, before.Round, after.Round, before.Round+1, announced, after.AccValue))
			}
		}
	case "RecvRelabeled":
		// prepares the operator already verified, re-labelled as commits with the same signature bytes
		for _, s := range sortedIDs(vh.Ints(a, "signers")) {
			p := w.FindSimple(specqbft.PrepareMsgType, s, round, value)
			if p == nil {
				continue
			}
			c := &specqbft.SignedMessage{Signature: append([]byte{}, p.Signature...), Signers: []kit.OpID{s}, Message: p.Message}
			c.Message.MsgType = specqbft.CommitMsgType
			before := w.Project(to)
			dec, err := w.Deliver(to, c)
			after := w.Project(to)
			if err == nil && (dec != nil || !reflect.DeepEqual(before, after)) {
				r.violate("C02:signature-accepted-for-another-message", fmt.Sprintf("operator %d accepted a commit carrying the signature operator %d made over its prepare", to, s))
			}
			if dec != nil {
				if why := w.VerifyCert(dec); why != "" {
					r.violate("C02:invalid-certificate", fmt.Sprintf("operator %d reported a decision whose certificate does not verify (%s) after re-labelled prepares", to, why))
				}
			}
		}
	case "RecvDecided", "ContDecided":
		signers := sortedIDs(vh.Ints(a, "signers"))
		m := w.Cert(signers, round, value)
		if m == nil {
			r.diverge("cert", "assemblable from real commits (spec)", "an honest member's commit is missing")
			return
		}
		r.deliver(to, m, name, ok)
	case "RecvForgedDecided":
		kind := vh.Str(a, "kind")
		before := w.Project(to)
		m := w.ForgedCert(kind, round, value)
		dec, err := w.Deliver(to, m)
		after := w.Project(to)
		legit := w.VerifyCert(m) == ""
		if !legit && (dec != nil || (!before.Decided && after.Decided) || (after.Decided && after.Dval != before.Dval)) {
			r.violate("C02:forged-certificate-accepted", fmt.Sprintf("operator %d accepted a forged decided message of kind %s for value %s (err=%v)", to, kind, value, err))
		}
		if !legit && err == nil && !reflect.DeepEqual(before, after) {
			r.violate("C02:forged-certificate-changed-state", fmt.Sprintf("operator %d changed state on a forged decided message of kind %s", to, kind))
		}
	case "ContDeliver":
		typ := vh.Str(a, "type")
		var m *specqbft.SignedMessage
		switch typ {
		case "proposal":
			m = w.FindProposal(from, round, value)
		case "prepare":
			m = w.FindSimple(specqbft.PrepareMsgType, from, round, value)
		case "commit":
			m = w.FindSimple(specqbft.CommitMsgType, from, round, value)
		case "rc":
			m = w.FindRC(from, round, vh.Int(a, "pr"), vh.Str(a, "pv"))
		}
		r.deliver(to, m, name+":"+typ, ok)
	default:
		panic("unknown action " + name)
	}
}

// monitors evaluated on the real objects after every step
func (r *run) monitors() {
	w := r.w
	vals := map[string][]kit.OpID{}
	for _, i := range w.Honest {
		n := w.Project(i)
		if !n.Decided {
			continue
		}
		vals[n.Dval] = append(vals[n.Dval], i)
		if prev, ok := r.decided[i]; ok && prev != n.Dval {
			r.violate("C01:decided-value-changed", fmt.Sprintf("operator %d had decided %s and now reports %s", i, prev, n.Dval))
		}
		r.decided[i] = n.Dval
	}
	if len(vals) > 1 {
		r.violate("C01:disagreement", fmt.Sprintf("correct operators decided different values: %v", vals))
	}
}

func specNode(st map[string]any, i kit.OpID) (kit.Node, bool) {
	m := vh.Map(st, fmt.Sprint(i))
	if m == nil {
		return kit.Node{}, false
	}
	acc := vh.Map(m, "acc")
	n := kit.Node{Started: vh.Bool(m, "started") || vh.Bool(m, "decided"), Round: vh.Int(m, "round"), AccRound: vh.Int(acc, "round"),
		AccValue: vh.Str(acc, "value"), Lpr: vh.Int(m, "lpr"), Lpv: vh.Str(m, "lpv"), Decided: vh.Bool(m, "decided"), Dval: vh.Str(m, "dval")}
	for _, x := range vh.List(m, "prep") {
		e := x.(map[string]any)
		n.Prep = append(n.Prep, fmt.Sprintf("%d@%d=%s", vh.Int(e, "signer"), vh.Int(e, "round"), vh.Str(e, "value")))
	}
	for _, x := range vh.List(m, "comm") {
		e := x.(map[string]any)
		n.Comm = append(n.Comm, fmt.Sprintf("%d@%d=%s", vh.Int(e, "signer"), vh.Int(e, "round"), vh.Str(e, "value")))
	}
	for _, x := range vh.List(m, "rc") {
		e := x.(map[string]any)
		n.RC = append(n.RC, fmt.Sprintf("%d@%d:%d=%s", vh.Int(e, "signer"), vh.Int(e, "round"), vh.Int(e, "pr"), vh.Str(e, "pv")))
	}
	sort.Strings(n.Prep)
	sort.Strings(n.Comm)
	sort.Strings(n.RC)
	return n, true
}

func (r *run) compare(st map[string]any) {
	if st == nil {
		return
	}
	for _, i := range r.w.Honest {
		sn, ok := specNode(st, i)
		if !ok {
			continue
		}
		rn := r.w.Project(i)
		if !rn.Started && !sn.Started {
			continue
		}
		// a decided-by-certificate instance that was never started: compare the decision only
		if sn.Round != rn.Round {
			r.diverge(fmt.Sprintf("st[%d].round", i), sn.Round, rn.Round)
		}
		if sn.AccValue != rn.AccValue || (sn.AccValue != "none" && sn.AccRound != rn.AccRound) {
			r.diverge(fmt.Sprintf("st[%d].acc", i), fmt.Sprintf("%d:%s", sn.AccRound, sn.AccValue), fmt.Sprintf("%d:%s", rn.AccRound, rn.AccValue))
		}
		if sn.Lpr != rn.Lpr || sn.Lpv != rn.Lpv {
			r.diverge(fmt.Sprintf("st[%d].lastPrepared", i), fmt.Sprintf("%d:%s", sn.Lpr, sn.Lpv), fmt.Sprintf("%d:%s", rn.Lpr, rn.Lpv))
		}
		if sn.Decided != rn.Decided || sn.Dval != rn.Dval {
			r.diverge(fmt.Sprintf("st[%d].decided", i), fmt.Sprintf("%v:%s", sn.Decided, sn.Dval), fmt.Sprintf("%v:%s", rn.Decided, rn.Dval))
		}
		if !sn.Decided {
			if !reflect.DeepEqual(sn.Prep, rn.Prep) && !(len(sn.Prep) == 0 && len(rn.Prep) == 0) {
				r.diverge(fmt.Sprintf("st[%d].prepares", i), sn.Prep, rn.Prep)
			}
			if !reflect.DeepEqual(sn.RC, rn.RC) && !(len(sn.RC) == 0 && len(rn.RC) == 0) {
				r.diverge(fmt.Sprintf("st[%d].roundChanges", i), sn.RC, rn.RC)
			}
		}
	}
}

func replay(b vh.Behaviour, res *vh.Result, cont bool) {
	r := newRun(b, res)
	nontrivial := false
	macro := false
	contStart := -1
	for i, st := range b.Steps {
		r.step = i
		name := vh.Str(st.Act, "name")
		if name == "PrepareQuorum" || name == "CommitQuorum" {
			macro = true
		}
		if name == "Switch" {
			contStart = 0
			for _, h := range r.w.Honest {
				if n := r.w.Project(h); n.Round > contStart {
					contStart = n.Round
				}
			}
		}
		r.apply(st.Act)
		r.monitors()
		if !r.attack {
			_ = macro
			r.compare(vh.Map(st.State, "st"))
		}
		if strings.HasPrefix(name, "Recv") || strings.HasSuffix(name, "Quorum") {
			nontrivial = true
		}
	}
	if cont && contStart >= 0 && !r.attack {
		// C07 (1): the replayed witness continuation must end with every correct operator decided
		undecided := []kit.OpID{}
		maxRound := 0
		for _, h := range r.w.Honest {
			n := r.w.Project(h)
			if !n.Decided {
				undecided = append(undecided, h)
			}
			if n.Round > maxRound {
				maxRound = n.Round
			}
		}
		res.Counters["continuations"]++
		if len(undecided) == 0 {
			res.Counters["continuations_decided"]++
		} else if vh.Bool(b.Params, "expectDecided") {
			sig := "C07:continuation-did-not-decide"
			if conflictingLocks(r.w) {
				sig = "C07:wedge-conflicting-prepared-values"
			}
			r.violate(sig, fmt.Sprintf("after the witness continuation (switch at round %d, now round %d) operators %v are undecided", contStart, maxRound, undecided))
		}
	}
	if vh.Bool(b.Params, "expectSyncDecided") {
		// C07 (2): fault-free synchronous run - everybody decides in round 1 on the leader's value
		leader := kit.OpID((toInt(b.Params["LeaderOffset"]) % r.w.N) + 1)
		want := r.w.StartVal[leader]
		for _, h := range r.w.Honest {
			if n := r.w.Project(h); !n.Decided || n.Round != 1 || n.Dval != want {
				r.violate("C07:sync-run-not-decided-in-first-round", fmt.Sprintf("fault-free synchronous run, leader %d value %s: operator %d decided=%v round=%d value=%s",
					leader, want, h, n.Decided, n.Round, n.Dval))
			}
		}
		res.Counters["sync_runs"]++
	}
	res.Behaviours++
	res.Steps += len(b.Steps)
	if nontrivial {
		res.Nontrivial++
	}
}

func conflictingLocks(w *kit.World) bool {
	vals := map[string]bool{}
	for _, h := range w.Honest {
		n := w.Project(h)
		if n.Lpr != 0 {
			vals[n.Lpv] = true
		}
	}
	return len(vals) > 1
}

func main() {
	in := flag.String("in", "", "behaviours NDJSON")
	out := flag.String("out", "", "result JSON")
	cont := flag.Bool("cont", false, "behaviours come from QBFTCont (check termination of continuations)")
	search := flag.Bool("search", false, "treat every behaviour as an asynchronous prefix and search a deciding timely continuation (C07)")
	seed := flag.Int64("seed", 1, "seed for the random continuation orders")
	flag.Parse()
	res := vh.NewResult()
	behs, err := vh.ReadBehaviours(*in)
	if err != nil {
		fmt.Fprintln(os.Stderr, err)
		os.Exit(3)
	}
	for k, b := range behs {
		if *search {
			searchContinuation(b, res, *seed+int64(k))
			res.Behaviours++
			res.Steps += len(b.Steps)
			res.Nontrivial++
			continue
		}
		replay(b, res, *cont)
		kit.CloseAll()
	}
	if len(behs) > 0 {
		res.Samples = append(res.Samples, behs[len(behs)/2])
	}
	if err := res.Write(*out); err != nil {
		fmt.Fprintln(os.Stderr, err)
		os.Exit(3)
	}
}
