package main

import (
	"fmt"
	"math/rand"
	"sort"

	specqbft "github.com/bloxapp/ssv-spec/qbft"

	kit "verif/harness/qbftkit"
	"verif/harness/vh"
)

// The driver's own family of timely continuations among the correct operators (C07 (1)): after an asynchronous
// prefix has been replayed on the real controllers, everything the correct operators broadcast is delivered to
// all of them within the round, timers of a round fire together, the Byzantine members stay silent.
// Strategies differ in the delivery order of round-changes (the leader only proposes a prepared value when the
// quorum-completing round-change carries it, so the order matters).

type strategy struct {
	name string
	// orders the round-change messages destined to one operator
	order func(rcs []*kit.Emitted, rng *rand.Rand)
}

func strategies() []strategy {
	byPrepared := func(asc bool) func([]*kit.Emitted, *rand.Rand) {
		return func(rcs []*kit.Emitted, _ *rand.Rand) {
			sort.SliceStable(rcs, func(a, b int) bool {
				pa, pb := rcs[a].Msg.Message.DataRound, rcs[b].Msg.Message.DataRound
				if pa != pb {
					return (pa < pb) == asc
				}
				return rcs[a].From < rcs[b].From
			})
		}
	}
	return []strategy{
		{"unprepared-first", byPrepared(true)},
		{"prepared-first", byPrepared(false)},
		{"fifo", func(rcs []*kit.Emitted, _ *rand.Rand) {
			sort.SliceStable(rcs, func(a, b int) bool { return rcs[a].Seq < rcs[b].Seq })
		}},
		{"lifo", func(rcs []*kit.Emitted, _ *rand.Rand) {
			sort.SliceStable(rcs, func(a, b int) bool { return rcs[a].Seq > rcs[b].Seq })
		}},
		{"random", func(rcs []*kit.Emitted, rng *rand.Rand) {
			rng.Shuffle(len(rcs), func(a, b int) { rcs[a], rcs[b] = rcs[b], rcs[a] })
		}},
	}
}

type delivered map[kit.OpID]map[int]bool

func (d delivered) done(to kit.OpID, seq int) bool {
	if d[to] == nil {
		d[to] = map[int]bool{}
	}
	if d[to][seq] {
		return true
	}
	d[to][seq] = true
	return false
}

func allDecided(w *kit.World) bool {
	for _, h := range w.Honest {
		if !w.Project(h).Decided {
			return false
		}
	}
	return true
}

// runContinuation drives the world for at most `rounds` further rounds. Returns (all decided, rounds used).
func runContinuation(w *kit.World, s strategy, rng *rand.Rand, rounds int) (bool, int) {
	d := delivered{}
	for _, h := range w.Honest {
		if w.Instance(h) == nil {
			_ = w.Start(h)
		}
	}
	startMax := 0
	for _, h := range w.Honest {
		if n := w.Project(h); n.Round > startMax {
			startMax = n.Round
		}
	}
	deliverNonRC := func() {
		for progress := true; progress; {
			progress = false
			for k := 0; k < len(w.Pool); k++ {
				e := w.Pool[k]
				if e.Msg.Message.MsgType == specqbft.RoundChangeMsgType && len(e.Msg.Signers) == 1 {
					continue
				}
				for _, to := range w.Honest {
					if d.done(to, e.Seq) {
						continue
					}
					before := len(w.Pool)
					_, _ = w.Deliver(to, e.Msg)
					if len(w.Pool) != before {
						progress = true
					}
				}
			}
		}
	}
	for r := 0; r <= rounds; r++ {
		deliverNonRC()
		if allDecided(w) {
			return true, r
		}
		if r == rounds {
			break
		}
		// all timers of the round fire together: every undecided operator below or at the current maximum times out
		curMax := 0
		for _, h := range w.Honest {
			if n := w.Project(h); !n.Decided && n.Round > curMax {
				curMax = n.Round
			}
		}
		for _, h := range w.Honest {
			for n := w.Project(h); !n.Decided && n.Round <= curMax; n = w.Project(h) {
				if err := w.TimeoutArmed(h); err != nil {
					break
				}
				if w.Project(h).Round == n.Round {
					break
				}
			}
		}
		// then the round-changes, per destination in the strategy's order
		for _, to := range w.Honest {
			var rcs []*kit.Emitted
			for _, e := range w.Pool {
				if e.Msg.Message.MsgType == specqbft.RoundChangeMsgType && len(e.Msg.Signers) == 1 && !d[to][e.Seq] {
					rcs = append(rcs, e)
				}
			}
			s.order(rcs, rng)
			for _, e := range rcs {
				if !d.done(to, e.Seq) {
					_, _ = w.Deliver(to, e.Msg)
				}
			}
		}
	}
	return allDecided(w), rounds
}

// searchContinuation replays the asynchronous prefix of b on fresh controllers once per strategy and reports whether
// SOME timely continuation lets every correct operator decide within f+3 further rounds.
func searchContinuation(b vh.Behaviour, res *vh.Result, seed int64) {
	prefix := b
	for i, st := range b.Steps {
		if vh.Str(st.Act, "name") == "Switch" {
			prefix.Steps = b.Steps[:i]
			break
		}
	}
	rng := rand.New(rand.NewSource(seed))
	var tried []string
	strats := strategies()
	for k := 0; k < 12; k++ {
		s := strats[len(strats)-1]
		if k < len(strats) {
			s = strats[k]
		}
		scratch := vh.NewResult()
		r := newRun(prefix, scratch)
		for i, st := range prefix.Steps {
			r.step = i
			r.apply(st.Act)
		}
		f := r.w.F
		ok, used := runContinuation(r.w, s, rng, f+3)
		res.Counters["continuation_runs"]++
		if ok {
			res.Counters["prefixes_with_deciding_continuation"]++
			if used > res.Counters["max_rounds_needed"] {
				res.Counters["max_rounds_needed"] = used
			}
			return
		}
		tried = append(tried, s.name)
		if k == 11 {
			sig := "C07:no-timely-continuation-decides"
			if conflictingLocks(r.w) {
				sig = "C07:wedge-conflicting-prepared-values"
			}
			res.Violate(sig, fmt.Sprintf("none of %d timely continuations (%v) over f+3=%d further rounds lets all correct operators decide", len(tried), tried, f+3), b.ID, len(prefix.Steps))
		}
	}
}
