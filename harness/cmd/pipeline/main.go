// Driver for spec/Pipeline.tla: the per-validator message pipeline (HandleMessage / ExecuteDuty / onTimeout -> queue ->
// ConsumeQueue -> ProcessMessage -> runner) on a REAL validator.Validator with the REAL consumer goroutines (world.go).
//
//	-mode replay   TLC behaviours (state-graph cover, simulation, counterexamples of the facts that do not hold) of the
//	               SeqHarness spec are stepped through the real validator: pushes through Validator.HandleMessage, the
//	               statement of controller.ExecuteDuty and the runner's TimeoutF (= Validator.onTimeout); the consumer
//	               goroutine is released one Pop / one handler call at a time.  After every step the real projection
//	               (queue lengths, consumer position, the message the real Pop returned, the snapshot probed from the
//	               prioritizer and filter the real ConsumeQueue built, the runner's state, the handler's error) is
//	               compared with the spec: mismatch = divergence.  The facts P1..P10 are evaluated on the REAL
//	               observations; a failing fact is an observation (never a verdict).
//	-mode record   seeded random executions with the consumer goroutines running FREELY and the real round timer firing
//	               on its own goroutine (VerifSetTimeouts: milliseconds); every TryPush, every Pop call and Pop return
//	               is recorded under one mutex for TLC trace validation (spec/PipelineTrace.tla).

package main

import (
	"encoding/json"
	"flag"
	"fmt"
	"math/rand"
	"os"
	"reflect"
	"sync"
	"time"

	"github.com/attestantio/go-eth2-client/spec/phase0"
	spectypes "github.com/bloxapp/ssv-spec/types"
	"github.com/herumi/bls-eth-go-binary/bls"

	opvalidator "github.com/bloxapp/ssv/operator/validator"

	"verif/harness/vh"
)

type blsSecretKey = bls.SecretKey

func createDutyExecuteMsg(duty *spectypes.Duty, pk phase0.BLSPubKey, domain spectypes.DomainType) (*spectypes.SSVMessage, error) {
	return opvalidator.CreateDutyExecuteMsg(duty, pk, domain)
}

const stepTimeout = 20 * time.Second

type agg struct {
	mu  sync.Mutex
	res *vh.Result
	obs map[string]any
}

func (a *agg) diverge(beh string, step int, field string, spec, real any) {
	a.mu.Lock()
	a.res.Diverge(beh, step, field, spec, real)
	a.mu.Unlock()
}
func (a *agg) count(k string, n int) {
	a.mu.Lock()
	a.res.Counters[k] += n
	a.mu.Unlock()
}
func (a *agg) observe(fact, beh string, step int, detail any) {
	a.mu.Lock()
	a.res.Counters["obs:"+fact]++
	key := fact
	if len(beh) > 4 && beh[:4] == "obs-" {
		key = fact + "@" + beh
	}
	if _, ok := a.obs[key]; !ok {
		a.obs[key] = map[string]any{"fact": fact, "behaviour": beh, "step": step, "real": detail}
	}
	a.mu.Unlock()
}

func js(v any) string {
	b, _ := json.Marshal(v)
	return string(b)
}

// ---------------------------------------------------------------------------------------------------------
// spec state (the `state` object of a behaviour step)

type specMsg struct {
	ID int     `json:"id"`
	C  content `json:"c"`
}

func msgsOf(v any) []specMsg {
	out := []specMsg{}
	l, _ := v.([]any)
	for _, x := range l {
		m, _ := x.(map[string]any)
		if m == nil {
			continue
		}
		cm, _ := m["c"].(map[string]any)
		out = append(out, specMsg{ID: vh.Int(m, "id"), C: contentOf(cm)})
	}
	return out
}

func specRunner(m map[string]any) runnerProj {
	p := runnerProj{Duty: vh.Int(m, "duty"), Fin: vh.Bool(m, "fin"), Dval: vh.Bool(m, "dval"), RunH: vh.Int(m, "runH"), Ch: vh.Int(m, "ch"),
		PreSg: []int{}, PostSg: []int{}}
	p.PreSg = append(p.PreSg, vh.Ints(m, "preSg")...)
	p.PostSg = append(p.PostSg, vh.Ints(m, "postSg")...)
	sortInts(p.PreSg)
	sortInts(p.PostSg)
	// st: a function 1..MaxH -> record; the TLA value parser renders a function with domain 1..n as a list
	switch st := m["st"].(type) {
	case []any:
		for _, x := range st {
			im, _ := x.(map[string]any)
			p.St = append(p.St, instProj{On: vh.Bool(im, "on"), R: vh.Int(im, "r"), Pa: vh.Bool(im, "pa"), Dec: vh.Bool(im, "dec"), Stop: vh.Bool(im, "stop")})
		}
	case map[string]any:
		for h := 1; h <= maxH; h++ {
			im, _ := st[fmt.Sprint(h)].(map[string]any)
			p.St = append(p.St, instProj{On: vh.Bool(im, "on"), R: vh.Int(im, "r"), Pa: vh.Bool(im, "pa"), Dec: vh.Bool(im, "dec"), Stop: vh.Bool(im, "stop")})
		}
	}
	return p
}

func sortInts(a []int) {
	for i := 1; i < len(a); i++ {
		for j := i; j > 0 && a[j] < a[j-1]; j-- {
			a[j], a[j-1] = a[j-1], a[j]
		}
	}
}

func specSnap(m map[string]any) snapshot {
	return snapshot{Hd: vh.Bool(m, "hd"), Hri: vh.Bool(m, "hri"), Height: vh.Int(m, "height"), Round: vh.Int(m, "round"), Fk: vh.Str(m, "fk")}
}

// normalise a real projection for comparison with the spec: a stopped flag of an absent instance etc. are already equal;
// the spec keeps `stop` on decided instances too (ForceStop sets the flag whatever the state) - so does the projection.
func projEqual(a, b runnerProj) bool { return reflect.DeepEqual(a, b) }

// ---------------------------------------------------------------------------------------------------------
// the harness's own model of what is queued (ids -> contents), for the monitors

type shadow struct {
	queued map[string]map[int]content // per role: everything pushed successfully and not yet popped
	cont   map[int]content
}

func prioClass(c content) int { // exec > timeout > rest: the part of the order P4 / P5 talk about
	switch c.K {
	case "exec":
		return 2
	case "timeout":
		return 1
	}
	return 0
}

func admit(s snapshot, c content) bool {
	switch s.Fk {
	case "exec":
		return c.K == "exec"
	case "nopc":
		return !(c.K == "cons" && c.H == s.Height && c.R == s.Round && (c.Ct == "prepare" || c.Ct == "commit" || c.Ct == "dec3" || c.Ct == "dec4"))
	}
	return true
}

// ---------------------------------------------------------------------------------------------------------
// replay

type replayer struct {
	a    *agg
	beh  vh.Behaviour
	w    *world
	sh   shadow
	seq  map[string]int // last park sequence number seen per role
	dead bool
}

func (r *replayer) fail(step int, what string) {
	r.a.diverge(r.beh.ID, step, "harness", what, nil)
	r.dead = true
}

// release the consumer parked at G1 into the real Pop (at least 2 ms after it parked: Pop then reads the inbox)
func (r *replayer) releaseG1(ro string) {
	c := r.w.cons[ro]
	r.w.mu.Lock()
	since := time.Since(c.parkedT)
	r.w.mu.Unlock()
	if since < 2*time.Millisecond {
		time.Sleep(2*time.Millisecond - since)
	}
	c.g1 <- struct{}{}
}

// waitLeft: the consumer is no longer parked at `at`
func (r *replayer) waitLeft(ro, at string) bool {
	deadline := time.Now().Add(stepTimeout)
	for {
		r.w.mu.Lock()
		cur := r.w.cons[ro].at
		r.w.mu.Unlock()
		if cur != at {
			return true
		}
		if time.Now().After(deadline) {
			return false
		}
		time.Sleep(20 * time.Microsecond)
	}
}

// lenEventually: the length of the real queue, read while the consumer may be between taking a message out of the channel and
// linking it into its list (the harness cannot park it there): a transient mismatch is retried for a while
func (r *replayer) lenEventually(ro string, want int) int {
	deadline := time.Now().Add(300 * time.Millisecond)
	for {
		n := r.w.inner[ro].Len()
		if n == want || time.Now().After(deadline) {
			return n
		}
		time.Sleep(50 * time.Microsecond)
	}
}

func (r *replayer) curSeq(ro string) int {
	r.w.mu.Lock()
	defer r.w.mu.Unlock()
	return r.w.cons[ro].seq
}

// waitInbox: the consumer blocked in Pop's wait loop has taken everything out of the channel
func (r *replayer) waitInbox(ro string, want int) bool {
	deadline := time.Now().Add(stepTimeout)
	for r.w.inboxLen(ro) != want {
		if time.Now().After(deadline) {
			return false
		}
		time.Sleep(50 * time.Microsecond)
	}
	return true
}

func (r *replayer) run() {
	a, beh := r.a, r.beh
	w := newWorld(worldOpts{gated: true})
	r.w = w
	defer w.close()
	r.sh = shadow{queued: map[string]map[int]content{"att": {}, "prop": {}}, cont: map[int]content{}}
	r.seq = map[string]int{}
	stopped := false
	nontrivial := false
	for si, st := range beh.Steps {
		if si == 0 || r.dead {
			continue
		}
		act := st.Act
		name := vh.Str(act, "name")
		ro := vh.Str(act, "ro")
		a.count("steps", 1)
		switch name {
		case "Start":
			if _, err := w.v.Start(w.log); err != nil {
				r.fail(si, "Start: "+err.Error())
			}
		case "Stop":
			w.mu.Lock()
			w.released = true
			w.mu.Unlock()
			for _, c := range w.cons {
				select {
				case c.g1 <- struct{}{}:
				default:
				}
			}
			lost := 0
			for _, ro := range specRoles {
				lost += len(r.sh.queued[ro])
			}
			w.v.Stop()
			stopped = true
			if lost > 0 && len(w.v.Queues) == 0 {
				a.observe("P3_NoSilentLoss", beh.ID, si, map[string]any{"queued_when_stopped": lost, "queues_after_stop": len(w.v.Queues)})
			}
			// the statement of controller.ExecuteDuty on the stopped validator: v.Queues[duty.Type].Q.TryPush(dec)
			func() {
				defer func() {
					if p := recover(); p != nil {
						a.observe("ExecuteDutyAfterStopPanics", beh.ID, si, fmt.Sprint(p))
					}
				}()
				dec := w.realMessage(content{K: "exec", Ro: "att", H: 1})
				w.v.Queues[beaconRole("att")].Q.TryPush(dec)
			}()
		case "Handle", "TimerFire":
			c := contentOf(vh.Map(act, "c"))
			w.mu.Lock()
			w.lastPush.id, w.lastPush.res = 0, "noq"
			w.mu.Unlock()
			if name == "TimerFire" {
				base := w.runners[beaconRole(c.Ro)].GetBaseRunner()
				// what the round timer's goroutine does when the timer fires: done(round), done = TimeoutF(logger, identifier, height)
				base.TimeoutF(w.log, w.msgID(c.Ro), heightOf(c.H))(roundOf(c.R))
			} else if c.K == "exec" && !stopped {
				dec := w.realMessage(c)
				// the statement of operator/validator/controller.go ExecuteDuty
				w.v.Queues[beaconRole(c.Ro)].Q.TryPush(dec)
			} else {
				w.v.HandleMessage(w.log, w.realMessage(c))
			}
			w.mu.Lock()
			id, res := w.lastPush.id, w.lastPush.res
			if res == "noq" { // nothing reached a queue: the harness numbers the message itself
				id = w.nextID
				w.nextID++
			}
			w.mu.Unlock()
			if res != vh.Str(act, "res") || id != vh.Int(act, "id") {
				a.diverge(beh.ID, si, "push", map[string]any{"id": vh.Int(act, "id"), "res": vh.Str(act, "res")}, map[string]any{"id": id, "res": res})
			}
			if res == "ok" {
				r.sh.queued[c.Ro][id] = c
				if real := w.cont[id]; real != c {
					a.diverge(beh.ID, si, "pushed content", c, real)
				}
			}
			r.sh.cont[id] = c
		case "Snapshot":
			if !w.waitAt(ro, "G1", r.seq[ro], stepTimeout) {
				r.fail(si, "consumer "+ro+" did not reach Pop")
				continue
			}
			r.seq[ro] = r.curSeq(ro)
			w.mu.Lock()
			real, rn := w.cons[ro].snap, w.cons[ro].rn
			w.mu.Unlock()
			if want := specSnap(vh.Map(act, "snap")); real != want {
				a.diverge(beh.ID, si, "snapshot", want, real)
			}
			// P7 on the real code: the state ConsumeQueue built = the runner's state as the harness projects it
			a.count("fact_evaluations", 1)
			if snapOf(rn) != real {
				a.observe("P7_SnapshotFresh", beh.ID, si, map[string]any{"probed": real, "runner": rn})
			}
		case "Pop":
			nontrivial = true
			r.releaseG1(ro)
			if !r.waitLeft(ro, "G1") {
				r.fail(si, "consumer "+ro+" did not enter Pop")
				continue
			}
			r.afterPop(si, ro, vh.Int(act, "id"), st)
		case "WaitRecv":
			r.afterPop(si, ro, vh.Int(act, "id"), st)
		case "Process":
			before := map[string]runnerProj{}
			for _, o := range specRoles {
				before[o] = w.project(o)
			}
			cur := contentOf(vh.Map(act, "c"))
			w.cons[ro].g2 <- struct{}{}
			if !w.waitAt(ro, "G1", r.seq[ro], stepTimeout) {
				r.fail(si, "consumer "+ro+" did not come back from the handler")
				continue
			}
			// (the park at G1 is consumed by the Snapshot step that follows)
			w.mu.Lock()
			ok := w.cons[ro].ok
			w.mu.Unlock()
			if ok != vh.Bool(act, "ok") {
				a.diverge(beh.ID, si, "handler error", vh.Bool(act, "ok"), ok)
			}
			a.count("fact_evaluations", 2)
			for _, o := range specRoles {
				if o != ro && !projEqual(before[o], w.project(o)) {
					a.observe("P1_OnlyOwnRunner", beh.ID, si, map[string]any{"handled_by": ro, "changed": o})
				}
			}
			after := w.project(ro)
			if cur.K == "timeout" {
				x := before[ro]
				stale := cur.H != x.RunH || cur.R < x.St[cur.H-1].R
				if stale && !projEqual(x, after) {
					a.observe("P6_StaleTimeoutNoop", beh.ID, si, map[string]any{"event": cur, "before": x, "after": after})
				}
				if (!x.St[cur.H-1].On || cur.R < x.St[cur.H-1].R || x.St[cur.H-1].Dec) && !projEqual(x, after) {
					a.observe("P6a_OldRoundNoop", beh.ID, si, map[string]any{"event": cur, "before": x, "after": after})
				}
			}
		case "DirectStartDuty":
			// another goroutine calls the exported Validator.StartDuty (the consumer is parked or blocked: no data race here)
			d := w.h.DutyFor(kitRole(ro), phase0.Slot(vh.Int(act, "s")))
			err := w.v.StartDuty(w.log, d)
			if (err == nil) != vh.Bool(act, "ok") {
				a.diverge(beh.ID, si, "StartDuty error", vh.Bool(act, "ok"), fmt.Sprint(err))
			}
		default:
			r.fail(si, "unknown action "+name)
			continue
		}
		if r.dead {
			continue
		}
		r.compare(si, st, name, stopped)
	}
	// settle: a consumer blocked in the wait loop takes what is left in the channel; then the state monitors once more
	if !r.dead && !stopped && len(beh.Steps) > 0 {
		for _, ro := range specRoles {
			w.mu.Lock()
			at := w.cons[ro].at
			w.mu.Unlock()
			if at == "inpop" {
				deadline := time.Now().Add(2 * time.Second)
				for w.inboxLen(ro) != 0 && time.Now().Before(deadline) {
					time.Sleep(50 * time.Microsecond)
				}
				time.Sleep(200 * time.Microsecond)
				w.mu.Lock()
				at = w.cons[ro].at
				w.mu.Unlock()
			}
			if at == "inpop" || at == "G1" || at == "G2" {
				r.stateMonitors(len(beh.Steps), ro)
			}
			// P3x on the real state: the consumer blocks in Pop although messages are queued (nothing admitted: held back)
			if at == "inpop" {
				if n := r.lenEventually(ro, len(r.sh.queued[ro])); n > 0 {
					held := []content{}
					for _, c := range r.sh.queued[ro] {
						held = append(held, c)
					}
					a.observe("P3x_AllPopped", beh.ID, len(beh.Steps), map[string]any{"role": ro, "queued": n, "held_back": held, "runner": w.project(ro)})
				}
			}
		}
	}
	if nontrivial {
		a.count("nontrivial", 1)
	}
}

// stateMonitors: P8 / P9 on the real state of a role whose consumer is parked or blocked
func (r *replayer) stateMonitors(si int, ro string) {
	a, w, beh := r.a, r.w, r.beh
	a.count("fact_evaluations", 2)
	if n := w.inner[ro].Len(); n > capQ {
		a.observe("P8x_Bounded", beh.ID, si, map[string]any{"role": ro, "len": n, "inbox": w.inboxLen(ro), "cap": capQ})
	}
	rn := w.project(ro)
	if rn.Duty != 0 && !rn.Fin && rn.RunH != 0 && !rn.St[rn.RunH-1].Dec {
		for _, o := range r.sh.queued[ro] {
			if o.K == "cons" && (o.Ct == "dec3" || o.Ct == "dec4") && o.H == rn.RunH && !admit(snapOf(rn), o) {
				a.observe("P9x_DecidedNotHeld", beh.ID, si, map[string]any{"message": o, "runner": rn})
			}
		}
	}
	// P7 / P2 on the real state: the snapshot the consumer holds (probed from what ConsumeQueue handed to Pop) against the
	// runner as it is NOW; the message the real Pop returned against the filter of the runner as it is NOW
	w.mu.Lock()
	at, sn, popped := w.cons[ro].at, w.cons[ro].snap, w.cons[ro].popped
	w.mu.Unlock()
	if at == "G1" || at == "G2" || at == "inpop" {
		a.count("fact_evaluations", 1)
		if snapOf(rn) != sn {
			a.observe("P7_SnapshotFresh", beh.ID, si, map[string]any{"snapshot": sn, "runner": rn, "consumer": at})
		}
	}
	if at == "G2" {
		if c, ok := r.sh.cont[popped]; ok && !admit(snapOf(rn), c) {
			a.observe("P2_FilterAtHandler", beh.ID, si, map[string]any{"message": c, "runner": rn})
		}
	}
}

// afterPop: the real Pop either returned (spec: pc = proc) or blocks in the wait loop
func (r *replayer) afterPop(si int, ro string, wantID int, st vh.Step) {
	a, w, beh := r.a, r.w, r.beh
	if wantID == 0 {
		want := len(msgsOf(vh.Map(st.State, "inbox")[ro]))
		if !r.waitInbox(ro, want) {
			r.fail(si, fmt.Sprintf("consumer %s: inbox not drained to %d", ro, want))
			return
		}
		// the spec says the consumer is (still) waiting: give a wrongly returning Pop a moment to show up
		w.mu.Lock()
		at := w.cons[ro].at
		w.mu.Unlock()
		if at == "G2" {
			w.mu.Lock()
			id := w.cons[ro].popped
			w.mu.Unlock()
			a.diverge(beh.ID, si, "pop result", 0, id)
		}
		return
	}
	if !w.waitAt(ro, "G2", r.seq[ro], stepTimeout) {
		r.fail(si, fmt.Sprintf("consumer %s: Pop did not return (spec: message %d)", ro, wantID))
		return
	}
	r.seq[ro] = r.curSeq(ro)
	w.mu.Lock()
	got, sn := w.cons[ro].popped, w.cons[ro].snap
	w.mu.Unlock()
	if got != wantID {
		a.diverge(beh.ID, si, "pop result", wantID, got)
	}
	// monitors on the REAL pop result (P1, P2, P4, P5, P10), against the harness's own record of what is queued
	c, known := r.sh.cont[got]
	if !known {
		return
	}
	a.count("fact_evaluations", 5)
	rn := w.project(ro)
	if c.Ro != ro {
		a.observe("P1_RoleIsolation", beh.ID, si, map[string]any{"consumer": ro, "message": c})
	}
	if !admit(snapOf(rn), c) {
		a.observe("P2_FilterAtHandler", beh.ID, si, map[string]any{"message": c, "runner": rn})
	}
	if !admit(sn, c) {
		a.observe("P2_FilterAtPop", beh.ID, si, map[string]any{"message": c, "snapshot": sn})
	}
	if c.K == "cons" && rn.RunH == 0 {
		a.observe("P2x_NoConsWithoutInstance", beh.ID, si, map[string]any{"message": c, "runner": rn})
	}
	if c.K == "cons" && c.Ct != "dec3" && c.Ct != "dec4" && c.H > rn.Ch {
		a.observe("P4y_NoEarlyConsumed", beh.ID, si, map[string]any{"message": c, "runner": rn})
	}
	for id, o := range r.sh.queued[ro] {
		if id == got || !admit(sn, o) {
			continue
		}
		if prioClass(o) > prioClass(c) {
			fact := "P5_TimeoutNext"
			if o.K == "exec" {
				fact = "P4_ExecFirst"
			}
			a.observe(fact, beh.ID, si, map[string]any{"popped": c, "queued": o})
		}
		if c.K == "cons" && c.Ct == "commit" && o.K == "cons" && o.Ct == "dec3" && o.H == c.H && c.H != sn.Height {
			a.observe("P10x_DecidedOverCommit", beh.ID, si, map[string]any{"popped": c, "queued": o, "snapshot": sn})
		}
	}
	delete(r.sh.queued[ro], got)
}

// compare the real projection with the spec state after a step
func (r *replayer) compare(si int, st vh.Step, name string, stopped bool) {
	a, w, beh := r.a, r.w, r.beh
	if st.State == nil {
		return
	}
	pcs := vh.Map(st.State, "pc")
	rns := vh.Map(st.State, "rn")
	for _, ro := range specRoles {
		if _, ok := pcs[ro]; !ok {
			continue // a single-role configuration
		}
		pc := vh.Str(pcs, ro)
		w.mu.Lock()
		at := w.cons[ro].at
		w.mu.Unlock()
		realPC := map[string]string{"": "off", "G1": "pop", "inpop": "wait", "G2": "proc", "handler": "snap", "gone": "off"}[at]
		if pc == "snap" { // transient for the harness: the consumer is on its way to Pop
			realPC = "snap"
		}
		if name == "Start" || stopped {
			realPC = pc
		}
		if pc == "wait" && len(msgsOf(vh.Map(st.State, "inbox")[ro])) != 0 {
			continue // the blocked consumer takes the pushed message at once (the forced WaitRecv step that follows compares)
		}
		if realPC != pc {
			a.diverge(beh.ID, si, "pc["+ro+"]", pc, realPC)
		}
		if stopped {
			continue
		}
		if pc == "snap" {
			// the consumer goroutine is on its way from the handler (or from Start) to its next Pop: wait for it there
			// (the Snapshot step that follows finds it parked); only then its runner and its queue may be looked at
			if !w.waitAt(ro, "G1", r.seq[ro], stepTimeout) {
				r.fail(si, "consumer "+ro+" did not reach Pop")
				return
			}
		}
		want := specRunner(vh.Map(rns, ro))
		if real := w.project(ro); !projEqual(real, want) {
			a.diverge(beh.ID, si, "runner["+ro+"]", want, real)
		}
		wantIn := len(msgsOf(vh.Map(st.State, "inbox")[ro]))
		wantList := len(msgsOf(vh.Map(st.State, "list")[ro]))
		if pc == "wait" && wantIn != 0 {
			continue // the blocked consumer is about to take the message (next step)
		}
		if in := w.inboxLen(ro); in != wantIn {
			a.diverge(beh.ID, si, "len(inbox["+ro+"])", wantIn, in)
		}
		if n := r.lenEventually(ro, wantIn+wantList); n != wantIn+wantList {
			a.diverge(beh.ID, si, "len(queue["+ro+"])", wantIn+wantList, n)
		}
		r.stateMonitors(si, ro)
	}
}

func replayMode(in, out string, workers int) error {
	behs, err := vh.ReadBehaviours(in)
	if err != nil {
		return err
	}
	a := &agg{res: vh.NewResult(), obs: map[string]any{}}
	jobs := make(chan vh.Behaviour)
	var wg sync.WaitGroup
	for k := 0; k < workers; k++ {
		wg.Add(1)
		go func() {
			defer wg.Done()
			for b := range jobs {
				r := &replayer{a: a, beh: b}
				r.run()
				a.count("behaviours", 1)
			}
		}()
	}
	for _, b := range behs {
		jobs <- b
	}
	close(jobs)
	wg.Wait()
	a.res.Behaviours = a.res.Counters["behaviours"]
	a.res.Steps = a.res.Counters["steps"]
	a.res.Nontrivial = a.res.Counters["nontrivial"]
	for _, v := range a.obs {
		a.res.Samples = append(a.res.Samples, v)
	}
	return a.res.Write(out)
}

// ---------------------------------------------------------------------------------------------------------
// record: free-running consumers, real timers

func snapMap(s snapshot) map[string]any {
	return map[string]any{"hd": s.Hd, "hri": s.Hri, "height": s.Height, "round": s.Round, "fk": s.Fk}
}

func rnMap(p runnerProj) map[string]any {
	st := []any{}
	for _, i := range p.St {
		st = append(st, map[string]any{"on": i.On, "r": i.R, "pa": i.Pa, "dec": i.Dec, "stop": i.Stop})
	}
	return map[string]any{"duty": p.Duty, "fin": p.Fin, "preSg": p.PreSg, "postSg": p.PostSg, "dval": p.Dval, "runH": p.RunH, "ch": p.Ch, "st": st}
}

// schedule of one recorded execution: a plausible flow of one or two duties per role with perturbations
func schedule(rng *rand.Rand, maxMsgs int) [][]content {
	var lanes [][]content
	for _, ro := range specRoles {
		if rng.Intn(4) == 0 {
			continue
		}
		var l []content
		for h := 1; h <= 1+rng.Intn(2); h++ {
			flow := []content{{K: "exec", Ro: ro, H: h}}
			if ro == "prop" {
				for _, sg := range rng.Perm(3) {
					flow = append(flow, content{K: "pre", Ro: ro, H: h, Sg: sg + 2})
				}
			}
			flow = append(flow, content{K: "cons", Ro: ro, H: h, R: 1, Ct: "proposal"})
			if rng.Intn(2) == 0 {
				flow = append(flow, content{K: "cons", Ro: ro, H: h, R: 1, Ct: "prepare"})
			}
			if rng.Intn(3) == 0 {
				flow = append(flow, content{K: "cons", Ro: ro, H: h, R: 1 + rng.Intn(2), Ct: "rc"})
			}
			if rng.Intn(2) == 0 {
				flow = append(flow, content{K: "cons", Ro: ro, H: h, R: 1, Ct: "commit"})
			}
			if rng.Intn(5) != 0 {
				flow = append(flow, content{K: "cons", Ro: ro, H: h, R: 1, Ct: []string{"dec3", "dec4"}[rng.Intn(2)]})
				for _, sg := range rng.Perm(3) {
					if rng.Intn(6) != 0 {
						flow = append(flow, content{K: "post", Ro: ro, H: h, Sg: sg + 2})
					}
				}
			}
			if rng.Intn(4) == 0 {
				flow = append(flow, content{K: "cons", Ro: ro, H: h, R: 2, Ct: "proposal"})
			}
			// perturbations: swap neighbours, drop, duplicate
			for k := 0; k < 3; k++ {
				if len(flow) > 1 && rng.Intn(2) == 0 {
					i := rng.Intn(len(flow) - 1)
					flow[i], flow[i+1] = flow[i+1], flow[i]
				}
			}
			if rng.Intn(4) == 0 && len(flow) > 1 {
				i := rng.Intn(len(flow))
				flow = append(flow[:i], flow[i+1:]...)
			}
			if rng.Intn(4) == 0 {
				flow = append(flow, flow[rng.Intn(len(flow))])
			}
			l = append(l, flow...)
		}
		if rng.Intn(6) == 0 {
			l = append(l, content{K: "cons", Ro: "x", H: 1, R: 1, Ct: "proposal"})
		}
		if len(l) > maxMsgs {
			l = l[:maxMsgs]
		}
		lanes = append(lanes, l)
	}
	return lanes
}

func recordMode(tracePath, out string, seed int64, runs, maxMsgs int, quick time.Duration) error {
	tw, err := vh.NewTraceWriter(tracePath)
	if err != nil {
		return err
	}
	res := vh.NewResult()
	rng := rand.New(rand.NewSource(seed))
	for run := 0; run < runs; run++ {
		lanes := schedule(rng, maxMsgs)
		w := newWorld(worldOpts{gated: false, realTimers: true, quick: quick})
		w.mu.Lock()
		w.record = true
		w.mu.Unlock()
		startAfter := 0
		if rng.Intn(3) == 0 {
			startAfter = 1 + rng.Intn(3) // messages arrive before the validator is started
		}
		started := false
		start := func() {
			w.mu.Lock()
			if w.record {
				w.events = append(w.events, event{Kind: "Start"})
			}
			w.mu.Unlock()
			// (recorded before the call: the consumers spawned by Start record their first Pop after it)
			if _, err := w.v.Start(w.log); err != nil {
				panic(err)
			}
		}
		if startAfter == 0 {
			start()
			started = true
		}
		var wg sync.WaitGroup
		var cnt int
		var cntMu sync.Mutex
		for li, lane := range lanes {
			wg.Add(1)
			lrng := rand.New(rand.NewSource(seed*1000003 + int64(run)*131 + int64(li)))
			go func(lane []content) {
				defer wg.Done()
				for _, c := range lane {
					switch lrng.Intn(4) {
					case 0:
					case 1:
						time.Sleep(time.Duration(lrng.Intn(300)) * time.Microsecond)
					case 2:
						time.Sleep(time.Duration(1+lrng.Intn(4)) * time.Millisecond)
					default:
						time.Sleep(time.Duration(lrng.Intn(int(quick/time.Microsecond)+1)) * time.Microsecond)
					}
					dec := w.realMessage(c)
					if c.K == "exec" {
						w.v.Queues[beaconRole(c.Ro)].Q.TryPush(dec)
					} else if c.Ro == "x" {
						w.v.HandleMessage(w.log, dec)
						w.mu.Lock()
						id := w.nextID
						w.nextID++
						if w.record {
							w.events = append(w.events, event{Kind: "NoQueue", Ro: c.Ro, ID: id, C: c, Res: "noq"})
						}
						w.mu.Unlock()
					} else {
						w.v.HandleMessage(w.log, dec)
					}
					cntMu.Lock()
					cnt++
					doStart := !started && cnt >= startAfter
					if doStart {
						started = true
					}
					cntMu.Unlock()
					if doStart {
						start()
					}
				}
			}(lane)
		}
		wg.Wait()
		if !started {
			start()
		}
		// let the consumers and the timers run on for a while, then cut the recording
		time.Sleep(time.Duration(1+rng.Intn(3)) * quick)
		w.mu.Lock()
		w.record = false
		evs := w.events
		w.events = nil
		w.mu.Unlock()
		w.close()
		tw.Emit(map[string]any{"event": "Reset"})
		inFlight := map[int]bool{}
		for _, e := range evs {
			switch e.Kind {
			case "Push", "NoQueue":
				tw.Emit(map[string]any{"event": "Push", "ro": e.Ro, "id": e.ID, "c": e.C.toMap(), "res": e.Res})
				if e.Res == "ok" {
					inFlight[e.ID] = true
				}
				if e.C.K == "timeout" {
					res.Counters["timer_fires"]++
				}
				if e.Res == "drop" {
					res.Counters["drops"]++
				}
			case "Start":
				tw.Emit(map[string]any{"event": "Start"})
			case "PopEnter":
				tw.Emit(map[string]any{"event": "PopEnter", "ro": e.Ro, "snap": snapMap(e.Snap), "rn": rnMap(e.Rn), "done": e.Done, "ok": e.Ok})
				if snapOf(e.Rn) != e.Snap {
					res.Counters["obs:P7_SnapshotFresh"]++
				}
			case "PopReturn":
				tw.Emit(map[string]any{"event": "PopReturn", "ro": e.Ro, "id": e.ID})
				delete(inFlight, e.ID)
				res.Counters["pops"]++
			}
			res.Steps++
		}
		res.Behaviours++
	}
	if err := tw.Close(); err != nil {
		return err
	}
	return res.Write(out)
}

// ---------------------------------------------------------------------------------------------------------

func main() {
	mode := flag.String("mode", "replay", "replay | record")
	in := flag.String("in", "", "behaviours (NDJSON)")
	out := flag.String("out", "", "result file")
	trace := flag.String("trace", "", "trace file (record)")
	seed := flag.Int64("seed", 1, "seed")
	runs := flag.Int("runs", 20, "recorded executions")
	maxMsgs := flag.Int("maxmsgs", 14, "messages per role and execution")
	workers := flag.Int("workers", 4, "parallel behaviours (replay)")
	quick := flag.Duration("quick", 25*time.Millisecond, "round timeout of the real round timer (record)")
	flag.Parse()
	var err error
	switch *mode {
	case "replay":
		err = replayMode(*in, *out, *workers)
	case "record":
		err = recordMode(*trace, *out, *seed, *runs, *maxMsgs, *quick)
	default:
		err = fmt.Errorf("unknown mode %s", *mode)
	}
	if err != nil {
		fmt.Fprintln(os.Stderr, "pipeline driver:", err)
		os.Exit(3)
	}
}
