// World of the pipeline driver (spec/Pipeline.tla): ONE real validator.Validator (operator 1 of the spec's 4-operator
// test committee) around REAL duty runners of two roles - attester ("att": no pre-consensus phase) and proposer
// ("prop": RANDAO pre-consensus phase) - each with a REAL QBFT controller built by the production constructor, the
// REAL per-role priority queues created by NewValidator and the REAL ConsumeQueue goroutines spawned by
// Validator.Start.  Nothing in /repo is changed or hooked: the driver puts a delegating wrapper around the queue.Queue
// values in the exported Validator.Queues map (the production code itself wraps them once, queue.WithMetrics).  The
// wrapper records every TryPush and every Pop call of the consumer goroutine (its arguments are the prioritizer and
// the filter ConsumeQueue just built from the runner: the SNAPSHOT, recovered by probing them with crafted messages),
// and - in replay mode - parks the consumer goroutine before and after the real Pop.
package main

import (
	"context"
	"fmt"
	"reflect"
	"sort"
	"strings"
	"sync"
	"time"

	"github.com/attestantio/go-eth2-client/spec"
	"github.com/attestantio/go-eth2-client/spec/phase0"
	specqbft "github.com/bloxapp/ssv-spec/qbft"
	specssv "github.com/bloxapp/ssv-spec/ssv"
	spectypes "github.com/bloxapp/ssv-spec/types"
	tu "github.com/bloxapp/ssv-spec/types/testingutils"
	"github.com/dgraph-io/badger/v4"
	ssz "github.com/ferranbt/fastssz"
	"go.uber.org/zap"
	"go.uber.org/zap/zapcore"

	qbftstorage "github.com/bloxapp/ssv/ibft/storage"
	"github.com/bloxapp/ssv/networkconfig"
	"github.com/bloxapp/ssv/protocol/v2/qbft"
	"github.com/bloxapp/ssv/protocol/v2/qbft/controller"
	"github.com/bloxapp/ssv/protocol/v2/qbft/roundtimer"
	"github.com/bloxapp/ssv/protocol/v2/ssv/queue"
	"github.com/bloxapp/ssv/protocol/v2/ssv/runner"
	"github.com/bloxapp/ssv/protocol/v2/ssv/validator"
	ssvtypes "github.com/bloxapp/ssv/protocol/v2/types"
	"github.com/bloxapp/ssv/storage/basedb"
	"github.com/bloxapp/ssv/storage/kv"

	rk "verif/harness/runnerkit"
)

const (
	maxH = 2
	capQ = 2 // inbox capacity of the validator under test (Cap of the spec)
)

var specRoles = []string{"att", "prop"}

func beaconRole(ro string) spectypes.BeaconRole {
	switch ro {
	case "att":
		return spectypes.BNRoleAttester
	case "prop":
		return spectypes.BNRoleProposer
	case "x": // a role this validator has no runner (and no queue) for
		return spectypes.BNRoleAggregator
	}
	panic("unknown role " + ro)
}

func kitRole(ro string) string {
	switch ro {
	case "att":
		return rk.Attester
	case "prop":
		return rk.Proposer
	}
	return rk.Aggregator
}

func roleName(br spectypes.BeaconRole) string {
	switch br {
	case spectypes.BNRoleAttester:
		return "att"
	case spectypes.BNRoleProposer:
		return "prop"
	}
	return "x"
}

// ---------------------------------------------------------------------------------------------------------
// message contents (the record `c` of the spec)

type content struct {
	K  string `json:"k"`
	Ro string `json:"ro"`
	H  int    `json:"h"`
	R  int    `json:"r"`
	Ct string `json:"ct"`
	Sg int    `json:"sg"`
}

func contentOf(m map[string]any) content {
	g := func(k string) int {
		if f, ok := m[k].(float64); ok {
			return int(f)
		}
		return 0
	}
	s := func(k string) string { v, _ := m[k].(string); return v }
	return content{K: s("k"), Ro: s("ro"), H: g("h"), R: g("r"), Ct: s("ct"), Sg: g("sg")}
}

func (c content) toMap() map[string]any {
	return map[string]any{"k": c.K, "ro": c.Ro, "h": c.H, "r": c.R, "ct": c.Ct, "sg": c.Sg}
}

// ---------------------------------------------------------------------------------------------------------
// stubs

type stubNet struct{}

func (stubNet) Broadcast(*spectypes.SSVMessage) error { return nil }
func (stubNet) Subscribe(spectypes.ValidatorPK) error { return nil }

// bnode: the spec's testing beacon node with slot-dependent duty data (runnerkit.BeaconData); one per role, because
// the testing node appends to a slice on every Submit* and the consumers of the two roles run concurrently.
type bnode struct {
	*tu.TestingBeaconNode
	h *rk.Kit
}

func (b *bnode) GetAttestationData(slot phase0.Slot, _ phase0.CommitteeIndex) (ssz.Marshaler, spec.DataVersion, error) {
	d, v := b.h.BeaconData(rk.Attester, slot, false)
	return d, v, nil
}

func (b *bnode) GetBeaconBlock(slot phase0.Slot, _, _ []byte) (ssz.Marshaler, spec.DataVersion, error) {
	d, v := b.h.BeaconData(rk.Proposer, slot, false)
	return d, v, nil
}

// timerNet: the two calls the real RoundTimer makes on the beacon network.  The "slot start" of a height is the moment
// the timer is first armed for it, so that round r of an attester instance times out r*quick after the instance started
// (the proposer's timeouts do not depend on the slot at all).
type timerNet struct {
	mu sync.Mutex
	t0 map[phase0.Slot]time.Time
}

func (n *timerNet) GetSlotStartTime(slot phase0.Slot) time.Time {
	n.mu.Lock()
	defer n.mu.Unlock()
	if t, ok := n.t0[slot]; ok {
		return t
	}
	t := time.Now()
	n.t0[slot] = t
	return t
}
func (n *timerNet) SlotDurationSec() time.Duration { return 0 }

// logCore captures the consumer's "could not handle message" entries: the only place the handler's error goes.
type logCore struct {
	w      *world
	fields []zapcore.Field
}

func (c *logCore) Enabled(zapcore.Level) bool { return true }
func (c *logCore) With(fs []zapcore.Field) zapcore.Core {
	nf := make([]zapcore.Field, 0, len(c.fields)+len(fs))
	nf = append(nf, c.fields...)
	nf = append(nf, fs...)
	return &logCore{w: c.w, fields: nf}
}
func (c *logCore) Check(e zapcore.Entry, ce *zapcore.CheckedEntry) *zapcore.CheckedEntry {
	if strings.Contains(e.Message, "could not handle message") {
		return ce.AddCore(e, c)
	}
	return ce
}
func (c *logCore) Write(e zapcore.Entry, fs []zapcore.Field) error {
	role, errText := "", "error"
	for _, f := range append(append([]zapcore.Field{}, c.fields...), fs...) {
		switch f.Key {
		case "role":
			if s, ok := f.Interface.(fmt.Stringer); ok {
				role = s.String()
			} else if f.String != "" {
				role = f.String
			}
		case "error":
			if er, ok := f.Interface.(error); ok {
				errText = er.Error()
			}
		}
	}
	ro := ""
	switch role {
	case spectypes.BNRoleAttester.String():
		ro = "att"
	case spectypes.BNRoleProposer.String():
		ro = "prop"
	}
	c.w.errMu.Lock()
	c.w.lastErr[ro] = errText
	c.w.errMu.Unlock()
	return nil
}
func (c *logCore) Sync() error { return nil }

// ---------------------------------------------------------------------------------------------------------
// pooled databases (opening an in-memory badger costs 0.1-0.4 s)

var (
	dbMu   sync.Mutex
	dbPool []*kv.BadgerDB
)

func getDB() *kv.BadgerDB {
	dbMu.Lock()
	if n := len(dbPool); n > 0 {
		db := dbPool[n-1]
		dbPool = dbPool[:n-1]
		dbMu.Unlock()
		return db
	}
	dbMu.Unlock()
	db, err := kv.NewInMemory(zap.NewNop(), basedb.Options{Ctx: context.Background()})
	if err != nil {
		panic(err)
	}
	return db
}

func putDB(db *kv.BadgerDB) {
	err := db.Badger().Update(func(txn *badger.Txn) error {
		opt := badger.DefaultIteratorOptions
		opt.PrefetchValues = false
		it := txn.NewIterator(opt)
		var keys [][]byte
		for it.Rewind(); it.Valid(); it.Next() {
			keys = append(keys, it.Item().KeyCopy(nil))
		}
		it.Close()
		for _, k := range keys {
			if err := txn.Delete(k); err != nil {
				return err
			}
		}
		return nil
	})
	if err != nil {
		_ = db.Close()
		return
	}
	dbMu.Lock()
	dbPool = append(dbPool, db)
	dbMu.Unlock()
}

// ---------------------------------------------------------------------------------------------------------
// the world

var (
	helperOnce sync.Once
	helper     *rk.Kit
)

func helperKit() *rk.Kit {
	helperOnce.Do(func() { helper = rk.New(rk.Options{N: 4}) })
	return helper
}

// snapshot: the spec's `snap` record, recovered from the prioritizer and the filter handed to Pop
type snapshot struct {
	Hd     bool   `json:"hd"`
	Hri    bool   `json:"hri"`
	Height int    `json:"height"`
	Round  int    `json:"round"`
	Fk     string `json:"fk"`
}

type instProj struct {
	On   bool `json:"on"`
	R    int  `json:"r"`
	Pa   bool `json:"pa"`
	Dec  bool `json:"dec"`
	Stop bool `json:"stop"`
}

// runnerProj: the spec's rn[ro] (without cbh, which lives in a closure)
type runnerProj struct {
	Duty   int        `json:"duty"`
	Fin    bool       `json:"fin"`
	PreSg  []int      `json:"preSg"`
	PostSg []int      `json:"postSg"`
	Dval   bool       `json:"dval"`
	RunH   int        `json:"runH"`
	Ch     int        `json:"ch"`
	St     []instProj `json:"st"` // heights 1..maxH
}

type event struct {
	Kind string // "Push" | "NoQueue" | "PopEnter" | "PopReturn" | "Start" | "Stop"
	Ro   string
	ID   int
	C    content
	Res  string
	Snap snapshot
	Rn   runnerProj
	Done int  // PopEnter: id of the message whose handler call just returned (0: none)
	Ok   bool // PopEnter: that handler call returned no error
}

type consumerState struct {
	at      string // "" (not seen yet) | "G1" (parked before Pop) | "inpop" | "G2" (parked after Pop) | "handler" | "gone"
	g1, g2  chan struct{}
	snap    snapshot
	rn      runnerProj
	popped  int // id of the message the last Pop returned (0 = nil)
	done    int
	ok      bool
	parkedT time.Time
	seq     int // increases at every park
}

type world struct {
	h       *rk.Kit
	v       *validator.Validator
	runners runner.DutyRunners
	inner   map[string]queue.Queue // the real queues (as created by NewValidator)
	db      *kv.BadgerDB
	cancel  context.CancelFunc
	log     *zap.Logger
	gated   bool // replay mode: the consumer goroutines are parked around Pop

	mu      sync.Mutex // ONE mutex for everything recorded
	cv      *sync.Cond
	nextID  int
	ids     map[*queue.DecodedSSVMessage]int
	cont    map[int]content
	events  []event
	record  bool
	cons    map[string]*consumerState
	lastPush struct {
		id  int
		res string
	}
	released bool // gates are open for good (Stop / Close)

	errMu   sync.Mutex
	lastErr map[string]string

	msgCache map[content]*spectypes.SSVMessage
}

type worldOpts struct {
	gated      bool
	realTimers bool
	quick      time.Duration
}

func newWorld(o worldOpts) *world {
	h := helperKit()
	w := &world{h: h, inner: map[string]queue.Queue{}, gated: o.gated, ids: map[*queue.DecodedSSVMessage]int{}, cont: map[int]content{},
		cons: map[string]*consumerState{}, lastErr: map[string]string{}, nextID: 1, msgCache: map[content]*spectypes.SSVMessage{}}
	w.cv = sync.NewCond(&w.mu)
	w.log = zap.New(&logCore{w: w})
	w.db = getDB()
	ctx, cancel := context.WithCancel(context.Background())
	w.cancel = cancel
	vpk := rk.ValidatorPK(h.KS)
	share := h.Share
	km := tu.NewTestingKeyManager()
	stores := qbftstorage.NewStoresFromRoles(w.db, spectypes.BNRoleAttester, spectypes.BNRoleProposer)
	w.runners = runner.DutyRunners{}
	tn := &timerNet{t0: map[phase0.Slot]time.Time{}}
	for _, ro := range specRoles {
		br := beaconRole(ro)
		bn := &bnode{TestingBeaconNode: tu.NewTestingBeaconNode(), h: h}
		var valCheck specqbft.ProposedValueCheckF
		if br == spectypes.BNRoleAttester {
			valCheck = specssv.AttesterValueCheckF(km, spectypes.BeaconTestNetwork, vpk, tu.TestingValidatorIndex, nil)
		} else {
			valCheck = specssv.ProposerValueCheckF(km, spectypes.BeaconTestNetwork, vpk, tu.TestingValidatorIndex, nil)
		}
		identifier := spectypes.NewMsgID(share.DomainType, vpk, br)
		var timer roundtimer.Timer = roundtimer.NewTestingTimer()
		if o.realTimers {
			rt := roundtimer.New(ctx, tn, br, nil) // as operator/validator/controller.go SetupRunners does
			rt.VerifSetTimeouts(o.quick, o.quick, 1000)
			timer = rt
		}
		cfg := &qbft.Config{
			Signer:                km,
			SigningPK:             share.SharePubKey,
			Domain:                share.DomainType,
			ValueCheckF:           valCheck,
			ProposerF:             func(*specqbft.State, specqbft.Round) spectypes.OperatorID { return 1 },
			Storage:               stores.Get(br),
			Network:               stubNet{},
			Timer:                 timer,
			SignatureVerification: true,
		}
		// the PRODUCTION constructor: StoredInstances has capacity InstanceContainerDefaultCapacity = 2
		contr := controller.NewController(identifier[:], share, cfg, false)
		if br == spectypes.BNRoleAttester {
			w.runners[br] = runner.NewAttesterRunnner(spectypes.BeaconTestNetwork, share, contr, bn, stubNet{}, km, valCheck, 0)
		} else {
			w.runners[br] = runner.NewProposerRunner(spectypes.BeaconTestNetwork, share, contr, bn, stubNet{}, km, valCheck, 0)
		}
	}
	w.v = validator.NewValidator(ctx, cancel, validator.Options{
		Network:       stubNet{},
		BeaconNetwork: networkconfig.TestNetwork.Beacon,
		Storage:       stores,
		SSVShare:      &ssvtypes.SSVShare{Share: *share},
		Signer:        km,
		DutyRunners:   w.runners,
		QueueSize:     capQ,
	})
	// interpose the recording wrapper: Validator.Queues is an exported map of {Q queue.Queue; queueState}
	for _, ro := range specRoles {
		br := beaconRole(ro)
		c := w.v.Queues[br]
		w.inner[ro] = c.Q
		c.Q = &qwrap{w: w, ro: ro, inner: c.Q}
		w.v.Queues[br] = c
		w.cons[ro] = &consumerState{g1: make(chan struct{}, 1), g2: make(chan struct{}, 1)}
	}
	return w
}

func (w *world) close() {
	w.mu.Lock()
	w.released = true
	w.record = false
	for _, c := range w.cons {
		select {
		case c.g1 <- struct{}{}:
		default:
		}
		select {
		case c.g2 <- struct{}{}:
		default:
		}
	}
	w.cv.Broadcast()
	w.mu.Unlock()
	w.cancel()
	// let the consumer goroutines leave Pop before the database is wiped
	deadline := time.Now().Add(2 * time.Second)
	for time.Now().Before(deadline) {
		w.mu.Lock()
		busy := false
		for _, c := range w.cons {
			if c.at == "inpop" || c.at == "handler" || c.at == "G1" || c.at == "G2" {
				busy = true
			}
		}
		w.mu.Unlock()
		if !busy {
			break
		}
		time.Sleep(200 * time.Microsecond)
	}
	putDB(w.db)
}

func (w *world) msgID(ro string) spectypes.MessageID {
	return spectypes.NewMsgID(w.h.Share.DomainType, w.h.Share.ValidatorPubKey, beaconRole(ro))
}

// inboxLen: len() of the queue's buffered channel (read-only reflection on the unexported field; len of a channel is
// safe from any goroutine).
func (w *world) inboxLen(ro string) int {
	v := reflect.ValueOf(w.inner[ro])
	for v.Kind() == reflect.Interface || v.Kind() == reflect.Ptr {
		v = v.Elem()
	}
	if f := v.FieldByName("inbox"); f.IsValid() {
		return f.Len()
	}
	q := v.FieldByName("Queue") // queueWithMetrics embeds the Queue
	for q.Kind() == reflect.Interface || q.Kind() == reflect.Ptr {
		q = q.Elem()
	}
	return q.FieldByName("inbox").Len()
}

// ---------------------------------------------------------------------------------------------------------
// real messages for spec contents

var (
	msgMu     sync.Mutex
	msgGlobal = map[content]*spectypes.SSVMessage{}
)

func (w *world) qbftMsg(c content) *spectypes.SSVMessage {
	br := beaconRole(c.Ro)
	idRole := br
	if c.Ro == "x" {
		idRole = spectypes.BNRoleAggregator
	}
	id := spectypes.NewMsgID(w.h.Share.DomainType, w.h.Share.ValidatorPubKey, idRole)
	kr := kitRole(c.Ro)
	cd := w.h.ConsensusDataFor(kr, phase0.Slot(c.H), "valid")
	byts, err := cd.Encode()
	if err != nil {
		panic(err)
	}
	root, err := specqbft.HashDataRoot(byts)
	if err != nil {
		panic(err)
	}
	ks := w.h.KS
	h, r := specqbft.Height(c.H), specqbft.Round(c.R)
	var sm *specqbft.SignedMessage
	switch c.Ct {
	case "proposal":
		m := &specqbft.Message{MsgType: specqbft.ProposalMsgType, Height: h, Round: r, Identifier: id[:], Root: root}
		if c.R > 1 {
			// justified by a quorum of round changes of that round, nobody prepared
			var rcs []*specqbft.SignedMessage
			for _, op := range []spectypes.OperatorID{1, 2, 3} {
				rcs = append(rcs, tu.SignQBFTMsg(ks.Shares[op], op, &specqbft.Message{MsgType: specqbft.RoundChangeMsgType, Height: h, Round: r, Identifier: id[:]}))
			}
			m.RoundChangeJustification = tu.MarshalJustifications(rcs)
		}
		sm = tu.SignQBFTMsg(ks.Shares[1], 1, m)
		sm.FullData = byts
	case "prepare":
		sm = tu.SignQBFTMsg(ks.Shares[2], 2, &specqbft.Message{MsgType: specqbft.PrepareMsgType, Height: h, Round: r, Identifier: id[:], Root: root})
	case "commit":
		sm = tu.SignQBFTMsg(ks.Shares[2], 2, &specqbft.Message{MsgType: specqbft.CommitMsgType, Height: h, Round: r, Identifier: id[:], Root: root})
	case "rc":
		sm = tu.SignQBFTMsg(ks.Shares[2], 2, &specqbft.Message{MsgType: specqbft.RoundChangeMsgType, Height: h, Round: r, Identifier: id[:]})
	case "dec3", "dec4":
		n := 3
		if c.Ct == "dec4" {
			n = 4
		}
		var sks = ks.Shares
		ids := []spectypes.OperatorID{}
		for i := 1; i <= n; i++ {
			ids = append(ids, spectypes.OperatorID(i))
		}
		sm = tu.MultiSignQBFTMsg(blsKeys(sks, ids), ids, &specqbft.Message{MsgType: specqbft.CommitMsgType, Height: h, Round: r, Identifier: id[:], Root: root})
		sm.FullData = byts
	default:
		panic("unknown consensus kind " + c.Ct)
	}
	data, err := sm.Encode()
	if err != nil {
		panic(err)
	}
	return &spectypes.SSVMessage{MsgType: spectypes.SSVConsensusMsgType, MsgID: id, Data: data}
}

// realMessage builds (and caches, process-wide: BLS signing dominates) the wire message of a spec content, then returns
// a freshly decoded copy - the consumer gets its own object, as it does when the message comes from the network.
func (w *world) realMessage(c content) *queue.DecodedSSVMessage {
	msgMu.Lock()
	m, ok := msgGlobal[c]
	if !ok {
		switch c.K {
		case "exec":
			duty := w.h.DutyFor(kitRole(c.Ro), phase0.Slot(c.H))
			var pk phase0.BLSPubKey
			copy(pk[:], duty.PubKey[:])
			var err error
			m, err = createDutyExecuteMsg(duty, pk, w.h.Share.DomainType)
			if err != nil {
				panic(err)
			}
		case "cons":
			m = w.qbftMsg(c)
		case "pre", "post":
			kr := kitRole(c.Ro)
			slot := phase0.Slot(c.H)
			var objs []rk.ObjRef
			t := spectypes.PostConsensusPartialSig
			if c.K == "pre" {
				objs = w.h.PreObjects(kr, w.h.DutyFor(kr, slot))
				t = rk.PreType(kr)
				if len(objs) == 0 { // the attester has no pre-consensus objects: any root will do, the runner refuses the type
					objs = w.h.DecidedObjects(kr, w.h.ConsensusDataFor(kr, slot, "valid"))
					t = spectypes.RandaoPartialSig
				}
			} else {
				objs = w.h.DecidedObjects(kr, w.h.ConsensusDataFor(kr, slot, "valid"))
			}
			m = w.h.GoodPartialSigMsg(beaconRole(c.Ro), t, slot, spectypes.OperatorID(c.Sg), objs)
		default:
			panic("unknown content kind " + c.K)
		}
		msgGlobal[c] = m
	}
	msgMu.Unlock()
	enc, err := m.Encode()
	if err != nil {
		panic(err)
	}
	cp := &spectypes.SSVMessage{}
	if err := cp.Decode(enc); err != nil {
		panic(err)
	}
	dec, err := queue.DecodeSSVMessage(cp)
	if err != nil {
		panic(err)
	}
	return dec
}

// contentOfMsg: the spec content of a real message (used for the messages the REAL code creates: timeout events)
func contentOfMsg(m *queue.DecodedSSVMessage) content {
	ro := roleName(m.MsgID.GetRoleType())
	switch b := m.Body.(type) {
	case *ssvtypes.EventMsg:
		if b.Type == ssvtypes.Timeout {
			td, _ := b.GetTimeoutData()
			return content{K: "timeout", Ro: ro, H: int(td.Height), R: int(td.Round)}
		}
		ed, _ := b.GetExecuteDutyData()
		return content{K: "exec", Ro: ro, H: int(ed.Duty.Slot)}
	case *specqbft.SignedMessage:
		ct := map[specqbft.MessageType]string{specqbft.ProposalMsgType: "proposal", specqbft.PrepareMsgType: "prepare",
			specqbft.CommitMsgType: "commit", specqbft.RoundChangeMsgType: "rc"}[b.Message.MsgType]
		if b.Message.MsgType == specqbft.CommitMsgType && len(b.Signers) >= 3 {
			ct = fmt.Sprintf("dec%d", len(b.Signers))
		}
		return content{K: "cons", Ro: ro, H: int(b.Message.Height), R: int(b.Message.Round), Ct: ct}
	case *spectypes.SignedPartialSignatureMessage:
		k := "pre"
		if b.Message.Type == spectypes.PostConsensusPartialSig {
			k = "post"
		}
		return content{K: k, Ro: ro, H: int(b.Message.Slot), Sg: int(b.Signer)}
	}
	return content{K: "?"}
}

// ---------------------------------------------------------------------------------------------------------
// projection of the real runner (call only from the consumer goroutine of that role, or while it is parked / blocked)

func signersOf(c *specssv.PartialSigContainer) []int {
	set := map[int]bool{}
	if c != nil {
		for _, m := range c.Signatures {
			for s := range m {
				set[int(s)] = true
			}
		}
	}
	out := []int{}
	for s := range set {
		out = append(out, s)
	}
	sort.Ints(out)
	return out
}

func (w *world) project(ro string) runnerProj {
	b := w.runners[beaconRole(ro)].GetBaseRunner()
	p := runnerProj{PreSg: []int{}, PostSg: []int{}}
	if st := b.State; st != nil {
		if st.StartingDuty != nil {
			p.Duty = int(st.StartingDuty.Slot)
		}
		p.Fin = st.Finished
		p.PreSg = signersOf(st.PreConsensusContainer)
		p.PostSg = signersOf(st.PostConsensusContainer)
		p.Dval = st.DecidedValue != nil
		if st.RunningInstance != nil {
			p.RunH = int(st.RunningInstance.GetHeight())
		}
	}
	c := b.QBFTController
	p.Ch = int(c.Height)
	for h := 1; h <= maxH; h++ {
		ip := instProj{}
		if in := c.StoredInstances.FindInstance(specqbft.Height(h)); in != nil {
			ip = instProj{On: true, R: int(in.State.Round), Pa: in.State.ProposalAcceptedForCurrentRound != nil, Dec: in.State.Decided,
				Stop: !in.CanProcessMessages()}
		}
		p.St = append(p.St, ip)
	}
	return p
}

// snapOf: the spec's SnapOf on a projection (the harness's own transcription of the top of ConsumeQueue's loop)
func snapOf(p runnerProj) snapshot {
	hasDuty := p.Duty != 0 && !p.Fin
	var ri instProj
	if p.RunH != 0 {
		ri = p.St[p.RunH-1]
	}
	s := snapshot{Hd: hasDuty, Height: p.Ch, Round: 1, Fk: "any"}
	s.Hri = hasDuty && p.RunH != 0 && !ri.Dec
	if hasDuty && p.RunH != 0 {
		s.Round = ri.R
	}
	if !hasDuty {
		s.Fk = "exec"
	} else if p.RunH != 0 && !ri.Pa {
		s.Fk = "nopc"
	}
	return s
}

// ---------------------------------------------------------------------------------------------------------
// probing the prioritizer and the filter ConsumeQueue handed to Pop

func probeCons(t specqbft.MessageType, h, r int) *queue.DecodedSSVMessage {
	return &queue.DecodedSSVMessage{SSVMessage: &spectypes.SSVMessage{MsgType: spectypes.SSVConsensusMsgType},
		Body: &specqbft.SignedMessage{Message: specqbft.Message{MsgType: t, Height: specqbft.Height(h), Round: specqbft.Round(r)}, Signers: []spectypes.OperatorID{2}}}
}

var (
	probeTimeout = &queue.DecodedSSVMessage{SSVMessage: &spectypes.SSVMessage{}, Body: &ssvtypes.EventMsg{Type: ssvtypes.Timeout}}
	probePre0    = &queue.DecodedSSVMessage{SSVMessage: &spectypes.SSVMessage{MsgType: spectypes.SSVPartialSignatureMsgType},
		Body: &spectypes.SignedPartialSignatureMessage{Message: spectypes.PartialSignatureMessages{Type: spectypes.RandaoPartialSig, Slot: 0}}}
)

const probeMaxH, probeMaxR = 4, 16

func strictly(p queue.MessagePrioritizer, a, b *queue.DecodedSSVMessage) bool { return p.Prior(a, b) && !p.Prior(b, a) }

func probe(p queue.MessagePrioritizer, f queue.Filter) snapshot {
	s := snapshot{Height: -1, Round: -1, Fk: "any"}
	// prioritizer: Height = the H whose prepare strictly beats the prepare of H+1; Round likewise; HasRunningInstance =
	// a current-height consensus message strictly beats a partial-signature message of slot 0 (= State.Slot, never set)
	for h := 0; h <= probeMaxH; h++ {
		if strictly(p, probeCons(specqbft.PrepareMsgType, h, 1), probeCons(specqbft.PrepareMsgType, h+1, 1)) {
			s.Height = h
			break
		}
	}
	for r := 1; r <= probeMaxR; r++ {
		if strictly(p, probeCons(specqbft.PrepareMsgType, s.Height, r), probeCons(specqbft.PrepareMsgType, s.Height, r+1)) {
			s.Round = r
			break
		}
	}
	s.Hri = strictly(p, probeCons(specqbft.PrepareMsgType, s.Height, s.Round), probePre0)
	// filter
	s.Hd = f(probeTimeout)
	if !s.Hd {
		s.Fk = "exec"
	} else {
	search:
		for h := 0; h <= probeMaxH; h++ {
			for r := 1; r <= probeMaxR; r++ {
				if !f(probeCons(specqbft.PrepareMsgType, h, r)) {
					s.Fk = "nopc"
					if h != s.Height || r != s.Round || f(probeCons(specqbft.CommitMsgType, h, r)) || !f(probeCons(specqbft.ProposalMsgType, h, r)) {
						s.Fk = fmt.Sprintf("nopc?(%d,%d)", h, r) // not the filter the spec describes
					}
					break search
				}
			}
		}
	}
	return s
}

// ---------------------------------------------------------------------------------------------------------
// the queue wrapper

type qwrap struct {
	w     *world
	ro    string
	inner queue.Queue
}

func (q *qwrap) idOf(m *queue.DecodedSSVMessage) int { // w.mu held
	if id, ok := q.w.ids[m]; ok {
		return id
	}
	id := q.w.nextID
	q.w.nextID++
	q.w.ids[m] = id
	q.w.cont[id] = contentOfMsg(m)
	return id
}

func (q *qwrap) TryPush(m *queue.DecodedSSVMessage) bool {
	w := q.w
	w.mu.Lock()
	defer w.mu.Unlock()
	ok := q.inner.TryPush(m) // under the recording mutex: the recorded order IS the channel order
	id := q.idOf(m)
	res := "ok"
	if !ok {
		res = "drop"
	}
	w.lastPush.id, w.lastPush.res = id, res
	if w.record {
		w.events = append(w.events, event{Kind: "Push", Ro: q.ro, ID: id, C: w.cont[id], Res: res})
	}
	return ok
}

func (q *qwrap) Push(m *queue.DecodedSSVMessage) { q.inner.Push(m) }
func (q *qwrap) TryPop(p queue.MessagePrioritizer, f queue.Filter) *queue.DecodedSSVMessage {
	return q.inner.TryPop(p, f)
}
func (q *qwrap) Empty() bool { return q.inner.Empty() }
func (q *qwrap) Len() int    { return q.inner.Len() }

// Pop is called by the validator's consumer goroutine only (ConsumeQueue).
func (q *qwrap) Pop(ctx context.Context, p queue.MessagePrioritizer, f queue.Filter) *queue.DecodedSSVMessage {
	w := q.w
	c := w.cons[q.ro]
	sn := probe(p, f)
	rn := w.project(q.ro) // this goroutine is the only one that changes this runner
	w.errMu.Lock()
	errText, failed := w.lastErr[q.ro]
	delete(w.lastErr, q.ro)
	w.errMu.Unlock()
	_ = errText
	w.mu.Lock()
	c.snap, c.rn, c.done, c.ok = sn, rn, c.popped, !failed
	if w.record {
		w.events = append(w.events, event{Kind: "PopEnter", Ro: q.ro, Snap: sn, Rn: rn, Done: c.done, Ok: c.ok})
	}
	c.at, c.parkedT = "G1", time.Now()
	c.seq++
	gated := w.gated && !w.released
	w.cv.Broadcast()
	w.mu.Unlock()
	if gated {
		select {
		case <-c.g1:
		case <-ctx.Done():
		}
	}
	w.mu.Lock()
	c.at = "inpop"
	w.cv.Broadcast()
	w.mu.Unlock()

	m := q.inner.Pop(ctx, p, f)

	w.mu.Lock()
	c.popped = 0
	if m != nil {
		c.popped = q.idOf(m)
	}
	if w.record && m != nil {
		w.events = append(w.events, event{Kind: "PopReturn", Ro: q.ro, ID: c.popped})
	}
	c.at, c.parkedT = "G2", time.Now()
	c.seq++
	gated = w.gated && !w.released && m != nil
	if m == nil {
		c.at = "gone"
	}
	w.cv.Broadcast()
	w.mu.Unlock()
	if gated {
		select {
		case <-c.g2:
		case <-ctx.Done():
		}
	}
	if m != nil {
		w.mu.Lock()
		c.at = "handler"
		w.mu.Unlock()
	}
	return m
}

// waitAt blocks until the consumer of ro is parked at `at` (with a sequence number above `after`), or the timeout expires.
func (w *world) waitAt(ro, at string, after int, d time.Duration) bool {
	deadline := time.Now().Add(d)
	w.mu.Lock()
	defer w.mu.Unlock()
	c := w.cons[ro]
	for !(c.at == at && c.seq > after) {
		if time.Now().After(deadline) {
			return false
		}
		w.mu.Unlock()
		time.Sleep(50 * time.Microsecond)
		w.mu.Lock()
	}
	return true
}

func heightOf(h int) specqbft.Height { return specqbft.Height(h) }
func roundOf(r int) specqbft.Round   { return specqbft.Round(r) }

func blsKeys(m map[spectypes.OperatorID]*blsSecretKey, ids []spectypes.OperatorID) []*blsSecretKey {
	out := []*blsSecretKey{}
	for _, i := range ids {
		out = append(out, m[i])
	}
	return out
}
