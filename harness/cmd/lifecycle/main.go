// Driver for spec/Lifecycle.tla: the validator lifecycle on one node - REAL eth/eventhandler.EventHandler
// wired to the REAL operator/validator controller (validator.NewController) as its task executor, real node
// storage / key manager / decided stores on one in-memory badger, real BLS owner signatures and RSA-encrypted
// share keys in ABI-packed contract logs, real validator.Validator objects started by validator.Start over a
// stub network; the metadata goroutine is played by the driver through beaconprotocol.UpdateValidatorsMetadata
// and the controller's UpdateValidatorMetadata.  The real code is single-stepped at the spec's grain through gates
// in the event parser (between two events, before the commit), in the task executor (before every task) and in
// Shares().List (inside StartValidators).
//
//	-mode replay   TLC behaviours (graph cover, simulation, counterexamples of the L-facts): after every step
//	               the real projection (stored shares in memory and in the database, recipients, validatorsMap
//	               with the recipient of every running validator, the task about to be executed) is compared
//	               with the spec state; mismatch = divergence.  The L-facts are evaluated on the REAL projection
//	               wherever the spec state is quiescent: a failing fact = observation (never a verdict).
//	-mode record   seeded random executions of the real code, one trace event per handled event / commit /
//	               executed task / metadata update / restart / node-start step, for TLC trace validation
//	               (LifecycleTrace.tla)
package main

import (
	"context"
	"encoding/json"
	"flag"
	"fmt"
	"math/rand"
	"os"
	"reflect"
	"sort"
	"strings"
	"sync"
	"time"

	"github.com/dgraph-io/badger/v4"
	ethcommon "github.com/ethereum/go-ethereum/common"
	ethtypes "github.com/ethereum/go-ethereum/core/types"

	"github.com/bloxapp/ssv/eth/executionclient"
	"github.com/bloxapp/ssv/storage/basedb"
	"github.com/bloxapp/ssv/storage/kv"

	"verif/harness/vh"
)

type agg struct {
	mu  sync.Mutex
	res *vh.Result
	obs map[string]any // first witness per observation
}

func (a *agg) diverge(beh string, step int, field string, spec, real any) {
	a.mu.Lock()
	a.res.Diverge(beh, step, field, spec, real)
	a.mu.Unlock()
}
func (a *agg) count(k string, n int) {
	a.mu.Lock()
	a.res.Counters[k] += n
	a.mu.Unlock()
}
func (a *agg) note(s string) {
	a.mu.Lock()
	if len(a.res.Notes) < 40 {
		a.res.Notes = append(a.res.Notes, s)
	}
	a.mu.Unlock()
}
func (a *agg) observe(fact, beh string, step int, detail any) {
	a.mu.Lock()
	a.res.Counters["obs:"+fact]++
	if _, ok := a.obs[fact]; !ok {
		a.obs[fact] = map[string]any{"fact": fact, "behaviour": beh, "step": step, "real": detail}
	}
	if strings.HasPrefix(beh, "obs-") { // counterexample of a fact: one witness per (fact, trace)
		if _, ok := a.obs[fact+"@"+beh]; !ok {
			a.obs[fact+"@"+beh] = map[string]any{"fact": fact, "behaviour": beh, "step": step, "real": detail}
		}
	}
	a.mu.Unlock()
}

func js(v any) string {
	b, _ := json.Marshal(v)
	return string(b)
}

// ---------------------------------------------------------------------------------------------------------
// database pool (opening an in-memory badger costs ~0.4 s)

var (
	dbPoolMu sync.Mutex
	dbPool   []*kv.BadgerDB
)

func newRawDB() (*kv.BadgerDB, error) {
	dbPoolMu.Lock()
	if k := len(dbPool); k > 0 {
		raw := dbPool[k-1]
		dbPool = dbPool[:k-1]
		dbPoolMu.Unlock()
		return raw, nil
	}
	dbPoolMu.Unlock()
	return kv.NewInMemory(nopLogger, basedb.Options{Ctx: context.Background()})
}

func releaseDB(raw *kv.BadgerDB) {
	if raw == nil {
		return
	}
	db := raw.Badger()
	list := func() [][]byte {
		var keys [][]byte
		_ = db.View(func(txn *badger.Txn) error {
			opt := badger.DefaultIteratorOptions
			opt.PrefetchValues = false
			it := txn.NewIterator(opt)
			defer it.Close()
			for it.Rewind(); it.Valid(); it.Next() {
				keys = append(keys, it.Item().KeyCopy(nil))
			}
			return nil
		})
		return keys
	}
	keys := list()
	err := db.Update(func(txn *badger.Txn) error {
		for _, k := range keys {
			if err := txn.Delete(k); err != nil {
				return err
			}
		}
		return nil
	})
	if err != nil || len(list()) != 0 {
		_ = raw.Close()
		return
	}
	dbPoolMu.Lock()
	dbPool = append(dbPool, raw)
	dbPoolMu.Unlock()
}

// ---------------------------------------------------------------------------------------------------------
// a world: one database, the node currently running on it, the event goroutine being single-stepped

type streamRes struct {
	err     error
	crashed bool
}

type world struct {
	raw     *kv.BadgerDB
	n       *node
	vals    []string
	blockNo int
	nonce   map[string]int
	live    bool   // executeTasks (false = history sync)
	phase   string // "idle" | "open" | "exec": where the event goroutine is paused
	at      string // last gate point reported by the event goroutine
	stream  chan streamRes
	svState string // "idle" | "listed" | "done"
	svDone  chan bool
	lastErr error
}

const gateWait = 30 * time.Second

func newWorld(vals []string) (*world, error) {
	raw, err := newRawDB()
	if err != nil {
		return nil, err
	}
	w := &world{raw: raw, vals: vals, blockNo: 1, nonce: map[string]int{}, live: true, phase: "idle", svState: "done"}
	if w.n, err = boot(raw); err != nil {
		return nil, err
	}
	if err = w.n.setupBlock(); err != nil {
		return nil, err
	}
	// the initial state of the spec: a node whose start-up finished on an empty registry
	w.n.ctrl.StartValidators()
	w.n.started = true
	return w, nil
}

// close abandons whatever is paused and releases the database
func (w *world) close() {
	w.abandon()
	w.n.stop()
	time.Sleep(time.Millisecond)
	releaseDB(w.raw)
}

// abandon kills the paused goroutines (event goroutine, StartValidators) the way a process death would
func (w *world) abandon() {
	if w.phase != "idle" {
		w.n.evGate.arm(false)
		select {
		case w.n.evGate.cont <- false:
			<-w.stream
		case <-w.stream:
		case <-time.After(gateWait):
		}
		w.phase = "idle"
	}
	if w.svState == "listed" {
		w.n.svGate.arm(false)
		select {
		case w.n.svGate.cont <- false:
			<-w.svDone
		case <-w.svDone:
		case <-time.After(gateWait):
		}
		w.svState = "idle"
	}
}

// waitEv: next report of the event goroutine: "event" | "end" | "task" | "done" | "timeout"
func (w *world) waitEv() string {
	select {
	case p := <-w.n.evGate.at:
		w.at = p
	case r := <-w.stream:
		w.at = "done"
		w.lastErr = r.err
		if r.crashed {
			w.at = "crashed"
		}
	case <-time.After(gateWait):
		w.at = "timeout"
	}
	return w.at
}

// startBlock hands one block (its events are known in advance: a block is delivered as a whole) to
// HandleBlockEventsStream on its own goroutine and stops before the first event
func (w *world) startBlock(events []event) error {
	w.blockNo++
	logs := make([]ethtypes.Log, 0, len(events)+1)
	for i, e := range events {
		nonce := 0
		if e.K == "VAdd" {
			nonce = w.nonce[e.O]
			w.nonce[e.O]++
		}
		l, err := mat.buildLog(e, nonce, uint64(w.blockNo), uint(i))
		if err != nil {
			return err
		}
		logs = append(logs, l)
	}
	// an unknown event ("failed to find event by ID", skipped) marks the point before SaveLastProcessedBlock + Commit
	logs = append(logs, ethtypes.Log{Topics: []ethcommon.Hash{sentinelTopic}, BlockNumber: uint64(w.blockNo), Index: uint(len(events))})
	ch := make(chan executionclient.BlockLogs, 1)
	ch <- executionclient.BlockLogs{BlockNumber: uint64(w.blockNo), Logs: logs}
	close(ch)
	w.stream = make(chan streamRes, 1)
	n, live := w.n, w.live
	n.evGate.arm(true)
	go func() {
		var res streamRes
		defer func() {
			if r := recover(); r != nil {
				if _, ok := r.(crashSentinel); !ok {
					panic(r)
				}
				res.crashed = true
			}
			n.evGate.arm(false)
			w.stream <- res
		}()
		_, res.err = n.eh.HandleBlockEventsStream(ch, live)
	}()
	w.phase = "open"
	if p := w.waitEv(); p != "event" && p != "end" {
		return fmt.Errorf("block %d: event goroutine reported %q before the first event (err=%v)", w.blockNo, p, w.lastErr)
	}
	return nil
}

// stepEvent lets the event goroutine process the event it is paused at
func (w *world) stepEvent() error {
	if w.phase != "open" || w.at != "event" {
		return fmt.Errorf("no event to process (phase %s, at %s)", w.phase, w.at)
	}
	w.n.evGate.cont <- true
	if p := w.waitEv(); p != "event" && p != "end" {
		w.phase = "idle"
		return fmt.Errorf("after an event the event goroutine reported %q (err=%v)", p, w.lastErr)
	}
	return nil
}

// stepCommit: SaveLastProcessedBlock + Commit; returns whether a task is about to be executed
func (w *world) stepCommit() (bool, error) {
	if w.phase != "open" || w.at != "end" {
		return false, fmt.Errorf("not at the end of a block (phase %s, at %s)", w.phase, w.at)
	}
	w.n.evGate.cont <- true
	switch p := w.waitEv(); p {
	case "task":
		w.phase = "exec"
		return true, nil
	case "done":
		w.phase = "idle"
		if w.lastErr != nil {
			return false, fmt.Errorf("block %d: handler error: %v", w.blockNo, w.lastErr)
		}
		return false, nil
	default:
		w.phase = "idle"
		return false, fmt.Errorf("after the commit the event goroutine reported %q", p)
	}
}

// stepExec executes the task the goroutine is paused at; returns the task and whether another one follows
func (w *world) stepExec() (taskSeen, bool, error) {
	if w.phase != "exec" || w.at != "task" {
		return taskSeen{}, false, fmt.Errorf("no task to execute (phase %s, at %s)", w.phase, w.at)
	}
	t := *w.n.exec.pending()
	w.n.evGate.cont <- true
	switch p := w.waitEv(); p {
	case "task":
		return t, true, nil
	case "done":
		w.phase = "idle"
		return t, false, nil
	default:
		w.phase = "idle"
		return t, false, fmt.Errorf("after a task the event goroutine reported %q", p)
	}
}

func (w *world) restart() error {
	w.abandon()
	w.n.stop()
	n, err := boot(w.raw)
	if err != nil {
		return err
	}
	w.n, w.live, w.svState = n, false, "idle"
	return nil
}

func (w *world) startList() error {
	if w.n.started {
		return fmt.Errorf("StartValidators was already called on this controller")
	}
	w.n.started = true
	w.svDone = make(chan bool, 1)
	n := w.n
	n.svGate.arm(true)
	go func() {
		defer func() {
			if r := recover(); r != nil {
				if _, ok := r.(crashSentinel); !ok {
					panic(r)
				}
			}
			n.svGate.arm(false)
			w.svDone <- true
		}()
		n.ctrl.StartValidators()
	}()
	select {
	case <-n.svGate.at:
		w.svState = "listed"
		return nil
	case <-w.svDone:
		return fmt.Errorf("StartValidators returned without listing the shares")
	case <-time.After(gateWait):
		return fmt.Errorf("StartValidators: timeout")
	}
}

func (w *world) startSetup() error {
	if w.svState != "listed" {
		return fmt.Errorf("StartValidators is not paused after the listing")
	}
	w.n.svGate.arm(false)
	w.n.svGate.cont <- true
	select {
	case <-w.svDone:
		w.svState = "done"
		return nil
	case <-time.After(gateWait):
		return fmt.Errorf("StartValidators: timeout in setup")
	}
}

func (w *world) startAll() error {
	if w.n.started {
		return fmt.Errorf("StartValidators was already called on this controller")
	}
	w.n.started = true
	w.n.ctrl.StartValidators()
	w.svState = "done"
	return nil
}

// ---------------------------------------------------------------------------------------------------------
// spec state decoding and comparison

func decShare(m map[string]any) shareP {
	return shareP{On: vh.Bool(m, "on"), Owner: vh.Str(m, "owner"), Comm: vh.Str(m, "comm"), Liq: vh.Bool(m, "liq"), Meta: vh.Bool(m, "meta")}
}

type specState struct {
	Mem     map[string]shareP
	Db      map[string]shareP
	Rcpt    map[string]rcptP
	Running map[string]runP
	NTasks  int
	Blk     string
	Mode    string
	Sv      string
}

func decState(st map[string]any, vals []string) *specState {
	if st == nil || st["mem"] == nil {
		return nil
	}
	s := &specState{Mem: map[string]shareP{}, Db: map[string]shareP{}, Rcpt: map[string]rcptP{}, Running: map[string]runP{},
		Blk: vh.Str(st, "blk"), Mode: vh.Str(st, "mode"), Sv: vh.Str(st, "sv"), NTasks: len(vh.List(st, "tasks"))}
	mem, db, run := vh.Map(st, "mem"), vh.Map(st, "db"), vh.Map(st, "running")
	for _, v := range vals {
		s.Mem[v] = decShare(vh.Map(mem, v))
		s.Db[v] = decShare(vh.Map(vh.Map(db, "shares"), v))
		r := vh.Map(run, v)
		s.Running[v] = runP{On: vh.Bool(r, "on"), Owner: vh.Str(r, "owner"), Fee: vh.Str(r, "fee")}
	}
	for _, o := range owners {
		r := vh.Map(vh.Map(db, "rcpt"), o)
		s.Rcpt[o] = rcptP{On: vh.Bool(r, "on"), Fee: vh.Str(r, "fee")}
	}
	return s
}

func valsOf(b vh.Behaviour) []string {
	for _, st := range b.Steps {
		if m := vh.Map(st.State, "mem"); m != nil {
			out := []string{}
			for k := range m {
				out = append(out, k)
			}
			sort.Strings(out)
			return out
		}
	}
	return []string{"v1", "v2"}
}

func normShare(s shareP) shareP {
	if !s.On {
		return shareP{}
	}
	return s
}

// conform compares the real projection with the spec state; returns the number of mismatching fields
func conform(a *agg, beh string, step int, s *specState, p projT, vals []string) int {
	bad := 0
	for _, v := range vals {
		if normShare(s.Mem[v]) != normShare(p.Mem[v]) {
			a.diverge(beh, step, "mem."+v, s.Mem[v], p.Mem[v])
			bad++
		}
		if normShare(s.Db[v]) != normShare(p.Db[v]) {
			a.diverge(beh, step, "db."+v, s.Db[v], p.Db[v])
			bad++
		}
		sr, pr := s.Running[v], p.Running[v]
		if sr.On != pr.On || (sr.On && sr != pr) {
			a.diverge(beh, step, "running."+v, sr, pr)
			bad++
		}
	}
	for _, o := range owners {
		sr, pr := s.Rcpt[o], p.Rcpt[o]
		if sr.On != pr.On || (sr.On && sr.Fee != pr.Fee) {
			a.diverge(beh, step, "rcpt."+o, sr, pr)
			bad++
		}
	}
	if len(p.Extra) > 0 {
		a.diverge(beh, step, "extra", nil, p.Extra)
		bad++
	}
	return bad
}

func isMine(s shareP) bool { return s.On && (s.Comm == "cA" || s.Comm == "cB") }

func dbFee(p projT, o string) string {
	if p.Rcpt[o].On {
		return p.Rcpt[o].Fee
	}
	return "own"
}

// facts evaluates the L-facts of the spec on the REAL projection of a quiescent state
func facts(a *agg, beh string, step int, p projT, vals []string) {
	a.count("fact_evaluations", 1)
	for _, v := range vals {
		m, d, r := p.Mem[v], p.Db[v], p.Running[v]
		eligMem := isMine(m) && !m.Liq && m.Meta
		eligDb := isMine(d) && !d.Liq && d.Meta
		det := map[string]any{"validator": v, "mem": m, "db": d, "running": r}
		if eligMem && !r.On {
			a.observe("L1a_NoneMissing", beh, step, det)
		}
		if r.On && !eligMem {
			a.observe("L1b_NoneExtra", beh, step, det)
		}
		if r.On && m.On && m.Liq {
			a.observe("L2_NoLiquidatedRunning", beh, step, det)
		}
		if r.On && !m.On {
			a.observe("L2b_NoRemovedRunning", beh, step, det)
		}
		if r.On != eligDb {
			a.observe("L3_RestartIndependent", beh, step, det)
		}
		if normShare(m) != normShare(d) {
			a.observe("L3a_MemIsDb", beh, step, det)
		}
		if r.On && r.Fee != dbFee(p, r.Owner) {
			det["stored_fee"] = dbFee(p, r.Owner)
			a.observe("L4_FeeIsStored", beh, step, det)
		}
	}
}

// ---------------------------------------------------------------------------------------------------------
// mode replay

// blockAhead: the events of the block that starts at step i (a block is delivered as a whole)
func blockAhead(steps []vh.Step, i int) []event {
	var evs []event
	for ; i < len(steps); i++ {
		switch vh.Str(steps[i].Act, "name") {
		case "Event":
			evs = append(evs, eventOf(vh.Map(steps[i].Act, "e")))
		case "Commit", "Restart":
			return evs
		}
	}
	return evs
}

func replayOne(b vh.Behaviour, a *agg) {
	vals := valsOf(b)
	w, err := newWorld(vals)
	if err != nil {
		panic(err)
	}
	defer w.close()
	steps := 0
	defer func() { a.count("steps", steps) }()
	nontrivial := false
	for i, st := range b.Steps {
		name := vh.Str(st.Act, "name")
		spec := decState(st.State, vals)
		before := projT{}
		var stepErr error
		switch name {
		case "Init":
			// the world was booted into the spec's initial state
		case "Event":
			if w.phase == "idle" {
				stepErr = w.startBlock(blockAhead(b.Steps, i))
			}
			if stepErr == nil {
				stepErr = w.stepEvent()
			}
			k := vh.Str(vh.Map(st.Act, "e"), "k")
			if k != "OpRem" && k != "Fee" {
				nontrivial = true
			}
		case "Commit":
			var more bool
			more, stepErr = w.stepCommit()
			if stepErr == nil && spec != nil && more != (spec.NTasks > 0 && spec.Blk == "exec") {
				a.diverge(b.ID, i, "flow.tasks-after-commit", spec.NTasks, more)
			}
		case "Exec":
			before = w.n.project(vals)
			var t taskSeen
			var more bool
			t, more, stepErr = w.stepExec()
			if stepErr == nil {
				want := taskSeen{T: vh.Str(st.Act, "t"), Vs: []string{}}
				switch want.T {
				case "start":
					want.O, want.V = vh.Str(st.Act, "o"), vh.Str(st.Act, "v")
				case "stop", "exit":
					want.V = vh.Str(st.Act, "v")
				case "liquidate", "reactivate":
					want.O = vh.Str(st.Act, "o")
					for _, x := range vh.List(st.Act, "vs") {
						want.Vs = append(want.Vs, x.(string))
					}
					sort.Strings(want.Vs)
				case "fee":
					want.O, want.F = vh.Str(st.Act, "o"), vh.Str(st.Act, "f")
				}
				if !reflect.DeepEqual(want, t) {
					a.diverge(b.ID, i, "task", want, t)
				}
				if spec != nil && more != (spec.NTasks > 0) {
					a.diverge(b.ID, i, "flow.tasks-left", spec.NTasks, more)
				}
				if t.T == "exit" {
					if !w.n.takeExit(t.V, 10*time.Second) {
						a.diverge(b.ID, i, "exit-descriptor", t.V, "not delivered to the exit channel")
					}
					a.count("exit_tasks", 1)
					if w.svState == "done" && !before.Running[t.V].On {
						a.observe("L5_ExitOnlyRunning", b.ID, i, map[string]any{"validator": t.V, "mem": before.Mem[t.V], "running": before.Running[t.V]})
					}
				}
			}
		case "MetaUpdate":
			stepErr = w.n.metaUpdate(vh.Str(st.Act, "v"))
		case "Restart":
			stepErr = w.restart()
			a.count("restarts", 1)
		case "SyncDone":
			w.live = true
		case "StartList":
			stepErr = w.startList()
		case "StartSetup":
			stepErr = w.startSetup()
		case "StartAll":
			stepErr = w.startAll()
		default:
			stepErr = fmt.Errorf("unknown action %q", name)
		}
		if stepErr != nil {
			a.diverge(b.ID, i, "step-failed:"+name, js(st.Act), stepErr.Error())
			a.count("behaviours_abandoned", 1)
			return
		}
		steps++
		if spec == nil {
			continue
		}
		p := w.n.project(vals)
		if conform(a, b.ID, i, spec, p, vals) > 0 {
			a.count("diverged_steps", 1)
		}
		if spec.Blk == "idle" && spec.Mode == "live" && spec.Sv == "done" && w.phase == "idle" && w.svState == "done" {
			facts(a, b.ID, i, p, vals)
		}
	}
	if nontrivial {
		a.count("nontrivial", 1)
	}
}

// ---------------------------------------------------------------------------------------------------------
// mode record: seeded random executions of the real code

// randomEvent draws the next contract event; the weights follow the real state so that the executions walk through
// whole lives (registered -> metadata -> liquidated -> reactivated -> recipient changed -> exited -> removed)
func randomEvent(rng *rand.Rand, p projT, vals []string) event {
	var stored, absent, liquidated []string
	for _, v := range vals {
		switch {
		case !p.Mem[v].On:
			absent = append(absent, v)
		case p.Mem[v].Liq:
			liquidated = append(liquidated, v)
			stored = append(stored, v)
		default:
			stored = append(stored, v)
		}
	}
	pick := func(l []string) string { return l[rng.Intn(len(l))] }
	anyOwner := func() string {
		if rng.Intn(4) == 0 {
			return "o2"
		}
		return "o1"
	}
	cs := []string{"cA", "cA", "cB", "cX"}
	w := map[string]int{"VAdd": 10, "VRem": 4, "VExit": 4, "Liq": 8, "React": 6, "Fee": 10, "OpRem": 2}
	if len(absent) > 0 {
		w["VAdd"] += 10 * len(absent)
	}
	if len(stored) > 0 {
		w["VRem"] += 6
		w["VExit"] += 5
		w["Liq"] += 10
	}
	if len(liquidated) > 0 {
		w["React"] += 25
	}
	total := 0
	kinds := []string{"VAdd", "VRem", "VExit", "Liq", "React", "Fee", "OpRem"}
	for _, k := range kinds {
		total += w[k]
	}
	x, kind := rng.Intn(total), ""
	for _, k := range kinds {
		if x < w[k] {
			kind = k
			break
		}
		x -= w[k]
	}
	// a stored validator the event is about (mostly), or an arbitrary one
	about := func(pref []string) (string, string, string) {
		if len(pref) > 0 && rng.Intn(6) > 0 {
			v := pick(pref)
			o := p.Mem[v].Owner
			if rng.Intn(8) == 0 {
				o = anyOwner() // sometimes the wrong owner
			}
			return v, o, p.Mem[v].Comm
		}
		return pick(vals), anyOwner(), cs[rng.Intn(len(cs))]
	}
	switch kind {
	case "VAdd":
		v, o, c, q := pick(vals), anyOwner(), cs[rng.Intn(len(cs))], "ok"
		if len(absent) > 0 && rng.Intn(5) > 0 {
			v = pick(absent)
		}
		if rng.Intn(10) == 0 {
			q = "bad"
		}
		return event{K: "VAdd", O: o, V: v, C: c, Q: q}
	case "VRem":
		v, o, _ := about(stored)
		return event{K: "VRem", O: o, V: v}
	case "VExit":
		v, o, _ := about(stored)
		return event{K: "VExit", O: o, V: v}
	case "Liq":
		_, o, c := about(stored)
		return event{K: "Liq", O: o, C: c}
	case "React":
		_, o, c := about(liquidated)
		return event{K: "React", O: o, C: c}
	case "Fee":
		fs := []string{"a", "b", "own"}
		return event{K: "Fee", O: anyOwner(), F: fs[rng.Intn(3)]}
	}
	return event{K: "OpRem"}
}

func recordRun(rng *rand.Rand, run int, tw *vh.TraceWriter, twMu *sync.Mutex, a *agg, maxSteps int) {
	vals := validators
	w, err := newWorld(vals)
	if err != nil {
		panic(err)
	}
	defer w.close()
	var lines []map[string]any
	emit := func(ev string, extra map[string]any) {
		p := w.n.project(vals)
		if len(p.Extra) > 0 {
			a.diverge(fmt.Sprintf("own-%d", run), len(lines), "extra", nil, p.Extra)
		}
		m := map[string]any{"event": ev, "mem": p.Mem, "db": p.Db, "rcpt": p.Rcpt, "running": p.Running}
		for k, v := range extra {
			m[k] = v
		}
		lines = append(lines, m)
	}
	lines = append(lines, map[string]any{"event": "Reset"})
	restarts := 0
	var plan []event // events of the open block not yet processed
	fail := func(what string, err error) {
		a.diverge(fmt.Sprintf("own-%d", run), len(lines), "step-failed:"+what, nil, err.Error())
	}
	for len(lines) < maxSteps {
		// what can happen next (structure only; the content comes from the real state)
		var opts []string
		switch w.phase {
		case "idle":
			opts = append(opts, "block", "block", "block")
			if restarts < 2 {
				opts = append(opts, "restart")
			}
			if !w.live {
				opts = append(opts, "syncdone", "syncdone")
			}
		case "open":
			if len(plan) > 0 {
				opts = append(opts, "event", "event", "event")
			} else {
				opts = append(opts, "commit", "commit", "commit")
			}
		case "exec":
			opts = append(opts, "exec", "exec", "exec", "exec")
			if restarts < 2 {
				opts = append(opts, "restart")
			}
		}
		if w.live && w.svState == "done" {
			opts = append(opts, "meta", "meta", "meta")
		}
		if w.live && w.svState == "idle" {
			opts = append(opts, "startlist", "startlist")
		}
		if w.svState == "listed" {
			opts = append(opts, "startsetup")
		}
		switch opts[rng.Intn(len(opts))] {
		case "block":
			p := w.n.project(vals)
			k := 1 + rng.Intn(3)
			plan = nil
			for j := 0; j < k; j++ {
				plan = append(plan, randomEvent(rng, p, vals))
			}
			// a removal followed by a new registration in one block is the interesting shape
			if rng.Intn(6) == 0 {
				for _, v := range vals {
					if p.Mem[v].On {
						plan = []event{{K: "VRem", O: p.Mem[v].Owner, V: v}, {K: "VAdd", O: p.Mem[v].Owner, V: v, C: p.Mem[v].Comm, Q: "ok"}}
						break
					}
				}
			}
			if err := w.startBlock(plan); err != nil {
				fail("block", err)
				return
			}
		case "event":
			e := plan[0]
			plan = plan[1:]
			if err := w.stepEvent(); err != nil {
				fail("event", err)
				return
			}
			emit("Event", map[string]any{"e": e.toMap()})
		case "commit":
			more, err := w.stepCommit()
			if err != nil {
				fail("commit", err)
				return
			}
			emit("Commit", map[string]any{"more": more})
		case "exec":
			t, more, err := w.stepExec()
			if err != nil {
				fail("exec", err)
				return
			}
			if t.T == "exit" && !w.n.takeExit(t.V, 10*time.Second) {
				fail("exit", fmt.Errorf("exit descriptor of %s not delivered", t.V))
			}
			emit("Exec", map[string]any{"t": t.T, "o": t.O, "v": t.V, "f": t.F, "vs": t.Vs, "more": more})
		case "meta":
			p := w.n.project(vals)
			var stored []string
			for _, v := range vals {
				if p.Mem[v].On {
					stored = append(stored, v)
				}
			}
			if len(stored) == 0 {
				continue
			}
			v := stored[rng.Intn(len(stored))]
			for _, u := range stored { // new shares are fetched first by the real loop
				if !p.Mem[u].Meta && rng.Intn(3) > 0 {
					v = u
				}
			}
			if err := w.n.metaUpdate(v); err != nil {
				fail("meta", err)
				return
			}
			emit("MetaUpdate", map[string]any{"v": v})
		case "restart":
			plan = nil
			if err := w.restart(); err != nil {
				fail("restart", err)
				return
			}
			restarts++
			emit("Restart", nil)
		case "syncdone":
			w.live = true
			emit("SyncDone", nil)
		case "startlist":
			if err := w.startList(); err != nil {
				fail("startlist", err)
				return
			}
			emit("StartList", nil)
		case "startsetup":
			if err := w.startSetup(); err != nil {
				fail("startsetup", err)
				return
			}
			emit("StartSetup", nil)
		}
	}
	twMu.Lock()
	for _, l := range lines {
		tw.Emit(l)
	}
	twMu.Unlock()
	a.count("steps", len(lines)-1)
	a.count("nontrivial", 1)
}

// ---------------------------------------------------------------------------------------------------------

func main() {
	mode := flag.String("mode", "replay", "replay | record")
	in := flag.String("in", "", "behaviours (NDJSON)")
	out := flag.String("out", "", "result file")
	trace := flag.String("trace", "", "trace output (record)")
	seed := flag.Int64("seed", 1, "seed (record)")
	runs := flag.Int("runs", 20, "executions (record)")
	maxSteps := flag.Int("steps", 40, "trace events per execution (record)")
	workers := flag.Int("workers", 4, "parallel worlds")
	flag.Parse()
	if err := initMaterial(); err != nil {
		fmt.Fprintln(os.Stderr, "material:", err)
		os.Exit(3)
	}
	a := &agg{res: vh.NewResult(), obs: map[string]any{}}
	switch *mode {
	case "replay":
		behs, err := vh.ReadBehaviours(*in)
		if err != nil {
			fmt.Fprintln(os.Stderr, err)
			os.Exit(3)
		}
		jobs := make(chan vh.Behaviour)
		var wg sync.WaitGroup
		for k := 0; k < *workers; k++ {
			wg.Add(1)
			go func() {
				defer wg.Done()
				for b := range jobs {
					replayOne(b, a)
				}
			}()
		}
		for _, b := range behs {
			jobs <- b
		}
		close(jobs)
		wg.Wait()
		a.res.Behaviours = len(behs)
	case "record":
		tw, err := vh.NewTraceWriter(*trace)
		if err != nil {
			fmt.Fprintln(os.Stderr, err)
			os.Exit(3)
		}
		var twMu sync.Mutex
		jobs := make(chan int)
		var wg sync.WaitGroup
		for k := 0; k < *workers; k++ {
			wg.Add(1)
			go func() {
				defer wg.Done()
				for r := range jobs {
					recordRun(rand.New(rand.NewSource(*seed*1000003+int64(r))), r, tw, &twMu, a, *maxSteps)
				}
			}()
		}
		for r := 0; r < *runs; r++ {
			jobs <- r
		}
		close(jobs)
		wg.Wait()
		if err := tw.Close(); err != nil {
			fmt.Fprintln(os.Stderr, err)
			os.Exit(3)
		}
		a.res.Behaviours = *runs
		a.res.Counters["trace_events"] = tw.N
	default:
		fmt.Fprintln(os.Stderr, "unknown mode", *mode)
		os.Exit(3)
	}
	a.res.Steps = a.res.Counters["steps"]
	a.res.Nontrivial = a.res.Counters["nontrivial"]
	keys := []string{}
	for k := range a.obs {
		keys = append(keys, k)
	}
	sort.Strings(keys)
	for _, k := range keys {
		a.res.Samples = append(a.res.Samples, a.obs[k])
	}
	_ = strings.TrimSpace
	if err := a.res.Write(*out); err != nil {
		fmt.Fprintln(os.Stderr, err)
		os.Exit(3)
	}
}
