package main

// Real objects of /repo the Lifecycle spec is bound to: a node = operator storage + key manager + REAL
// eth/eventhandler.EventHandler whose task executor is the REAL operator/validator controller
// (validator.NewController, real validatorsMap, real validator.Validator objects started with validator.Start
// over a stub network), all on one in-memory badger.  Gates inside the event goroutine (event parser, task
// executor) and inside StartValidators (Shares().List) let the driver single-step the real code at the spec's
// grain.  Key material / ABI-packed logs as in cmd/registry.

import (
	"context"
	"encoding/hex"
	"fmt"
	"math/big"
	"sort"
	"sync"
	"time"

	eth2apiv1 "github.com/attestantio/go-eth2-client/api/v1"
	"github.com/attestantio/go-eth2-client/spec/phase0"
	spectypes "github.com/bloxapp/ssv-spec/types"
	ethabi "github.com/ethereum/go-ethereum/accounts/abi"
	ethcommon "github.com/ethereum/go-ethereum/common"
	ethtypes "github.com/ethereum/go-ethereum/core/types"
	"github.com/ethereum/go-ethereum/crypto"
	"github.com/herumi/bls-eth-go-binary/bls"
	"github.com/libp2p/go-libp2p/core/peer"
	"go.uber.org/zap"

	"github.com/bloxapp/ssv/ekm"
	"github.com/bloxapp/ssv/eth/contract"
	"github.com/bloxapp/ssv/eth/eventhandler"
	"github.com/bloxapp/ssv/eth/eventparser"
	"github.com/bloxapp/ssv/eth/executionclient"
	ibftstorage "github.com/bloxapp/ssv/ibft/storage"
	"github.com/bloxapp/ssv/network"
	"github.com/bloxapp/ssv/networkconfig"
	operatordatastore "github.com/bloxapp/ssv/operator/datastore"
	"github.com/bloxapp/ssv/operator/duties"
	"github.com/bloxapp/ssv/operator/keys"
	operatorstorage "github.com/bloxapp/ssv/operator/storage"
	opvalidator "github.com/bloxapp/ssv/operator/validator"
	"github.com/bloxapp/ssv/operator/validatorsmap"
	beaconprotocol "github.com/bloxapp/ssv/protocol/v2/blockchain/beacon"
	p2pprotocol "github.com/bloxapp/ssv/protocol/v2/p2p"
	ssvtypes "github.com/bloxapp/ssv/protocol/v2/types"
	registrystorage "github.com/bloxapp/ssv/registry/storage"
	"github.com/bloxapp/ssv/storage/basedb"
	"github.com/bloxapp/ssv/storage/kv"
	"github.com/bloxapp/ssv/utils/threshold"
)

var (
	owners     = []string{"o1", "o2"}
	validators = []string{"v1", "v2", "v3"}
	opIDs      = []int{1, 2, 3, 4, 5}
	comms      = map[string][]int{"cA": {1, 2, 3, 4}, "cB": {1, 2, 3, 5}, "cX": {2, 3, 4, 5}}
)

// ---------------------------------------------------------------------------------------------------------
// key material, generated once per process

type material struct {
	selfKey   keys.OperatorPrivateKey
	selfPub   []byte
	otherPub  []byte
	ownerAddr map[string]ethcommon.Address
	opOwner   ethcommon.Address
	feeAddr   map[string]ethcommon.Address
	master    map[string]*bls.SecretKey
	forger    map[string]*bls.SecretKey
	valPK     map[string][]byte
	shareSK   map[string]map[int]*bls.SecretKey
	abi       *ethabi.ABI
	parser    *eventparser.EventParser
	mu        sync.Mutex
	encCache  map[string][]byte
	sigCache  map[string][]byte
}

var mat *material

func newSK() *bls.SecretKey {
	sk := &bls.SecretKey{}
	sk.SetByCSPRNG()
	return sk
}

func initMaterial() error {
	threshold.Init()
	m := &material{ownerAddr: map[string]ethcommon.Address{}, feeAddr: map[string]ethcommon.Address{},
		master: map[string]*bls.SecretKey{}, forger: map[string]*bls.SecretKey{}, valPK: map[string][]byte{},
		shareSK: map[string]map[int]*bls.SecretKey{}, encCache: map[string][]byte{}, sigCache: map[string][]byte{}}
	var err error
	if m.selfKey, err = keys.GeneratePrivateKey(); err != nil {
		return err
	}
	if m.selfPub, err = m.selfKey.Public().Base64(); err != nil {
		return err
	}
	other, err := keys.GeneratePrivateKey()
	if err != nil {
		return err
	}
	if m.otherPub, err = other.Public().Base64(); err != nil {
		return err
	}
	m.ownerAddr["o1"] = ethcommon.HexToAddress("0x00000000000000000000000000000000000000a1")
	m.ownerAddr["o2"] = ethcommon.HexToAddress("0x00000000000000000000000000000000000000a2")
	m.opOwner = ethcommon.HexToAddress("0x00000000000000000000000000000000000000b0")
	m.feeAddr["a"] = ethcommon.HexToAddress("0x00000000000000000000000000000000000000fa")
	m.feeAddr["b"] = ethcommon.HexToAddress("0x00000000000000000000000000000000000000fb")
	for _, v := range validators {
		m.master[v], m.forger[v] = newSK(), newSK()
		m.valPK[v] = m.master[v].GetPublicKey().Serialize()
		m.shareSK[v] = map[int]*bls.SecretKey{}
		for _, i := range opIDs {
			m.shareSK[v][i] = newSK()
		}
	}
	if m.abi, err = contract.ContractMetaData.GetAbi(); err != nil {
		return err
	}
	filterer, err := contract.NewContractFilterer(ethcommon.Address{}, nil)
	if err != nil {
		return err
	}
	m.parser = eventparser.New(filterer)
	mat = m
	return nil
}

func (m *material) feeClassAddr(owner, fee string) ethcommon.Address {
	if fee == "own" {
		return m.ownerAddr[owner]
	}
	return m.feeAddr[fee]
}

func (m *material) enc(v string, i int) []byte {
	k := fmt.Sprintf("%s/%d", v, i)
	m.mu.Lock()
	defer m.mu.Unlock()
	if c, ok := m.encCache[k]; ok {
		return c
	}
	c, err := m.selfKey.Public().Encrypt([]byte(m.shareSK[v][i].SerializeToHexStr()))
	if err != nil {
		panic(err)
	}
	m.encCache[k] = c
	return c
}

func (m *material) sig(v, owner string, nonce int, good bool) []byte {
	k := fmt.Sprintf("%s/%s/%d/%v", v, owner, nonce, good)
	m.mu.Lock()
	defer m.mu.Unlock()
	if s, ok := m.sigCache[k]; ok {
		return s
	}
	data := fmt.Sprintf("%s:%d", m.ownerAddr[owner].String(), nonce)
	hash := crypto.Keccak256([]byte(data))
	sk := m.master[v]
	if !good {
		sk = m.forger[v]
	}
	s := sk.SignByte(hash).Serialize()
	m.sigCache[k] = s
	return s
}

// ---------------------------------------------------------------------------------------------------------
// abstract events (the spec's event records) and their contract logs

type event struct {
	K string `json:"k"`
	O string `json:"o"`
	V string `json:"v"`
	C string `json:"c"`
	Q string `json:"q"`
	F string `json:"f"`
}

func eventOf(m map[string]any) event {
	s := func(k string) string { x, _ := m[k].(string); return x }
	return event{K: s("k"), O: s("o"), V: s("v"), C: s("c"), Q: s("q"), F: s("f")}
}

func (e event) toMap() map[string]any {
	return map[string]any{"k": e.K, "o": e.O, "v": e.V, "c": e.C, "q": e.Q, "f": e.F}
}

func (e event) String() string {
	switch e.K {
	case "VAdd":
		return fmt.Sprintf("ValidatorAdded(%s,%s,%s,sig=%s)", e.O, e.V, e.C, e.Q)
	case "VRem":
		return fmt.Sprintf("ValidatorRemoved(%s,%s)", e.O, e.V)
	case "VExit":
		return fmt.Sprintf("ValidatorExited(%s,%s)", e.O, e.V)
	case "Liq":
		return fmt.Sprintf("ClusterLiquidated(%s,%s)", e.O, e.C)
	case "React":
		return fmt.Sprintf("ClusterReactivated(%s,%s)", e.O, e.C)
	case "Fee":
		return fmt.Sprintf("FeeRecipientAddressUpdated(%s,%s)", e.O, e.F)
	case "OpRem":
		return "OperatorRemoved(2)"
	}
	return e.K
}

func u64s(xs []int) []uint64 {
	out := make([]uint64, len(xs))
	for i, x := range xs {
		out[i] = uint64(x)
	}
	return out
}

var cluster = contract.ISSVNetworkCoreCluster{ValidatorCount: 1, NetworkFeeIndex: 1, Index: 1, Active: true, Balance: big.NewInt(100)}

func addrTopic(a ethcommon.Address) ethcommon.Hash { return ethcommon.BytesToHash(a.Bytes()) }

var sentinelTopic = ethcommon.HexToHash("0x5e5e5e5e5e5e5e5e5e5e5e5e5e5e5e5e5e5e5e5e5e5e5e5e5e5e5e5e5e5e5e5e")

// buildLog packs one abstract event; nonce = the owner's registration nonce (number of earlier ValidatorAdded attempts)
func (m *material) buildLog(e event, nonce int, block uint64, idx uint) (ethtypes.Log, error) {
	var name string
	var topics []ethcommon.Hash
	var args []any
	switch e.K {
	case "OpAdd":
		name = "OperatorAdded"
		pk := m.otherPub
		if e.Q == "self" {
			pk = m.selfPub
		}
		packed, err := eventparser.PackOperatorPublicKey(pk)
		if err != nil {
			return ethtypes.Log{}, err
		}
		topics = []ethcommon.Hash{ethcommon.BigToHash(big.NewInt(int64(nonce))), addrTopic(m.opOwner)}
		args = []any{packed, big.NewInt(0)}
	case "OpRem":
		name = "OperatorRemoved"
		topics = []ethcommon.Hash{ethcommon.BigToHash(big.NewInt(2))}
	case "VAdd":
		name = "ValidatorAdded"
		topics = []ethcommon.Hash{addrTopic(m.ownerAddr[e.O])}
		cm := comms[e.C]
		shares := append([]byte{}, m.sig(e.V, e.O, nonce, e.Q == "ok")...)
		for _, i := range cm {
			shares = append(shares, m.shareSK[e.V][i].GetPublicKey().Serialize()...)
		}
		for _, i := range cm {
			shares = append(shares, m.enc(e.V, i)...)
		}
		args = []any{u64s(cm), m.valPK[e.V], shares, cluster}
	case "VRem":
		name = "ValidatorRemoved"
		topics = []ethcommon.Hash{addrTopic(m.ownerAddr[e.O])}
		args = []any{u64s([]int{1, 2, 3, 4}), m.valPK[e.V], cluster}
	case "VExit":
		name = "ValidatorExited"
		topics = []ethcommon.Hash{addrTopic(m.ownerAddr[e.O])}
		args = []any{u64s([]int{1, 2, 3, 4}), m.valPK[e.V]}
	case "Liq", "React":
		name = "ClusterLiquidated"
		if e.K == "React" {
			name = "ClusterReactivated"
		}
		topics = []ethcommon.Hash{addrTopic(m.ownerAddr[e.O])}
		args = []any{u64s(comms[e.C]), cluster}
	case "Fee":
		name = "FeeRecipientAddressUpdated"
		topics = []ethcommon.Hash{addrTopic(m.ownerAddr[e.O])}
		args = []any{m.feeClassAddr(e.O, e.F)}
	default:
		return ethtypes.Log{}, fmt.Errorf("unknown event kind %q", e.K)
	}
	ev, ok := m.abi.Events[name]
	if !ok {
		return ethtypes.Log{}, fmt.Errorf("no ABI event %s", name)
	}
	data, err := ev.Inputs.NonIndexed().Pack(args...)
	if err != nil {
		return ethtypes.Log{}, fmt.Errorf("pack %s: %w", name, err)
	}
	return ethtypes.Log{
		Address:     ethcommon.HexToAddress("0x4B133c68A084B8A88f72eDCd7944B69c8D545f03"),
		Topics:      append([]ethcommon.Hash{ev.ID}, topics...),
		Data:        data,
		BlockNumber: block,
		TxHash:      ethcommon.BigToHash(big.NewInt(int64(block)*1000 + int64(idx))),
		TxIndex:     idx,
		Index:       idx,
	}, nil
}

func valName(pk []byte) string {
	for _, v := range validators {
		if hex.EncodeToString(mat.valPK[v]) == hex.EncodeToString(pk) {
			return v
		}
	}
	return "?" + hex.EncodeToString(pk)[:8]
}

func ownerName(a ethcommon.Address) string {
	for _, o := range owners {
		if mat.ownerAddr[o] == a {
			return o
		}
	}
	return "?" + a.Hex()
}

func commName(ids []uint64) string {
	for name, c := range comms {
		if len(c) != len(ids) {
			continue
		}
		same := true
		for i := range c {
			if uint64(c[i]) != ids[i] {
				same = false
			}
		}
		if same {
			return name
		}
	}
	return fmt.Sprintf("?%v", ids)
}

func feeName(owner ethcommon.Address, fee [20]byte) string {
	switch ethcommon.Address(fee) {
	case owner:
		return "own"
	case mat.feeAddr["a"]:
		return "a"
	case mat.feeAddr["b"]:
		return "b"
	}
	return "?" + hex.EncodeToString(fee[:])
}

// ---------------------------------------------------------------------------------------------------------
// gates: the places where the driver single-steps the real code

type crashSentinel struct{}

type gate struct {
	mu    sync.Mutex
	armed bool
	at    chan string
	cont  chan bool
}

func newGate() *gate { return &gate{at: make(chan string), cont: make(chan bool)} }

func (g *gate) arm(on bool) {
	g.mu.Lock()
	g.armed = on
	g.mu.Unlock()
}

// pause: called on the real code's goroutine; reports the point and waits for the driver
func (g *gate) pause(point string) {
	g.mu.Lock()
	on := g.armed
	g.mu.Unlock()
	if !on {
		return
	}
	g.at <- point
	if !<-g.cont {
		panic(crashSentinel{})
	}
}

// gated event parser: EventByID is the first thing processEvent does with a log
type gatedParser struct {
	eventparser.Parser
	g *gate
}

func (p *gatedParser) EventByID(topic ethcommon.Hash) (*ethabi.Event, error) {
	if topic == sentinelTopic {
		p.g.pause("end")
	} else {
		p.g.pause("event")
	}
	return p.Parser.EventByID(topic)
}

// taskSeen is what the gated executor saw of the task it is about to hand to the controller
type taskSeen struct {
	T  string   `json:"t"`
	O  string   `json:"o"`
	V  string   `json:"v"`
	F  string   `json:"f"`
	Vs []string `json:"vs"`
}

// gated task executor: every method is the controller's, after a pause
type gatedExec struct {
	ctrl opvalidator.Controller
	g    *gate
	mu   sync.Mutex
	next *taskSeen
}

func (x *gatedExec) announce(t taskSeen) {
	if t.Vs == nil {
		t.Vs = []string{}
	}
	sort.Strings(t.Vs)
	x.mu.Lock()
	x.next = &t
	x.mu.Unlock()
	x.g.pause("task")
}
func (x *gatedExec) pending() *taskSeen {
	x.mu.Lock()
	defer x.mu.Unlock()
	return x.next
}
func shareNames(ss []*ssvtypes.SSVShare) []string {
	out := []string{}
	for _, s := range ss {
		out = append(out, valName(s.ValidatorPubKey))
	}
	return out
}
func (x *gatedExec) StartValidator(share *ssvtypes.SSVShare) error {
	x.announce(taskSeen{T: "start", O: ownerName(share.OwnerAddress), V: valName(share.ValidatorPubKey)})
	return x.ctrl.StartValidator(share)
}
func (x *gatedExec) StopValidator(pubKey spectypes.ValidatorPK) error {
	x.announce(taskSeen{T: "stop", V: valName(pubKey)})
	return x.ctrl.StopValidator(pubKey)
}
func (x *gatedExec) LiquidateCluster(owner ethcommon.Address, ids []uint64, s []*ssvtypes.SSVShare) error {
	x.announce(taskSeen{T: "liquidate", O: ownerName(owner), Vs: shareNames(s)})
	return x.ctrl.LiquidateCluster(owner, ids, s)
}
func (x *gatedExec) ReactivateCluster(owner ethcommon.Address, ids []uint64, s []*ssvtypes.SSVShare) error {
	x.announce(taskSeen{T: "reactivate", O: ownerName(owner), Vs: shareNames(s)})
	return x.ctrl.ReactivateCluster(owner, ids, s)
}
func (x *gatedExec) UpdateFeeRecipient(owner, recipient ethcommon.Address) error {
	x.announce(taskSeen{T: "fee", O: ownerName(owner), F: feeName(owner, recipient)})
	return x.ctrl.UpdateFeeRecipient(owner, recipient)
}
func (x *gatedExec) ExitValidator(pubKey phase0.BLSPubKey, blockNumber uint64, validatorIndex phase0.ValidatorIndex) error {
	x.announce(taskSeen{T: "exit", V: valName(pubKey[:])})
	return x.ctrl.ExitValidator(pubKey, blockNumber, validatorIndex)
}

// gated share storage for the controller: StartValidators' List(ByNotLiquidated) reports and waits
type gatedShares struct {
	registrystorage.Shares
	g *gate
}

func (s *gatedShares) List(r basedb.Reader, filters ...registrystorage.SharesFilter) []*ssvtypes.SSVShare {
	out := s.Shares.List(r, filters...)
	s.g.pause("listed") // armed only while StartValidators runs, disarmed when the driver lets it continue
	return out
}

type gatedStorage struct {
	operatorstorage.Storage
	sh *gatedShares
}

func (s *gatedStorage) Shares() registrystorage.Shares { return s.sh }

// ---------------------------------------------------------------------------------------------------------
// stubs of the outside world

type stubNet struct {
	mu   sync.Mutex
	subs map[string]int
}

func (n *stubNet) Broadcast(*spectypes.SSVMessage) error           { return nil }
func (n *stubNet) UseMessageRouter(network.MessageRouter)          {}
func (n *stubNet) Peers(spectypes.ValidatorPK) ([]peer.ID, error)  { return nil, nil }
func (n *stubNet) SubscribeRandoms(*zap.Logger, int) error         { return nil }
func (n *stubNet) RegisterHandlers(*zap.Logger, ...*p2pprotocol.SyncHandler) {}
func (n *stubNet) Subscribe(vpk spectypes.ValidatorPK) error {
	n.mu.Lock()
	n.subs[hex.EncodeToString(vpk)]++
	n.mu.Unlock()
	return nil
}
func (n *stubNet) Unsubscribe(*zap.Logger, spectypes.ValidatorPK) error { return nil }

// fakeBeacon: only what the lifecycle paths touch (everything else would be a nil dereference = a driver bug)
type fakeBeacon struct {
	beaconprotocol.BeaconNode
	mu    sync.Mutex
	known map[string]bool // validator name -> the beacon node knows it
}

func (b *fakeBeacon) GetBeaconNetwork() spectypes.BeaconNetwork { return spectypes.BeaconTestNetwork }
func (b *fakeBeacon) GetValidatorData(pks []phase0.BLSPubKey) (map[phase0.ValidatorIndex]*eth2apiv1.Validator, error) {
	b.mu.Lock()
	defer b.mu.Unlock()
	out := map[phase0.ValidatorIndex]*eth2apiv1.Validator{}
	for _, pk := range pks {
		v := valName(pk[:])
		if !b.known[v] {
			continue
		}
		idx := phase0.ValidatorIndex(100 + int(v[1]-'0'))
		out[idx] = &eth2apiv1.Validator{Index: idx, Balance: 32e9, Status: eth2apiv1.ValidatorStateActiveOngoing,
			Validator: &phase0.Validator{PublicKey: pk, ActivationEpoch: 1}}
	}
	return out, nil
}

// ---------------------------------------------------------------------------------------------------------
// a node on a surviving database

var nopLogger = zap.NewNop()

type node struct {
	raw     *kv.BadgerDB
	ctx     context.Context
	cancel  context.CancelFunc
	ns      operatorstorage.Storage
	ods     operatordatastore.OperatorDataStore
	eh      *eventhandler.EventHandler
	ctrl    opvalidator.Controller
	vmap    *validatorsmap.ValidatorsMap
	net     *stubNet
	beacon  *fakeBeacon
	exec    *gatedExec
	evGate  *gate // event goroutine (parser + task executor)
	svGate  *gate // StartValidators
	exitMu  sync.Mutex
	exits   []string
	started bool // StartValidators was called on this controller
}

var allRoles = []spectypes.BeaconRole{spectypes.BNRoleAttester, spectypes.BNRoleProposer, spectypes.BNRoleAggregator,
	spectypes.BNRoleSyncCommittee, spectypes.BNRoleSyncCommitteeContribution, spectypes.BNRoleValidatorRegistration,
	spectypes.BNRoleVoluntaryExit}

// boot mirrors cli/operator/node.go: node storage, own operator data looked up by public key, key manager over
// the same db, validator controller (validator.NewController), event handler with the controller as task executor.
func boot(raw *kv.BadgerDB) (*node, error) {
	n := &node{raw: raw, evGate: newGate(), svGate: newGate(), net: &stubNet{subs: map[string]int{}},
		beacon: &fakeBeacon{known: map[string]bool{}}}
	n.ctx, n.cancel = context.WithCancel(context.Background())
	var err error
	if n.ns, err = operatorstorage.NewNodeStorage(nopLogger, raw); err != nil {
		return nil, err
	}
	od, found, err := n.ns.GetOperatorDataByPubKey(nil, mat.selfPub)
	if err != nil {
		return nil, err
	}
	if !found {
		od = &registrystorage.OperatorData{PublicKey: mat.selfPub}
	}
	n.ods = operatordatastore.New(od)
	km, err := ekm.NewETHKeyManagerSigner(nopLogger, raw, networkconfig.TestNetwork, true, "")
	if err != nil {
		return nil, err
	}
	stores := ibftstorage.NewStoresFromRoles(raw, allRoles...)
	n.vmap = validatorsmap.New(n.ctx)
	n.ctrl = opvalidator.NewController(nopLogger, opvalidator.ControllerOptions{
		Context:                n.ctx,
		DB:                     raw,
		MetadataUpdateInterval: 12 * time.Minute,
		HistorySyncBatchSize:   25,
		BeaconNetwork:          beaconprotocol.NewNetwork(spectypes.BeaconTestNetwork),
		Network:                n.net,
		Beacon:                 n.beacon,
		KeyManager:             km,
		OperatorDataStore:      n.ods,
		RegistryStorage:        &gatedStorage{Storage: n.ns, sh: &gatedShares{Shares: n.ns.Shares(), g: n.svGate}},
		StorageMap:             stores,
		ValidatorsMap:          n.vmap,
		WorkersCount:           1,
		QueueBufferSize:        8,
	})
	n.exec = &gatedExec{ctrl: n.ctrl, g: n.evGate}
	n.eh, err = eventhandler.New(n.ns, &gatedParser{Parser: mat.parser, g: n.evGate}, n.exec, networkconfig.TestNetwork,
		n.ods, mat.selfKey, km, n.beacon, stores)
	if err != nil {
		return nil, err
	}
	// the duty scheduler's side of the controller's channels
	go func() {
		exitCh, idxCh := n.ctrl.ValidatorExitChan(), n.ctrl.IndicesChangeChan()
		for {
			select {
			case <-n.ctx.Done():
				return
			case d := <-exitCh:
				n.exitMu.Lock()
				n.exits = append(n.exits, valName(d.PubKey[:]))
				n.exitMu.Unlock()
			case <-idxCh:
			}
		}
	}()
	return n, nil
}

var _ = duties.ExitDescriptor{}

func (n *node) stop() { n.cancel() }

// takeExit waits for the exit descriptor of validator v to arrive on the controller's exit channel
func (n *node) takeExit(v string, wait time.Duration) bool {
	deadline := time.Now().Add(wait)
	for {
		n.exitMu.Lock()
		for i, x := range n.exits {
			if x == v {
				n.exits = append(n.exits[:i], n.exits[i+1:]...)
				n.exitMu.Unlock()
				return true
			}
		}
		n.exitMu.Unlock()
		if time.Now().After(deadline) {
			return false
		}
		time.Sleep(2 * time.Millisecond)
	}
}

// setupBlock: block 1 registers the operators (1 = this node) - outside the spec's alphabet
func (n *node) setupBlock() error {
	logs := []ethtypes.Log{}
	for k, id := range opIDs {
		q := "other"
		if id == 1 {
			q = "self"
		}
		l, err := mat.buildLog(event{K: "OpAdd", Q: q}, id, 1, uint(k))
		if err != nil {
			return err
		}
		logs = append(logs, l)
	}
	ch := make(chan executionclient.BlockLogs, 1)
	ch <- executionclient.BlockLogs{BlockNumber: 1, Logs: logs}
	close(ch)
	_, err := n.eh.HandleBlockEventsStream(ch, false)
	if err == nil && n.ods.GetOperatorID() != 1 {
		err = fmt.Errorf("own operator id is %d after the setup block", n.ods.GetOperatorID())
	}
	return err
}

// metaUpdate plays one round of the metadata goroutine for one validator: the beacon node knows it, the fetched
// metadata goes through beaconprotocol.FetchValidatorsMetadata into the controller's UpdateValidatorMetadata.
func (n *node) metaUpdate(v string) error {
	n.beacon.mu.Lock()
	n.beacon.known = map[string]bool{v: true}
	n.beacon.mu.Unlock()
	defer func() {
		n.beacon.mu.Lock()
		n.beacon.known = map[string]bool{}
		n.beacon.mu.Unlock()
	}()
	coll, ok := n.ctrl.(beaconprotocol.ValidatorMetadataStorage)
	if !ok {
		return fmt.Errorf("controller does not implement ValidatorMetadataStorage")
	}
	return beaconprotocol.UpdateValidatorsMetadata(nopLogger, [][]byte{mat.valPK[v]}, coll, n.beacon, nil)
}

// ---------------------------------------------------------------------------------------------------------
// projection of the real state onto the spec's state

type shareP struct {
	On    bool   `json:"on"`
	Owner string `json:"owner"`
	Comm  string `json:"comm"`
	Liq   bool   `json:"liq"`
	Meta  bool   `json:"meta"`
}
type rcptP struct {
	On  bool   `json:"on"`
	Fee string `json:"fee"`
}
type runP struct {
	On    bool   `json:"on"`
	Owner string `json:"owner"`
	Fee   string `json:"fee"`
}
type projT struct {
	Mem     map[string]shareP `json:"mem"`
	Db      map[string]shareP `json:"db"`
	Rcpt    map[string]rcptP  `json:"rcpt"`
	Running map[string]runP   `json:"running"`
	Extra   []string          `json:"extra,omitempty"`
}

func projShare(s *ssvtypes.SSVShare) (string, shareP) {
	ids := []uint64{}
	for _, c := range s.Committee {
		ids = append(ids, c.OperatorID)
	}
	return valName(s.ValidatorPubKey), shareP{On: true, Owner: ownerName(s.OwnerAddress), Comm: commName(ids),
		Liq: s.Liquidated, Meta: s.BeaconMetadata != nil}
}

func (n *node) project(vals []string) projT {
	p := projT{Mem: map[string]shareP{}, Db: map[string]shareP{}, Rcpt: map[string]rcptP{}, Running: map[string]runP{}}
	for _, v := range vals {
		p.Mem[v], p.Db[v], p.Running[v] = shareP{}, shareP{}, runP{}
	}
	put := func(m map[string]shareP, s *ssvtypes.SSVShare, what string) {
		v, sp := projShare(s)
		if _, ok := m[v]; !ok {
			p.Extra = append(p.Extra, what+" share "+v)
			return
		}
		m[v] = sp
	}
	for _, s := range n.ns.Shares().List(nil) {
		put(p.Mem, s, "mem")
	}
	// committed database = what a storage freshly opened on it loads (what a restart sees)
	fresh, err := operatorstorage.NewNodeStorage(nopLogger, n.raw)
	if err != nil {
		p.Extra = append(p.Extra, "fresh storage: "+err.Error())
		return p
	}
	for _, s := range fresh.Shares().List(nil) {
		put(p.Db, s, "db")
	}
	for _, o := range owners {
		rd, found, err := fresh.GetRecipientData(nil, mat.ownerAddr[o])
		if err != nil {
			p.Extra = append(p.Extra, "recipient "+o+": "+err.Error())
		}
		if !found || rd == nil {
			p.Rcpt[o] = rcptP{}
			continue
		}
		p.Rcpt[o] = rcptP{On: true, Fee: feeName(mat.ownerAddr[o], rd.FeeRecipient)}
	}
	for _, rv := range n.vmap.GetAll() {
		v := valName(rv.Share.ValidatorPubKey)
		if _, ok := p.Running[v]; !ok {
			p.Extra = append(p.Extra, "running "+v)
			continue
		}
		p.Running[v] = runP{On: true, Owner: ownerName(rv.Share.OwnerAddress), Fee: feeName(rv.Share.OwnerAddress, rv.Share.FeeRecipientAddress)}
		if _, ok := n.ctrl.GetValidator(hex.EncodeToString(rv.Share.ValidatorPubKey)); !ok {
			p.Extra = append(p.Extra, "GetValidator misses "+v)
		}
		n.net.mu.Lock()
		subscribed := n.net.subs[hex.EncodeToString(rv.Share.ValidatorPubKey)] > 0
		n.net.mu.Unlock()
		if !subscribed {
			p.Extra = append(p.Extra, "in the validators map but never started: "+v)
		}
	}
	sort.Strings(p.Extra)
	return p
}
