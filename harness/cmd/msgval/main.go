// Driver for spec/MsgValidation.tla (properties C08 and C09): binds message classes to the real
// message/validation gate (ValidatePubsubMessage through a real pubsub.Message, ValidateSSVMessage for the
// concurrent runs) and to the decoders named in C08.
//
//	-mode replay      TLC behaviours (graph cover, simulation, attack traces): per step the real verdict class and
//	                  rule text are compared with the spec's prediction (divergence) and the monitors run.
//	-mode sweep       implementation-driven exploration over the spec's alphabet: every (accepted prefix, message,
//	                  time point) up to a depth; one event per call is recorded for TLC trace validation.
//	-mode bytes       seeded byte-level perturbation of every concretised message, fed to the validator and to the
//	                  decoders (exploration, not model checking).
//	-mode concurrent  message sets validated from 8 goroutines on one validator; recorded as batches.
//	-mode repro       re-runs one saved violation.
//
// MONITORS (independent of the operational spec).  C08: validator-panic, validator-hang (a call slower than 2 s that is
// that slow again in three repeats, or one that does not return within 30 s), unbounded-allocation, decoder-panic:<decoder>.  C09: accepted:<rule> from valkit.Monitor (the statement of C09 evaluated on the
// concrete accepted bytes, the concrete clock and the concrete history).
package main

import (
	"bufio"
	"encoding/hex"
	"encoding/json"
	"flag"
	"fmt"
	"math/rand"
	"os"
	"runtime"
	"sort"
	"strings"
	"sync"
	"sync/atomic"
	"time"

	"github.com/attestantio/go-eth2-client/spec/phase0"
	spectypes "github.com/bloxapp/ssv-spec/types"
	"github.com/libp2p/go-libp2p/core/crypto"

	"github.com/bloxapp/ssv/network/commons"
	"github.com/bloxapp/ssv/network/records"
	"github.com/bloxapp/ssv/protocol/v2/ssv/queue"

	"verif/harness/valkit"
	"verif/harness/vh"
)

const allocCeiling = 96 << 20 // one call may not allocate more than this (the largest legal message is 8 MiB)

type alphabet struct {
	Alpha []valkit.Msg       `json:"alpha"`
	Times []valkit.TimePoint `json:"times"`
}

type repro struct {
	Signature string            `json:"signature"`
	Kind      string            `json:"kind"` // behaviour | bytes | decoder | concurrent
	N         int               `json:"n"`
	Fork      int               `json:"fork"`
	Prefix    []step            `json:"prefix,omitempty"`
	Probe     *step             `json:"probe,omitempty"`
	Topic     string            `json:"topic,omitempty"`
	DataHex   string            `json:"data_hex,omitempty"`
	Time      *valkit.TimePoint `json:"time,omitempty"`
	Decoder   string            `json:"decoder,omitempty"`
	Batch     []step            `json:"batch,omitempty"`
	Calls     []rawCall         `json:"calls,omitempty"` // kind "calls": every call made on ONE validator object, in order; the last one hangs
	Detail    string            `json:"detail,omitempty"`
}

// rawCall is one call of ValidatePubsubMessage as it was made: concrete topic, bytes and virtual time.
type rawCall struct {
	Topic   string           `json:"topic"`
	DataHex string           `json:"data_hex"`
	T       valkit.TimePoint `json:"t"`
	Class   string           `json:"class,omitempty"` // what the call returned when it was made (the last one: hang)
	Rule    string           `json:"rule,omitempty"`
	Msg     *valkit.Msg      `json:"m,omitempty"` // the model class the bytes were built from, if any
}

// histCall is rawCall in memory (the bytes are shared with the concretised message)
type histCall struct {
	topic string
	data  []byte
	t     valkit.TimePoint
	class string
	rule  string
	msg   *valkit.Msg
}

type peerHist struct{ calls []histCall }

type step struct {
	M valkit.Msg       `json:"m"`
	T valkit.TimePoint `json:"t"`
}

type world struct {
	env    *valkit.Env
	n      int
	fork   int // fork epoch code (relative to the epoch of BaseSlot)
	res    *vh.Result
	mu     sync.Mutex
	repros []repro
	conc   map[string]*valkit.Concrete
	cmu    sync.Mutex
	seen   map[string]bool
	hist   sync.Map    // *valkit.Peer -> *peerHist: every call made on that validator object (a peer is used by one goroutine)
	wedged sync.Map    // *valkit.Peer -> true: validator objects on which a confirmed hang was reported
	abort  atomic.Bool // a validator stopped returning: the bulk modes end (the violation is recorded, what was recorded is written)
}

func (w *world) realFork() phase0.Epoch {
	return phase0.Epoch(int64(valkit.BaseSlot/32) + int64(w.fork))
}

func (w *world) signed(nowSlot uint64) bool { return phase0.Epoch(nowSlot/32) > w.realFork() }

func (w *world) newMonitor() *valkit.Monitor {
	m, err := valkit.NewMonitor(w.env, w.signed)
	if err != nil {
		fatal(err)
	}
	return m
}

func fatal(err error) {
	fmt.Fprintln(os.Stderr, "msgval:", err)
	os.Exit(3)
}

func key(m valkit.Msg) string {
	b, _ := json.Marshal(m)
	return string(b)
}

func (w *world) concretise(m valkit.Msg) *valkit.Concrete {
	k := key(m)
	w.cmu.Lock()
	c, ok := w.conc[k]
	w.cmu.Unlock()
	if ok {
		return c
	}
	c, err := w.env.Concretise(m)
	if err != nil {
		fatal(fmt.Errorf("cannot concretise %s: %w", k, err))
	}
	w.cmu.Lock()
	w.conc[k] = c
	w.cmu.Unlock()
	return c
}

func (w *world) violate(sig, desc, beh string, stepNo int, r repro) {
	w.mu.Lock()
	defer w.mu.Unlock()
	w.res.Counters["sig:"+sig]++
	if w.res.Counters["sig:"+sig] <= 5 { // a frequent signature must not crowd out a rare one
		w.res.Violate(sig, desc, beh, stepNo)
	}
	k := sig + "|" + r.Kind + "|" + r.Decoder
	if r.Probe != nil {
		k += key(r.Probe.M)
	}
	if w.seen[k] || w.res.Counters["repro:"+sig] >= 4 {
		return
	}
	w.seen[k] = true
	w.res.Counters["repro:"+sig]++
	r.Signature, r.N, r.Fork = sig, w.n, w.fork
	w.repros = append(w.repros, r)
}

// validate one class on a peer and run the monitors; returns the outcome and the monitor's verdict on an accept
func (w *world) validate(p *valkit.Peer, mon *valkit.Monitor, m valkit.Msg, t valkit.TimePoint, heavy bool, beh string, stepNo int, prefix []step) (valkit.Outcome, string) {
	c := w.concretise(m)
	o := w.guardedCall(p, c.Topic, c.Data, t, heavy, &m)
	g := ""
	pr := step{m, t}
	switch o.Class {
	case "panic":
		w.violate("validator-panic", fmt.Sprintf("ValidatePubsubMessage panicked on %s at %+v: %s", key(m), t, firstLine(o.Panic)), beh, stepNo,
			repro{Kind: "behaviour", Prefix: prefix, Probe: &pr, Detail: o.Panic})
	case "hang":
		w.reportHang(p, beh, stepNo)
	case "accept":
		g = mon.Accepted(c.Topic, c.Data, uint64(t.Slot()), uint64(t.Offset()/time.Millisecond), o.TimeOK)
		if g != "none" {
			w.violate("accepted:"+g, fmt.Sprintf("the validator ACCEPTED %s at %+v after %d accepted messages, which breaks the rule %q of C09", key(m), t, len(prefix), g), beh, stepNo,
				repro{Kind: "behaviour", Prefix: prefix, Probe: &pr})
		}
	}
	if heavy && o.Alloc > allocCeiling {
		w.violate("unbounded-allocation", fmt.Sprintf("one validation of %s allocated %d bytes", key(m), o.Alloc), beh, stepNo,
			repro{Kind: "behaviour", Prefix: prefix, Probe: &pr})
	}
	return o, g
}

const (
	noReturnFirst  = 10 * time.Second // how long the first call is waited for before it counts as "did not return"
	noReturnRepeat = 5 * time.Second  // ... and each of the three confirming repeats on the same validator object
)

// call runs one ValidatePubsubMessage in its own goroutine and waits at most `wait` for it.  Class "hang" means either
// that the call returned after more than valkit.HangAfter (valkit) or that it has not returned at all (Err "no-return";
// its goroutine stays behind).
func (w *world) call(p *valkit.Peer, topic string, data []byte, t valkit.TimePoint, heavy bool, wait time.Duration) valkit.Outcome {
	o, _ := w.callPending(p, topic, data, t, heavy, wait)
	return o
}

// callPending is call that also hands out the channel of a call that has not returned yet.
func (w *world) callPending(p *valkit.Peer, topic string, data []byte, t valkit.TimePoint, heavy bool, wait time.Duration) (valkit.Outcome, chan valkit.Outcome) {
	done := make(chan valkit.Outcome, 1)
	go func() { done <- p.ValidatePubsub(topic, data, t.Slot(), t.Offset(), heavy) }()
	tm := time.NewTimer(wait)
	defer tm.Stop()
	select {
	case o := <-done:
		return o, nil
	case <-tm.C:
		return valkit.Outcome{Class: "hang", Err: "no-return", Dur: wait}, done
	}
}

func (w *world) histOf(p *valkit.Peer) *peerHist {
	if h, ok := w.hist.Load(p); ok {
		return h.(*peerHist)
	}
	h, _ := w.hist.LoadOrStore(p, &peerHist{})
	return h.(*peerHist)
}

// forget drops the call history of a validator object that is not used any more.
func (w *world) forget(p *valkit.Peer) {
	if p != nil {
		w.hist.Delete(p)
	}
}

// guardedCall is one validation with the hang monitor of C08.  A call that is slower than valkit.HangAfter, or that has not
// returned after noReturnFirst, is a HANG only if the same call ON THE SAME VALIDATOR OBJECT is slow / does not return again
// three times in a row (confirmSlow): a validator that loops on an input, or that was left wedged by an EARLIER call (a
// leaked lock), fails every repeat, whereas a stall of an overloaded machine passes.  Unconfirmed: class "slow" (no verdict,
// nothing compared, the caller rebuilds the validator).  Every call is appended to the history of the validator object.
func (w *world) guardedCall(p *valkit.Peer, topic string, data []byte, t valkit.TimePoint, heavy bool, m *valkit.Msg) valkit.Outcome {
	if _, dead := w.wedged.Load(p); dead { // a confirmed hang was reported on this validator object: nothing more is asked of it
		return valkit.Outcome{Class: "hang", Err: "wedged"}
	}
	o, pend := w.callPending(p, topic, data, t, heavy, noReturnFirst)
	if o.Class == "hang" {
		pending := []chan valkit.Outcome{pend}
		if !w.confirmSlow(func() bool {
			r, pd := w.callPending(p, topic, data, t, heavy, noReturnRepeat)
			pending = append(pending, pd)
			return r.Class == "hang"
		}) {
			o.Class, o.TimeOK = "slow", false
			// calls that were given up on but are still running share the clock and the reason recorder of this validator
			// object with whatever is validated next on it: they must be over before anything else happens
			limit := time.After(60 * time.Second)
		drain:
			for _, pd := range pending {
				if pd == nil {
					continue
				}
				select {
				case <-pd:
				case <-limit:
					w.mu.Lock()
					w.res.Notes = append(w.res.Notes, "a stalled call was still running 60 s after a repeat of it had returned: the run is ended without a verdict on it")
					w.mu.Unlock()
					w.abort.Store(true)
					break drain
				}
			}
		}
	}
	h := w.histOf(p)
	h.calls = append(h.calls, histCall{topic: topic, data: data, t: t, class: o.Class, rule: o.Rule, msg: m})
	return o
}

func rawOf(c []histCall) []rawCall {
	out := make([]rawCall, len(c))
	for i, x := range c {
		out[i] = rawCall{Topic: x.topic, DataHex: hex.EncodeToString(x.data), T: x.t, Class: x.class, Rule: x.rule, Msg: x.msg}
	}
	return out
}

// hangsOnFresh replays a call history on a FRESH validator object: does its last call hang there too (twice)?
func (w *world) hangsOnFresh(c []histCall) bool {
	p := w.env.NewPeer(w.realFork())
	for i, x := range c {
		o := w.call(p, x.topic, x.data, x.t, false, noReturnRepeat)
		if o.Class == "hang" {
			return i == len(c)-1 && w.call(p, x.topic, x.data, x.t, false, noReturnRepeat).Class == "hang"
		}
	}
	return false
}

// reportHang: the last call in the history of validator object p is a confirmed hang.  The violation is "validation hangs
// after this history of previously validated messages": the replay file is the shortest of (the call before + the hanging
// call), (the accepted calls + those two), (every call made on the object) that hangs again on a fresh validator object.
func (w *world) reportHang(p *valkit.Peer, beh string, stepNo int) {
	lastCallStart.Store(0)
	w.abort.Store(true)
	if _, again := w.wedged.LoadOrStore(p, true); again {
		return // already reported
	}
	h := w.histOf(p).calls
	n := len(h)
	var cands [][]histCall
	if n >= 2 {
		cands = append(cands, h[n-2:])
		var acc []histCall
		for _, x := range h[:n-2] {
			if x.class == "accept" {
				acc = append(acc, x)
			}
		}
		if len(acc) > 0 && len(acc) < n-2 {
			cands = append(cands, append(acc, h[n-2:]...))
		}
	}
	cands = append(cands, h)
	chosen, again := h, false
	for _, c := range cands {
		if w.hangsOnFresh(c) {
			chosen, again = c, true
			break
		}
	}
	label := func(x histCall) string {
		if x.msg != nil {
			return key(*x.msg)
		}
		return fmt.Sprintf("%d perturbed bytes", len(x.data))
	}
	last := h[n-1]
	desc := fmt.Sprintf("ValidatePubsubMessage of %s at %+v did not return (or took more than %v) and the same call on the same validator object "+
		"failed to return three more times", label(last), last.t, valkit.HangAfter)
	if n >= 2 {
		prev := h[n-2]
		desc += fmt.Sprintf("; the validation just before on this object was %s -> %s:%s; %d calls had been made on the object", label(prev), prev.class, prev.rule, n-1)
	}
	if again {
		desc += fmt.Sprintf("; a fresh validator hangs again after the %d saved calls", len(chosen)-1)
	} else {
		desc += "; NOT reproduced on a fresh validator object with the saved calls"
	}
	w.violate("validator-hang", desc, beh, stepNo, repro{Kind: "calls", Calls: rawOf(chosen), Detail: desc})
}

// confirmSlow: a call that took longer than valkit.HangAfter is reported as a hang only if the SAME call on the same
// validator is that slow again three times in a row.  An input that makes the validator loop is slow every time; a stall of
// the process on an overloaded machine (stop-the-world GC, no CPU for seconds) is not.
func (w *world) confirmSlow(again func() bool) bool {
	for k := 0; k < 3; k++ {
		if !again() {
			w.mu.Lock()
			w.res.Counters["slow_calls_not_confirmed_as_hang"]++
			w.mu.Unlock()
			return false
		}
	}
	return true
}

func firstLine(s string) string {
	if i := strings.IndexByte(s, '\n'); i >= 0 {
		return s[:i]
	}
	return s
}

// ------------------------------------------------------------------------------------------------------
// replay of TLC behaviours

func msgOf(a map[string]any) (valkit.Msg, valkit.TimePoint) {
	var m valkit.Msg
	var t valkit.TimePoint
	b, _ := json.Marshal(a["m"])
	if err := json.Unmarshal(b, &m); err != nil {
		fatal(err)
	}
	if m.Sg == nil {
		m.Sg = []int{}
	}
	b, _ = json.Marshal(a["t"])
	if err := json.Unmarshal(b, &t); err != nil {
		fatal(err)
	}
	return m, t
}

func (w *world) replay(b vh.Behaviour) {
	p := w.env.NewPeer(w.realFork())
	mon := w.newMonitor()
	var prefix []step
	nontrivial := false
	accepts := 0
	for i, st := range b.Steps {
		if vh.Str(st.Act, "name") != "Validate" {
			continue
		}
		m, t := msgOf(st.Act)
		o, g := w.validate(p, mon, m, t, false, b.ID, i, prefix)
		wantV, wantRule := vh.Str(st.Act, "v"), vh.Str(st.Act, "rule")
		if !o.TimeOK {
			w.res.Counters["timing_unsafe_steps"]++
		} else if o.Class != wantV {
			w.res.Diverge(b.ID, i, "verdict", wantV+":"+wantRule, o.Class+":"+o.Rule)
		} else if o.Rule != wantRule {
			w.res.Diverge(b.ID, i, "rule", wantRule, o.Rule)
		}
		if o.Class == "accept" {
			if sg := vh.Str(st.Act, "g"); o.TimeOK && wantV == "accept" && sg != "" && sg != g {
				w.res.Diverge(b.ID, i, "gossip-monitor", sg, g)
			}
			prefix = append(prefix, step{m, t})
			accepts++
			if accepts >= 2 {
				nontrivial = true
			}
		}
		if o.Class == "hang" || (o.Class != wantV && (o.Class == "accept" || wantV == "accept")) {
			break // the real state and the spec state have parted (or the validator is wedged): the rest is not comparable
		}
	}
	w.forget(p)
	w.res.Behaviours++
	w.res.Steps += len(b.Steps)
	if nontrivial {
		w.res.Nontrivial++
	}
}

// ------------------------------------------------------------------------------------------------------
// sweep: implementation-driven exploration over the alphabet, recorded for trace validation

type event struct {
	E string `json:"e"`           // R reset | V validate | M mark | B back
	I int    `json:"i,omitempty"` // alphabet index (1-based, as in TLA+)
	T int    `json:"t,omitempty"` // time index (1-based)
	V string `json:"v"`
	R string `json:"r"`
	G string `json:"g"`
}

type pfx struct{ steps []int } // pairs (mi, ti) flattened

var lastCallStart atomic.Int64

func (w *world) sweep(al alphabet, depth, maxPaths int, seed int64, tracePath string, workers int) {
	order := make([]int, len(al.Times)) // time points in increasing order
	for i := range order {
		order[i] = i
	}
	sort.Slice(order, func(a, b int) bool {
		x, y := al.Times[order[a]], al.Times[order[b]]
		return x.S < y.S || (x.S == y.S && x.O < y.O)
	})
	leq := func(a, b int) bool {
		x, y := al.Times[a], al.Times[b]
		return x.S < y.S || (x.S == y.S && x.O <= y.O)
	}
	rng := rand.New(rand.NewSource(seed))
	level := []pfx{{}}
	var out [][]event
	totalPaths := 0
	for d := 1; d <= depth && len(level) > 0 && !w.abort.Load(); d++ {
		if maxPaths > 0 && totalPaths+len(level) > maxPaths {
			rng.Shuffle(len(level), func(i, j int) { level[i], level[j] = level[j], level[i] })
			keep := maxPaths - totalPaths
			if keep < 0 {
				keep = 0
			}
			w.res.Notes = append(w.res.Notes, fmt.Sprintf("depth %d: %d of %d prefixes sampled", d, keep, len(level)))
			level = level[:keep]
		}
		totalPaths += len(level)
		results := make([][]event, len(level))
		nexts := make([][]pfx, len(level))
		var wg sync.WaitGroup
		sem := make(chan struct{}, workers)
		for li := range level {
			wg.Add(1)
			sem <- struct{}{}
			go func(li int) {
				defer wg.Done()
				defer func() { <-sem }()
				if !w.abort.Load() {
					results[li], nexts[li] = w.sweepPrefix(al, level[li], order, leq, d < depth)
				}
			}(li)
		}
		wg.Wait()
		var next []pfx
		for li := range level {
			out = append(out, results[li])
			next = append(next, nexts[li]...)
		}
		level = next
	}
	f, err := os.Create(tracePath)
	if err != nil {
		fatal(err)
	}
	bw := bufio.NewWriterSize(f, 1<<20)
	n := 0
	for _, evs := range out {
		for _, e := range evs {
			b, _ := json.Marshal(e)
			bw.Write(b)
			bw.WriteByte('\n')
			n++
		}
	}
	bw.Flush()
	f.Close()
	w.res.Counters["recorded_events"] = n
	w.res.Counters["prefixes"] = totalPaths
}

func (w *world) sweepPrefix(al alphabet, p pfx, order []int, leq func(a, b int) bool, extend bool) ([]event, []pfx) {
	var evs []event
	var next []pfx
	beh := fmt.Sprintf("sweep-%v", p.steps)
	var prefix []step
	for k := 0; k+1 < len(p.steps); k += 2 {
		prefix = append(prefix, step{al.Alpha[p.steps[k]], al.Times[p.steps[k+1]]})
	}
	var peer *valkit.Peer
	var mon *valkit.Monitor
	var rebuild func(record bool) bool
	stalls := 0
	rebuild = func(record bool) bool {
		w.forget(peer)
		peer = w.env.NewPeer(w.realFork())
		mon = w.newMonitor()
		mark := len(evs)
		if record {
			evs = append(evs, event{E: "R"})
		}
		for k := 0; k+1 < len(p.steps); k += 2 {
			o, g := w.validate(peer, mon, al.Alpha[p.steps[k]], al.Times[p.steps[k+1]], false, beh, k/2, prefix[:k/2])
			if o.Class == "slow" { // the machine stalled during a prefix step: start the prefix again on a fresh validator
				evs = evs[:mark]
				if stalls++; stalls <= 5 {
					return rebuild(record)
				}
				w.mu.Lock()
				w.res.Notes = append(w.res.Notes, fmt.Sprintf("%s: given up after %d stalled prefix steps", beh, stalls))
				w.res.Counters["irreproducible_prefixes"]++
				w.mu.Unlock()
				return false
			}
			if record {
				evs = append(evs, event{E: "V", I: p.steps[k] + 1, T: p.steps[k+1] + 1, V: o.Class, R: o.Rule, G: g})
			}
			if o.Class != "accept" {
				w.mu.Lock()
				w.res.Notes = append(w.res.Notes, fmt.Sprintf("%s: prefix step %d was accepted before and is %s:%s now (not reproducible)", beh, k/2, o.Class, o.Rule))
				w.res.Counters["irreproducible_prefixes"]++
				w.mu.Unlock()
				return false
			}
		}
		if record {
			evs = append(evs, event{E: "M"})
		}
		return true
	}
	defer func() { w.forget(peer) }()
	if !rebuild(true) {
		return evs, nil
	}
	lastT := -1
	if len(p.steps) > 0 {
		lastT = p.steps[len(p.steps)-1]
	}
	steps := 0
	for _, ti := range order {
		if lastT >= 0 && !leq(lastT, ti) {
			continue
		}
		for mi := range al.Alpha {
			if w.abort.Load() { // a validator stopped returning (here or in another worker): what was recorded so far is kept
				return evs, next
			}
			o, g := w.validate(peer, mon, al.Alpha[mi], al.Times[ti], false, beh, len(prefix), prefix)
			steps++
			if o.Class == "hang" { // confirmed and reported by validate; this validator object is wedged
				return evs, next
			}
			if !o.TimeOK {
				w.mu.Lock()
				w.res.Counters["timing_unsafe_steps"]++
				w.mu.Unlock()
				if o.Class == "accept" || o.Class == "slow" { // "slow": the stalled call (and its repeats) may have been accepted
					evs = append(evs, event{E: "B"})
					if !rebuild(false) {
						return evs, next
					}
				}
				continue
			}
			evs = append(evs, event{E: "V", I: mi + 1, T: ti + 1, V: o.Class, R: o.Rule, G: g})
			if o.Class == "ignore" || o.Class == "reject" {
				// the same bytes again on the SAME validator instance: a refused message leaves no trace in the modelled
				// state, so the verdict must repeat (state that is not modelled - caches - shows here); panics are monitored
				o2, _ := w.validate(peer, mon, al.Alpha[mi], al.Times[ti], false, beh+"-repeat", len(prefix),
					append(append([]step{}, prefix...), step{al.Alpha[mi], al.Times[ti]}))
				steps++
				if o2.Class == "hang" {
					return evs, next
				}
				if o2.TimeOK && (o2.Class != o.Class || o2.Rule != o.Rule) && o2.Class != "panic" && o2.Class != "hang" {
					w.mu.Lock()
					w.res.Diverge(beh, len(prefix), "repeat", o.Class+":"+o.Rule, o2.Class+":"+o2.Rule)
					w.mu.Unlock()
					if o2.Class == "accept" && !rebuild(false) {
						return evs, next
					}
				}
			}
			if o.Class == "accept" {
				if extend {
					next = append(next, pfx{append(append([]int{}, p.steps...), mi, ti)})
				}
				evs = append(evs, event{E: "B"})
				if !rebuild(false) {
					return evs, next
				}
			}
		}
	}
	w.mu.Lock()
	w.res.Behaviours++
	w.res.Steps += steps + len(prefix)
	if len(prefix) >= 1 {
		w.res.Nontrivial++
	}
	w.mu.Unlock()
	return evs, next
}

// ------------------------------------------------------------------------------------------------------
// byte-level half of C08 (exploration seeded from the model's messages)

func perturb(c *valkit.Concrete, rng *rand.Rand, flips int, opIDs []uint64) [][]byte {
	d := c.Data
	var out [][]byte
	if c.EnvSig != nil && len(d) >= 264 { // the envelope names every kind of operator (registered, unknown, unparsable key)
		for _, id := range opIDs {
			x := append([]byte{}, d...)
			for k := 0; k < 8; k++ {
				x[256+k] = byte(id >> (8 * k))
			}
			out = append(out, x)
		}
	}
	seen := map[int]bool{}
	for _, o := range c.Offsets { // truncation at each field boundary, and one byte around it
		for _, cut := range []int{o - 1, o, o + 1} {
			if cut >= 0 && cut <= len(d) && !seen[cut] {
				seen[cut] = true
				out = append(out, append([]byte{}, d[:cut]...))
			}
		}
	}
	le32 := func(pos int, v uint32) {
		if pos+4 <= len(d) {
			x := append([]byte{}, d...)
			x[pos], x[pos+1], x[pos+2], x[pos+3] = byte(v), byte(v>>8), byte(v>>16), byte(v>>24)
			out = append(out, x)
		}
	}
	for _, o := range c.Offsets { // offset / length field corruption: every 4-byte word at a boundary
		for _, v := range []uint32{0, 1, 3, 4, 67, 68, 69, 107, 108, uint32(len(d)), uint32(len(d)) + 1, 0x7fffffff, 0x80000000, 0xffffffff} {
			le32(o, v)
		}
	}
	for _, o := range c.Offsets { // 8-byte fields: extreme values
		if o+8 <= len(d) {
			for _, v := range []uint64{0, 1, 1<<31 - 1, 1 << 31, 1<<32 - 1, 1 << 32, 1 << 62, 1<<63 - 1, 1 << 63, ^uint64(0)} {
				x := append([]byte{}, d...)
				for k := 0; k < 8; k++ {
					x[o+k] = byte(v >> (8 * k))
				}
				out = append(out, x)
			}
		}
	}
	for k := 0; k < flips && len(d) > 0; k++ { // seeded bit flips (1..3 bits)
		x := append([]byte{}, d...)
		for b := 0; b <= rng.Intn(3); b++ {
			pos := rng.Intn(len(x))
			if rng.Intn(3) == 0 && len(x) > 400 { // favour the structured head over full data / signatures
				pos = rng.Intn(400)
			}
			x[pos] ^= 1 << uint(rng.Intn(8))
		}
		out = append(out, x)
	}
	out = append(out, append(append([]byte{}, d...), 0), append(append([]byte{}, d...), d...)) // trailing byte, doubled
	return out
}

func (w *world) decoderGuard(name string, data []byte, f func()) {
	defer func() {
		if r := recover(); r != nil {
			w.violate("decoder-panic:"+name, fmt.Sprintf("%s panicked: %v", name, r), "bytes", 0,
				repro{Kind: "decoder", Decoder: name, DataHex: hex.EncodeToString(data), Detail: fmt.Sprint(r)})
		}
	}()
	t0 := time.Now()
	f()
	if d := time.Since(t0); d > valkit.HangAfter && w.confirmSlow(func() bool { t1 := time.Now(); f(); return time.Since(t1) > valkit.HangAfter }) {
		w.violate("validator-hang", fmt.Sprintf("%s took %v (and more than %v again in three repeats)", name, d, valkit.HangAfter), "bytes", 0,
			repro{Kind: "decoder", Decoder: name, DataHex: hex.EncodeToString(data)})
	}
}

func (w *world) feedDecoders(data []byte) {
	w.decoderGuard("DecodeSignedSSVMessage", data, func() { _, _, _, _ = commons.DecodeSignedSSVMessage(data) })
	var ssv *spectypes.SSVMessage
	w.decoderGuard("DecodeNetworkMsg", data, func() { ssv, _ = commons.DecodeNetworkMsg(data) })
	if ssv == nil && len(data) > 264 {
		rest := data[264:]
		w.decoderGuard("DecodeNetworkMsg", rest, func() { ssv, _ = commons.DecodeNetworkMsg(rest) })
	}
	if ssv != nil {
		for _, mt := range []spectypes.MsgType{ssv.MsgType, spectypes.SSVConsensusMsgType, spectypes.SSVPartialSignatureMsgType, 200, 2} {
			cp := &spectypes.SSVMessage{MsgType: mt, MsgID: ssv.MsgID, Data: ssv.Data}
			w.decoderGuard("queue.DecodeSSVMessage", data, func() { _, _ = queue.DecodeSSVMessage(cp) })
		}
	}
	w.res.Counters["decoder_inputs"]++
}

func (w *world) feedRecords(data []byte) {
	w.decoderGuard("NodeInfo.Consume", data, func() { _ = (&records.NodeInfo{}).Consume(data) })
	w.decoderGuard("SignedNodeInfo.Consume", data, func() { _ = (&records.SignedNodeInfo{}).Consume(data) })
	w.decoderGuard("NodeInfo.UnmarshalRecord", data, func() { _ = (&records.NodeInfo{}).UnmarshalRecord(data) })
	w.decoderGuard("SignedNodeInfo.UnmarshalRecord", data, func() { _ = (&records.SignedNodeInfo{}).UnmarshalRecord(data) })
	w.decoderGuard("NodeMetadata.Decode", data, func() { _ = (&records.NodeMetadata{}).Decode(data) })
	w.res.Counters["record_inputs"]++
}

func (w *world) bytesMode(al alphabet, seed int64, flips, maxMsgs int) {
	rng := rand.New(rand.NewSource(seed))
	idx := rng.Perm(len(al.Alpha))
	if maxMsgs > 0 && len(idx) > maxMsgs {
		idx = idx[:maxMsgs]
	}
	fresh := w.env.NewPeer(w.realFork())
	warm := w.env.NewPeer(w.realFork())
	monF, monW := w.newMonitor(), w.newMonitor()
	// warm: a validator that has already accepted some of the alphabet
	t0 := al.Times[0]
	for _, t := range al.Times {
		if t.S < t0.S || (t.S == t0.S && t.O < t0.O) {
			t0 = t
		}
	}
	var warmPrefix []step
	for _, mi := range idx {
		if len(warmPrefix) >= 6 || w.abort.Load() {
			break
		}
		if o, _ := w.validate(warm, monW, al.Alpha[mi], t0, false, "bytes-warm", 0, warmPrefix); o.Class == "accept" {
			warmPrefix = append(warmPrefix, step{al.Alpha[mi], t0})
		}
	}
	var ms0, ms1 runtime.MemStats
	feed := func(p *valkit.Peer, mon *valkit.Monitor, prefix []step, topic string, data []byte, t valkit.TimePoint, heavy bool) {
		if w.abort.Load() {
			return
		}
		o := w.guardedCall(p, topic, data, t, heavy, nil)
		w.res.Steps++
		r := repro{Kind: "bytes", Prefix: prefix, Topic: topic, DataHex: hex.EncodeToString(data), Time: &t}
		switch o.Class {
		case "panic":
			r.Detail = o.Panic
			w.violate("validator-panic", "ValidatePubsubMessage panicked on perturbed bytes: "+firstLine(o.Panic), "bytes", 0, r)
		case "hang": // confirmed on this validator object: the history of the object is the replay file
			w.reportHang(p, "bytes", 0)
		case "accept":
			w.res.Counters["perturbed_accepted"]++
			if g := mon.Accepted(topic, data, uint64(t.Slot()), uint64(t.Offset()/time.Millisecond), o.TimeOK); g != "none" {
				w.violate("accepted:"+g, fmt.Sprintf("the validator ACCEPTED perturbed bytes that break the rule %q of C09", g), "bytes", 0, r)
			}
		}
		if heavy && o.Alloc > allocCeiling {
			w.violate("unbounded-allocation", fmt.Sprintf("one validation of %d perturbed bytes allocated %d bytes", len(data), o.Alloc), "bytes", 0, r)
		}
	}
	for n, mi := range idx {
		if w.abort.Load() { // a validator object is wedged (reported): the rest of the messages is skipped
			break
		}
		c := w.concretise(al.Alpha[mi])
		t := al.Times[rng.Intn(len(al.Times))]
		vars := perturb(c, rng, flips, w.env.AllOperatorIDs())
		runtime.ReadMemStats(&ms0)
		for _, data := range vars {
			feed(fresh, monF, nil, c.Topic, data, t, false)
			feed(warm, monW, warmPrefix, c.Topic, data, t, false)
			feed(warm, monW, warmPrefix, c.Topic, data, t, false) // twice on one instance: history through caches
			w.feedDecoders(data)
		}
		runtime.ReadMemStats(&ms1)
		if ms1.TotalAlloc-ms0.TotalAlloc > allocCeiling { // find the culprit call by call
			for _, data := range vars {
				feed(fresh, monF, nil, c.Topic, data, t, true)
			}
		}
		if n%8 == 0 { // the same bytes through ValidateSSVMessage (objects decoded from perturbed bytes)
			for _, data := range vars {
				if ssv, err := commons.DecodeNetworkMsg(data); err == nil && ssv != nil && !w.abort.Load() {
					lastCallStart.Store(time.Now().UnixNano()) // ValidateSSVMessage is called directly: the bulk watchdog (60 s) covers it
					o := fresh.ValidateSSV(ssv, t.Slot(), t.Offset(), false)
					lastCallStart.Store(0)
					if o.Class == "panic" {
						w.violate("validator-panic", "ValidateSSVMessage panicked on a message decoded from perturbed bytes: "+firstLine(o.Panic), "bytes", 0,
							repro{Kind: "bytes", Topic: "ssv", DataHex: hex.EncodeToString(data), Time: &t, Detail: o.Panic})
					}
				}
			}
		}
		w.res.Behaviours++
	}
	// node records and handshake payloads
	seeds := recordSeeds()
	for _, s := range seeds {
		c := &valkit.Concrete{Data: s}
		for o := 0; o < len(s); o += 1 + len(s)/40 {
			c.Offsets = append(c.Offsets, o)
		}
		w.feedRecords(s)
		for _, data := range perturb(c, rng, flips*4, nil) {
			w.feedRecords(data)
		}
	}
	for _, s := range subnetSeeds(rng) {
		w.decoderGuard("Subnets.FromString", []byte(s), func() {
			sn, err := records.Subnets{}.FromString(s)
			if err == nil {
				_ = sn.String()
				_ = sn.Active()
				_ = sn.Clone()
			}
		})
		w.res.Counters["subnet_inputs"]++
	}
}

func recordSeeds() [][]byte {
	var out [][]byte
	priv, _, err := crypto.GenerateSecp256k1Key(rand.New(rand.NewSource(7)))
	if err != nil {
		fatal(err)
	}
	ni := records.NewNodeInfo("testnet")
	ni.Metadata = &records.NodeMetadata{NodeVersion: "v1.2.3", ExecutionNode: "geth/x", ConsensusNode: "prysm/x", Subnets: records.AllSubnets}
	if b, err := ni.Seal(priv); err == nil {
		out = append(out, b)
	}
	if b, err := ni.MarshalRecord(); err == nil {
		out = append(out, b)
	}
	bare := records.NewNodeInfo("testnet")
	if b, err := bare.Seal(priv); err == nil {
		out = append(out, b)
	}
	sni := &records.SignedNodeInfo{NodeInfo: ni, HandshakeData: records.HandshakeData{SenderPeerID: "sender", RecipientPeerID: "recipient",
		Timestamp: time.Unix(1700000000, 0), SenderPublicKey: []byte("LS0tLS1CRUdJTiBSU0EgUFVCTElDIEtFWS0tLS0t")}, Signature: []byte{1, 2, 3, 4}}
	if b, err := sni.Seal(priv); err == nil {
		out = append(out, b)
	}
	if b, err := sni.MarshalRecord(); err == nil {
		out = append(out, b)
	}
	out = append(out, []byte(`{"Entries":["","testnet","{\"NodeVersion\":\"v\",\"Subnets\":\"ff\"}"]}`), []byte(`{"Entries":[]}`), []byte(`{"Entries":null}`),
		[]byte(`{"Entries":["a","b","c","d","e","f"]}`), []byte(`{"Entries":["","","99999999999999999999","","",""]}`), []byte(`{}`), []byte(`null`), []byte(``))
	return out
}

func subnetSeeds(rng *rand.Rand) []string {
	out := []string{"", "0", "f", "0x", "0x0", records.ZeroSubnets, records.AllSubnets, "0x" + records.AllSubnets, records.AllSubnets + records.AllSubnets,
		"zz", "0g", "g0", "ffffffffffffffffffffffffffffffffff", "0x0x", " ff", "ff ", "-1", "+f", "ＦＦ", strings.Repeat("f", 4096), "\x00\x00", "0X12"}
	hexd := "0123456789abcdefABCDEFxXgG -"
	for k := 0; k < 400; k++ {
		n := rng.Intn(70)
		b := make([]byte, n)
		for i := range b {
			b[i] = hexd[rng.Intn(len(hexd))]
		}
		out = append(out, string(b))
	}
	return out
}

// ------------------------------------------------------------------------------------------------------
// concurrent validation of message sets on one validator

type batchEvent struct {
	E    string      `json:"e"` // "C"
	Pre  []batchCall `json:"pre"`
	Msgs []batchCall `json:"msgs"`
}
type batchCall struct {
	I int    `json:"i"`
	T int    `json:"t"`
	V string `json:"v"`
	R string `json:"r"`
}

func (w *world) concurrent(al alphabet, rounds int, seed int64, tracePath string) {
	rng := rand.New(rand.NewSource(seed))
	// only plain, unsigned-era, routable classes can go through ValidateSSVMessage
	var pool []int
	for i, m := range al.Alpha {
		if m.Raw == "msg" && m.Env == "none" && m.Topic == "ok" && (m.St == "cons" || m.St == "psig") && len(m.Sg) <= 13 {
			pool = append(pool, i)
		}
	}
	if len(pool) == 0 {
		return
	}
	t0i := 0
	for i, t := range al.Times {
		if t.S < al.Times[t0i].S || (t.S == al.Times[t0i].S && t.O < al.Times[t0i].O) {
			t0i = i
		}
	}
	t0 := al.Times[t0i]
	f, err := os.Create(tracePath)
	if err != nil {
		fatal(err)
	}
	bw := bufio.NewWriter(f)
	const goroutines = 8
	for r := 0; r < rounds; r++ {
		beh := fmt.Sprintf("conc-%d", r)
		p := w.env.NewPeer(w.realFork())
		ev := batchEvent{E: "C", Pre: []batchCall{}, Msgs: []batchCall{}}
		// a short sequential prefix
		for k := rng.Intn(3); k > 0; k-- {
			mi := pool[rng.Intn(len(pool))]
			ssv, err := w.env.SSVMessageOf(al.Alpha[mi])
			if err != nil {
				continue
			}
			lastCallStart.Store(time.Now().UnixNano())
			o := p.ValidateSSV(ssv, t0.Slot(), t0.Offset(), false)
			lastCallStart.Store(0)
			ev.Pre = append(ev.Pre, batchCall{mi + 1, t0i + 1, o.Class, o.Rule})
		}
		// the batch: 8 calls over 2..4 distinct classes (so that the same class is validated by several goroutines)
		distinct := 2 + rng.Intn(3)
		var cls []int
		for k := 0; k < distinct; k++ {
			cls = append(cls, pool[rng.Intn(len(pool))])
		}
		calls := make([]int, goroutines)
		msgs := make([]*spectypes.SSVMessage, goroutines)
		for g := range calls {
			calls[g] = cls[g%distinct]
			msgs[g], _ = w.env.SSVMessageOf(al.Alpha[calls[g]])
		}
		outs := make([]valkit.Outcome, goroutines)
		var wg sync.WaitGroup
		start := make(chan struct{})
		for g := 0; g < goroutines; g++ {
			wg.Add(1)
			go func(g int) {
				defer wg.Done()
				<-start
				outs[g] = p.ValidateSSV(msgs[g], t0.Slot(), t0.Offset(), false)
			}(g)
		}
		close(start)
		waited := make(chan struct{})
		go func() { wg.Wait(); close(waited) }()
		select {
		case <-waited:
		case <-time.After(60 * time.Second):
			var batch []step
			for g := range calls {
				batch = append(batch, step{al.Alpha[calls[g]], t0})
			}
			w.violate("validator-hang", "a concurrent batch of 8 calls of ValidateSSVMessage did not return within 60 s", beh, 0, repro{Kind: "concurrent", Batch: batch})
			bw.Flush()
			f.Close()
			return
		}
		type k5 struct{ signer, h, r, mt, role int }
		acc := map[k5]int{}
		slow := false
		var batch []step
		for g, o := range outs {
			m := al.Alpha[calls[g]]
			batch = append(batch, step{m, t0})
			ev.Msgs = append(ev.Msgs, batchCall{calls[g] + 1, t0i + 1, o.Class, o.Rule})
			if !o.TimeOK {
				slow = true
			}
			if o.Class == "panic" {
				w.violate("validator-panic", "ValidateSSVMessage panicked in a concurrent batch: "+firstLine(o.Panic), beh, g, repro{Kind: "concurrent", Batch: batch, Detail: o.Panic})
			}
			if o.Class == "accept" && m.St == "cons" && len(m.Sg) == 1 {
				acc[k5{m.Sg[0], m.H, m.R, m.Mt, m.Role}]++
			}
		}
		for k, n := range acc { // one proposal, prepare, commit and round-change per signer per round
			if n > 1 {
				name := map[int]string{0: "too-many-proposals", 1: "too-many-prepares", 2: "too-many-commits", 3: "too-many-round-changes"}[k.mt]
				w.violate("accepted:"+name, fmt.Sprintf("%d concurrent validations of messages of type %d of signer %d for slot code %d round %d were ALL accepted", n, k.mt, k.signer, k.h, k.r), beh, 0,
					repro{Kind: "concurrent", Batch: batch})
			}
		}
		if !slow {
			b, _ := json.Marshal(ev)
			bw.Write(b)
			bw.WriteByte('\n')
			w.res.Counters["recorded_events"]++
		}
		w.res.Behaviours++
		w.res.Steps += goroutines + len(ev.Pre)
		w.res.Nontrivial++
	}
	bw.Flush()
	f.Close()
}

// ------------------------------------------------------------------------------------------------------

func (w *world) reproduce(path string) {
	b, err := os.ReadFile(path)
	if err != nil {
		fatal(err)
	}
	var r repro
	if err := json.Unmarshal(b, &r); err != nil {
		fatal(err)
	}
	switch r.Kind {
	case "behaviour":
		p := w.env.NewPeer(w.realFork())
		mon := w.newMonitor()
		var prefix []step
		for i, s := range r.Prefix {
			w.validate(p, mon, s.M, s.T, true, "repro", i, prefix)
			prefix = append(prefix, s)
		}
		if r.Probe != nil {
			o, g := w.validate(p, mon, r.Probe.M, r.Probe.T, true, "repro", len(prefix), prefix)
			w.res.Notes = append(w.res.Notes, fmt.Sprintf("probe: %s:%s monitor=%s", o.Class, o.Rule, g))
		}
	case "bytes":
		p := w.env.NewPeer(w.realFork())
		mon := w.newMonitor()
		var prefix []step
		for i, s := range r.Prefix {
			w.validate(p, mon, s.M, s.T, true, "repro", i, prefix)
			prefix = append(prefix, s)
		}
		data, _ := hex.DecodeString(r.DataHex)
		o := w.guardedCall(p, r.Topic, data, *r.Time, true, nil)
		w.res.Notes = append(w.res.Notes, fmt.Sprintf("bytes: %s:%s", o.Class, o.Rule))
		rr := repro{Kind: "bytes", Prefix: prefix, Topic: r.Topic, DataHex: r.DataHex, Time: r.Time}
		switch o.Class {
		case "panic":
			w.violate("validator-panic", "ValidatePubsubMessage panicked on saved bytes: "+firstLine(o.Panic), "repro", 0, rr)
		case "hang":
			w.violate("validator-hang", "ValidatePubsubMessage did not return on saved bytes", "repro", 0, rr)
		case "accept":
			if g := mon.Accepted(r.Topic, data, uint64(r.Time.Slot()), uint64(r.Time.Offset()/time.Millisecond), o.TimeOK); g != "none" {
				w.violate("accepted:"+g, "the validator ACCEPTED saved bytes that break rule "+g, "repro", 0, rr)
			}
		}
		if o.Alloc > allocCeiling {
			w.violate("unbounded-allocation", fmt.Sprintf("allocated %d bytes", o.Alloc), "repro", 0, rr)
		}
		if ssv, err := commons.DecodeNetworkMsg(data); err == nil && ssv != nil {
			if o := p.ValidateSSV(ssv, r.Time.Slot(), r.Time.Offset(), true); o.Class == "panic" {
				w.violate("validator-panic", "ValidateSSVMessage panicked on saved bytes: "+firstLine(o.Panic), "repro", 0, rr)
			}
		}
	case "calls": // every call made on one validator object; the last one hung
		p := w.env.NewPeer(w.realFork())
		for i, c := range r.Calls {
			data, _ := hex.DecodeString(c.DataHex)
			o := w.guardedCall(p, c.Topic, data, c.T, false, c.Msg)
			w.res.Notes = append(w.res.Notes, fmt.Sprintf("call %d/%d: %s:%s (recorded: %s:%s)", i+1, len(r.Calls), o.Class, o.Rule, c.Class, c.Rule))
			if o.Class == "panic" {
				w.violate("validator-panic", "ValidatePubsubMessage panicked on saved bytes: "+firstLine(o.Panic), "repro", i, repro{Kind: "calls", Calls: r.Calls[:i+1], Detail: o.Panic})
				break
			}
			if o.Class == "hang" {
				w.reportHang(p, "repro", i)
				break
			}
		}
	case "decoder":
		data, _ := hex.DecodeString(r.DataHex)
		w.feedDecoders(data)
		w.feedRecords(data)
		w.decoderGuard("Subnets.FromString", data, func() { _, _ = records.Subnets{}.FromString(string(data)) })
	case "concurrent":
		w.res.Notes = append(w.res.Notes, "concurrent batches are schedule dependent: re-run the check with the same seed")
	}
}

// probe: which named deviations does the tree under test have?  (partial-signature slot window, slot overflow guard)
func (w *world) probe() {
	t := valkit.TimePoint{S: 0, O: 3}
	base := valkit.Msg{Raw: "msg", Val: "active", Dom: "ok", Topic: "ok", Env: "none", Body: "ok", Sg: []int{1}, Root: 1, Js: "none", Sf: "ok", Pm: "ok"}
	ps := base
	ps.St, ps.H = "psig", 40
	pr := base
	pr.St, pr.Mt, pr.H, pr.R = "cons", 1, valkit.Slot62, 1
	out := map[string]any{}
	for name, m := range map[string]valkit.Msg{"partial_far_future": ps, "prepare_slot_2_62": pr} {
		c := w.concretise(m)
		o := w.env.NewPeer(w.realFork()).ValidatePubsub(c.Topic, c.Data, t.Slot(), t.Offset(), true)
		out[name] = map[string]string{"class": o.Class, "rule": o.Rule}
	}
	w.res.Samples = append(w.res.Samples, out)
}

func main() {
	mode := flag.String("mode", "replay", "replay | sweep | bytes | concurrent | repro")
	in := flag.String("in", "", "behaviours NDJSON (replay) / repro JSON (repro)")
	alphaPath := flag.String("alpha", "", "alphabet.json written by TLC")
	out := flag.String("out", "", "result JSON")
	trace := flag.String("trace", "", "trace NDJSON to write")
	n := flag.Int("n", 4, "committee size")
	fork := flag.Int("fork", 100000, "fork epoch code (ForkEpoch of the spec)")
	depth := flag.Int("depth", 2, "sweep depth (accepted prefix length + 1)")
	maxPaths := flag.Int("maxpaths", 0, "bound on the number of prefixes (seeded sample beyond)")
	seed := flag.Int64("seed", 1, "seed")
	flips := flag.Int("flips", 24, "bit-flip variants per message (bytes)")
	maxMsgs := flag.Int("maxmsgs", 0, "bound on the number of alphabet messages perturbed (bytes)")
	rounds := flag.Int("rounds", 50, "concurrent batches")
	workers := flag.Int("workers", 8, "sweep workers")
	flag.Parse()
	env, err := valkit.NewEnv(*n)
	if err != nil {
		fatal(err)
	}
	if err := valkit.SelfCheck(env); err != nil {
		fatal(err)
	}
	w := &world{env: env, n: *n, fork: *fork, res: vh.NewResult(), conc: map[string]*valkit.Concrete{}, seen: map[string]bool{}}
	// watchdog for the bulk modes: a call that does not return is reported and ends the run
	go func() {
		for {
			time.Sleep(200 * time.Millisecond)
			if s := lastCallStart.Load(); s != 0 && time.Since(time.Unix(0, s)) > 60*time.Second { // far beyond any stall of a loaded machine
				w.violate("validator-hang", "a direct call of ValidateSSVMessage did not return within 60 s (bulk mode watchdog)", "watchdog", 0, repro{Kind: "concurrent"})
				w.finish(*out)
				os.Exit(0)
			}
		}
	}()
	var al alphabet
	if *alphaPath != "" {
		b, err := os.ReadFile(*alphaPath)
		if err != nil {
			fatal(err)
		}
		if err := json.Unmarshal(b, &al); err != nil {
			fatal(err)
		}
		for i := range al.Alpha {
			if al.Alpha[i].Sg == nil {
				al.Alpha[i].Sg = []int{}
			}
		}
	}
	switch *mode {
	case "replay":
		behs, err := vh.ReadBehaviours(*in)
		if err != nil {
			fatal(err)
		}
		for _, b := range behs {
			if w.abort.Load() { // a validator stopped returning (reported): the remaining behaviours are skipped
				break
			}
			w.replay(b)
		}
		if len(behs) > 0 {
			w.res.Samples = append(w.res.Samples, behs[len(behs)/2])
		}
	case "sweep":
		w.sweep(al, *depth, *maxPaths, *seed, *trace, *workers)
	case "bytes":
		w.bytesMode(al, *seed, *flips, *maxMsgs)
	case "concurrent":
		w.concurrent(al, *rounds, *seed, *trace)
	case "repro":
		w.reproduce(*in)
	case "probe":
		w.probe()
	default:
		fatal(fmt.Errorf("unknown mode %s", *mode))
	}
	w.finish(*out)
}

func (w *world) finish(out string) {
	w.mu.Lock()
	defer w.mu.Unlock()
	if err := w.res.Write(out); err != nil {
		fatal(err)
	}
	f, err := os.Create(out + ".repro.ndjson")
	if err != nil {
		fatal(err)
	}
	for _, r := range w.repros {
		b, _ := json.Marshal(r)
		f.Write(b)
		f.Write([]byte("\n"))
	}
	f.Close()
}
