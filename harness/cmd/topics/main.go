// Driver for spec/Topics.tla (C18): publisher, subscriber and validator agree on topic and envelope.
//
//	-mode gen : writes seeded inputs (cases.ndjson) that TLC evaluates with the spec (TopicsTrace.tla) as an oracle
//	-mode run : runs the REAL code on a cases file:
//	            publisher   p2pNetwork.Broadcast   (real object built by the verif hook around a fake topics controller)
//	            subscriber  p2pNetwork.Subscribe   (same)
//	            receiver    messageValidator.ValidatePubsubMessage fed with the publisher's bytes on every advertised topic
//	            commons.ValidatorTopicID / ValidatorSubnet / Topics, Encode/DecodeSignedSSVMessage, records.Subnets
//	            writes the real outputs (real.ndjson, compared with the spec's expected outputs by tools/props/C18.py)
//	            and evaluates the property monitors on real outputs only (the three call sites are compared WITH EACH
//	            OTHER, no oracle involved).
package main

import (
	"bufio"
	"bytes"
	"context"
	"encoding/hex"
	"encoding/json"
	"flag"
	"fmt"
	"math"
	"math/rand"
	"os"
	"sort"
	"strings"
	"time"

	"github.com/attestantio/go-eth2-client/spec/phase0"
	specqbft "github.com/bloxapp/ssv-spec/qbft"
	spectypes "github.com/bloxapp/ssv-spec/types"
	pubsub "github.com/libp2p/go-libp2p-pubsub"
	pspb "github.com/libp2p/go-libp2p-pubsub/pb"
	"github.com/libp2p/go-libp2p/core/peer"
	"go.uber.org/zap"

	"github.com/bloxapp/ssv/message/validation"
	"github.com/bloxapp/ssv/monitoring/metricsreporter"
	"github.com/bloxapp/ssv/network/commons"
	p2pv1 "github.com/bloxapp/ssv/network/p2p"
	"github.com/bloxapp/ssv/network/records"
	"github.com/bloxapp/ssv/networkconfig"
	operatordatastore "github.com/bloxapp/ssv/operator/datastore"
	"github.com/bloxapp/ssv/operator/keys"
	registrystorage "github.com/bloxapp/ssv/registry/storage"

	"verif/harness/vh"
)

const (
	keySize = 48
	sigSize = 256
	idSize  = 8
	vecSize = 128
)

// ---------------------------------------------------------------------------------------------
// fakes at the repository's own interfaces
// ---------------------------------------------------------------------------------------------

// fakeTopics implements topics.Controller and records the names the network hands to it.
type fakeTopics struct {
	subscribed   []string
	unsubscribed []string
	broadcast    []string
	data         [][]byte
}

func (f *fakeTopics) Subscribe(_ *zap.Logger, name string) error {
	f.subscribed = append(f.subscribed, name)
	return nil
}
func (f *fakeTopics) Unsubscribe(_ *zap.Logger, name string, _ bool) error {
	f.unsubscribed = append(f.unsubscribed, name)
	return nil
}
func (f *fakeTopics) Peers(string) ([]peer.ID, error) { return nil, nil }
func (f *fakeTopics) Topics() []string                { return nil }
func (f *fakeTopics) Broadcast(name string, data []byte, _ time.Duration) error {
	f.broadcast = append(f.broadcast, name)
	f.data = append(f.data, append([]byte(nil), data...))
	return nil
}
func (f *fakeTopics) Close() error { return nil }

// fakeSigner returns the signature of the current case (the property quantifies over all 256-byte signatures).
type fakeSigner struct{ sig []byte }

func (s *fakeSigner) Sign([]byte) ([]byte, error)   { return s.sig, nil }
func (s *fakeSigner) Public() keys.OperatorPublicKey { return nil }

// verdictRecorder captures the outcome of the real validator (its only observable besides the pubsub result).
type verdictRecorder struct {
	metricsreporter.MetricsReporter
	last string
}

func (v *verdictRecorder) MessageAccepted(spectypes.BeaconRole, specqbft.Round) { v.last = "accepted" }
func (v *verdictRecorder) MessageIgnored(reason string, _ spectypes.BeaconRole, _ specqbft.Round) {
	v.last = reason
}
func (v *verdictRecorder) MessageRejected(reason string, _ spectypes.BeaconRole, _ specqbft.Round) {
	v.last = reason
}

// ---------------------------------------------------------------------------------------------
// world: the real objects
// ---------------------------------------------------------------------------------------------

type side struct { // one fork side: signed envelope (permissionless) or raw
	netCfg networkconfig.NetworkConfig
	mv     validation.MessageValidator
	rec    *verdictRecorder
	signed bool
}

type world struct {
	res        *vh.Result
	logger     *zap.Logger
	sides      [2]*side // [0] signed envelope, [1] raw (before the permissionless fork)
	advertised map[string]bool
	advList    []string
	probeList  []string // advertised topics + the full name of the "unknown" sentinel
	preTopic   map[string]bool
	topicNF    string
	nvalidated int
	distinct   map[string]bool
	obsShort   int
	samples    []any
}

func newSide(signed bool) *side {
	cfg := networkconfig.TestNetwork
	if signed {
		cfg.PermissionlessActivationEpoch = 0 // current epoch > 0: every message travels in the signed envelope
	} else {
		cfg.PermissionlessActivationEpoch = phase0.Epoch(math.MaxUint64)
	}
	rec := &verdictRecorder{MetricsReporter: metricsreporter.NewNop()}
	// whether messages travel in the signed envelope is decided exactly as Broadcast / validateP2PMessage decide it
	signed = cfg.Beacon.EstimatedCurrentEpoch() > cfg.PermissionlessActivationEpoch
	return &side{netCfg: cfg, rec: rec, signed: signed,
		mv: validation.NewMessageValidator(cfg, validation.WithMetrics(rec))}
}

func newWorld(res *vh.Result) *world {
	w := &world{res: res, logger: zap.NewNop(), advertised: map[string]bool{}, distinct: map[string]bool{}}
	w.sides[0], w.sides[1] = newSide(true), newSide(false)
	w.advList = commons.Topics()
	for _, t := range w.advList {
		w.advertised[t] = true
	}
	w.probeList = append(append([]string{}, w.advList...), commons.GetTopicFullName(commons.UnknownSubnet))
	w.topicNF = validation.ErrTopicNotFound.Text()
	w.preTopic = map[string]bool{}
	for _, e := range []validation.Error{validation.ErrMalformedSignedMessage, validation.ErrPubSubMessageHasNoData,
		validation.ErrPubSubDataTooBig, validation.ErrMalformedPubSubMessage, validation.ErrEmptyPubSubMessage} {
		w.preTopic[e.Text()] = true
	}
	return w
}

// network builds a fresh REAL p2pNetwork (verif hook) around a fake topics controller.
func (w *world) network(s *side, opID uint64, sig []byte) (*fakeTopics, interface {
	Broadcast(*spectypes.SSVMessage) error
	Subscribe(spectypes.ValidatorPK) error
	SubscribeAll(*zap.Logger) error
}) {
	ft := &fakeTopics{}
	cfg := &p2pv1.Config{
		Ctx:               context.Background(),
		Network:           s.netCfg,
		RequestTimeout:    time.Second,
		OperatorSigner:    &fakeSigner{sig: sig},
		OperatorDataStore: operatordatastore.New(&registrystorage.OperatorData{ID: opID}),
	}
	return ft, p2pv1.VerifNewNetwork(w.logger, cfg, ft)
}

// validate feeds data on `topic` to the real validator and returns its verdict text.
func (w *world) validate(s *side, topic string, data []byte) string {
	tp := topic
	pmsg := &pubsub.Message{Message: &pspb.Message{Data: data, Topic: &tp}}
	s.rec.last = "?"
	s.mv.ValidatePubsubMessage(context.Background(), peer.ID("verif-peer"), pmsg)
	w.nvalidated++
	return s.rec.last
}

func setOf(xs []string) []string {
	m := map[string]bool{}
	for _, x := range xs {
		m[x] = true
	}
	out := make([]string, 0, len(m))
	for x := range m {
		out = append(out, x)
	}
	sort.Strings(out)
	return out
}

func eqStrs(a, b []string) bool {
	if len(a) != len(b) {
		return false
	}
	for i := range a {
		if a[i] != b[i] {
			return false
		}
	}
	return true
}

func fullNames(bases []string) []string {
	out := make([]string, len(bases))
	for i, b := range bases {
		out[i] = commons.GetTopicFullName(b) // what the real topics controller does with a base name
	}
	sort.Strings(out)
	return out
}

func toBytes(xs []int) []byte {
	b := make([]byte, len(xs))
	for i, x := range xs {
		b[i] = byte(x)
	}
	return b
}

func toInts(b []byte) []int {
	out := make([]int, len(b))
	for i, x := range b {
		out[i] = int(x)
	}
	return out
}

func idFromLE(d []int) uint64 { // arithmetic, not encoding/binary
	var v uint64
	for i := len(d) - 1; i >= 0; i-- {
		v = v*256 + uint64(d[i])
	}
	return v
}

func idToLE(v uint64) []int {
	d := make([]int, idSize)
	for i := 0; i < idSize; i++ {
		d[i] = int(v % 256)
		v /= 256
	}
	return d
}

// ---------------------------------------------------------------------------------------------
// cases
// ---------------------------------------------------------------------------------------------

type kase map[string]any

func ints(c kase, k string) []int  { return vh.Ints(c, k) }
func str(c kase, k string) string  { return vh.Str(c, k) }
func strs(c kase, k string) []string {
	var out []string
	for _, x := range vh.List(c, k) {
		if s, ok := x.(string); ok {
			out = append(out, s)
		}
	}
	return out
}

func (w *world) violate(sig, desc string, c kase) {
	w.res.Counters["violations_"+sig]++
	if w.res.Counters["violations_"+sig] > 25 { // keep room for the other monitors (vh.Result stores 200 at most)
		w.res.Counters["violations"]++
		return
	}
	w.res.Violate(sig, desc, fmt.Sprintf("case-%d", vh.Int(c, "id")), vh.Int(c, "id"))
}

// runKey: the three call sites for one key.
func (w *world) runKey(c kase) kase {
	pk := toBytes(ints(c, "pk"))
	id := vh.Int(c, "id")
	out := kase{"id": id, "kind": "key"}
	pkHex := hex.EncodeToString(pk)
	ids := commons.ValidatorTopicID(pk)
	subnet := commons.ValidatorSubnet(pkHex)
	out["subnet"], out["ids"] = subnet, ids

	s := w.sides[id%5/4] // every fifth key goes through the pre-fork (raw) side
	sig := make([]byte, sigSize)
	rng := rand.New(rand.NewSource(int64(id)*7919 + 17))
	rng.Read(sig)
	opID := uint64(rng.Int63()) | 1

	// subscriber
	ft, n := w.network(s, opID, sig)
	if err := n.Subscribe(spectypes.ValidatorPK(pk)); err != nil {
		w.res.Notes = append(w.res.Notes, fmt.Sprintf("case %d: Subscribe returned %v", id, err))
	}
	sub := setOf(ft.subscribed)
	out["sub"] = sub
	if !eqStrs(sub, setOf(ids)) {
		w.violate("topic-publish-subscribe-mismatch", fmt.Sprintf("key %s: p2pNetwork.Subscribe subscribes to %v but commons.ValidatorTopicID names %v", pkHex, sub, ids), c)
	}
	inRangeExpected := len(pkHex) >= 10
	if inRangeExpected {
		if subnet < 0 || subnet >= commons.Subnets() {
			w.violate("subnet-out-of-range", fmt.Sprintf("key %s: commons.ValidatorSubnet = %d, advertised range is 0..%d", pkHex, subnet, commons.Subnets()-1), c)
		}
		for _, t := range sub {
			if !w.advertised[commons.GetTopicFullName(t)] {
				w.violate("subnet-out-of-range", fmt.Sprintf("key %s: subscribed topic %q is not one of the %d advertised topics", pkHex, t, len(w.advList)), c)
			}
		}
	}

	// publisher: a message for this key, through the real Broadcast
	data := make([]byte, rng.Intn(3)*rng.Intn(40))
	rng.Read(data)
	role := []spectypes.BeaconRole{spectypes.BNRoleAttester, spectypes.BNRoleProposer, spectypes.BNRoleSyncCommittee}[rng.Intn(3)]
	msg := &spectypes.SSVMessage{
		MsgType: []spectypes.MsgType{spectypes.SSVConsensusMsgType, spectypes.SSVPartialSignatureMsgType}[rng.Intn(2)],
		MsgID:   spectypes.NewMsgID(s.netCfg.Domain, pk, role),
		Data:    data,
	}
	ft2, n2 := w.network(s, opID, sig)
	berr := n2.Broadcast(msg)
	pubPadded := setOf(ft2.broadcast)
	out["pub_padded"] = pubPadded
	if len(pk) != keySize {
		// a malformed key cannot be carried by a message id (zero-padded / truncated slot): no statement
		out["pub"], out["accepted"], out["probe_accepts"] = []string{}, []string{}, []bool{}
		if len(pkHex) < 10 && !eqStrs(pubPadded, sub) {
			w.obsShort++ // documented quirk (Topics!AgreeThroughMsgID), not a verdict
		}
		return out
	}
	pub := pubPadded
	out["pub"] = pub
	if berr != nil || len(ft2.broadcast) == 0 {
		w.violate("topic-publish-subscribe-mismatch", fmt.Sprintf("key %s: p2pNetwork.Broadcast published on no topic (err=%v) while Subscribe subscribed to %v", pkHex, berr, sub), c)
		out["accepted"], out["probe_accepts"] = []string{}, []bool{}
		return out
	}
	if !eqStrs(pub, sub) {
		w.violate("topic-publish-subscribe-mismatch", fmt.Sprintf("key %s: Broadcast publishes on %v, Subscribe subscribes to %v", pkHex, pub, sub), c)
	}
	for _, t := range pub {
		if !w.advertised[commons.GetTopicFullName(t)] {
			w.violate("subnet-out-of-range", fmt.Sprintf("key %s: published topic %q is not one of the %d advertised topics", pkHex, t, len(w.advList)), c)
		}
	}

	// the publisher's envelope, unwrapped by the real decoder
	wire := ft2.data[0]
	if s.signed {
		enc, _ := msg.Encode()
		m, oid, sg, err := commons.DecodeSignedSSVMessage(wire)
		if err != nil || !bytes.Equal(m, enc) || oid != opID || !bytes.Equal(sg, sig) {
			w.violate("envelope-roundtrip", fmt.Sprintf("key %s: what Broadcast wrapped (operator %d, %d-byte message) does not unwrap to the same three parts (err=%v, id=%d, message equal=%v, signature equal=%v)",
				pkHex, opID, len(enc), err, oid, bytes.Equal(m, enc), bytes.Equal(sg, sig)), c)
		}
	}

	// receiver: the same bytes offered on every advertised topic (and on the "unknown" sentinel)
	accepted := []string{}
	verdictOnOwn := ""
	probes := w.probeList
	for _, t := range fullNames(setOf(append(append([]string{}, pub...), sub...))) {
		if !w.advertised[t] && t != probes[len(w.advList)] {
			probes = append(append([]string{}, probes...), t) // a topic outside the advertised range is probed too
		}
	}
	for _, t := range probes {
		v := w.validate(s, t, wire)
		if v != w.topicNF {
			accepted = append(accepted, t)
			verdictOnOwn = v
		}
	}
	sort.Strings(accepted)
	out["accepted"] = accepted
	want := fullNames(setOf(append(append([]string{}, pub...), sub...)))
	if !eqStrs(accepted, want) {
		w.violate("topic-validator-mismatch", fmt.Sprintf("key %s: published on %v / subscribed to %v (pubsub topics %v) but the validator passes the topic check exactly on %v", pkHex, pub, sub, want, accepted), c)
	} else if w.preTopic[verdictOnOwn] {
		w.violate("envelope-roundtrip", fmt.Sprintf("key %s: the receiver cannot unwrap what the publisher sent on %v: %q (the topic check was never reached)", pkHex, want, verdictOnOwn), c)
	}
	// odd topic strings: only compared with the spec (GetTopicBaseName removes the first "ssv.v2." anywhere)
	pa := []bool{}
	for _, t := range strs(c, "probes") {
		pa = append(pa, w.validate(s, t, wire) != w.topicNF)
	}
	out["probe_accepts"] = pa
	w.distinct["key:"+pkHex[:10]] = true
	if len(w.samples) < 3 {
		w.samples = append(w.samples, kase{"key": pkHex, "subnet": subnet, "published_on": pub, "subscribed_to": sub,
			"validator_passes_topic_check_on": accepted, "validator_verdict_there": verdictOnOwn, "signed_envelope": s.signed})
	}
	return out
}

func (w *world) runEnv(c kase) kase {
	msg, idLE, sig := toBytes(ints(c, "msg")), ints(c, "id_le"), toBytes(ints(c, "sig"))
	id := idFromLE(idLE)
	out := kase{"id": vh.Int(c, "id"), "kind": "env"}
	enc := commons.EncodeSignedSSVMessage(msg, id, sig)
	m, oid, sg, err := commons.DecodeSignedSSVMessage(enc)
	out["enc"], out["ok"] = toInts(enc), err == nil
	out["dec_msg"], out["dec_id_le"], out["dec_sig"] = toInts(m), idToLE(oid), toInts(sg)
	rt := err == nil && bytes.Equal(m, msg) && oid == id && bytes.Equal(sg, sig)
	out["roundtrip"] = rt || len(sig) != sigSize
	if len(sig) == sigSize {
		if !rt {
			w.violate("envelope-roundtrip", fmt.Sprintf("Decode(Encode(message %d bytes, operator %d, signature)) returned err=%v, id=%d, message equal=%v, signature equal=%v",
				len(msg), id, err, oid, bytes.Equal(m, msg), bytes.Equal(sg, sig)), c)
		}
		if len(msg) > 0 {
			w.distinct["env:"+hex.EncodeToString(enc[sigSize-4:minInt(len(enc), sigSize+idSize+8)])] = true
		}
		if len(w.samples) < 5 && len(msg) > 0 && len(msg) < 12 {
			w.samples = append(w.samples, kase{"envelope_message": hex.EncodeToString(msg), "operator_id": id, "signature_prefix": hex.EncodeToString(sig[:8]),
				"encoded_len": len(enc), "roundtrip": rt})
		}
	}
	return out
}

func minInt(a, b int) int {
	if a < b {
		return a
	}
	return b
}

func (w *world) runDec(c kase) kase {
	enc := toBytes(ints(c, "enc"))
	out := kase{"id": vh.Int(c, "id"), "kind": "dec"}
	m, oid, sg, err := commons.DecodeSignedSSVMessage(enc)
	out["ok"] = err == nil
	if err == nil {
		out["msg"], out["id_le"], out["sig"] = toInts(m), idToLE(oid), toInts(sg)
		// re-wrapping what was unwrapped gives the same bytes back
		if !bytes.Equal(commons.EncodeSignedSSVMessage(m, oid, sg), enc) {
			w.violate("envelope-roundtrip", fmt.Sprintf("Encode(Decode(%d bytes)) differs from the input", len(enc)), c)
		}
	} else {
		out["msg"], out["id_le"], out["sig"] = []int{}, []int{}, []int{}
	}
	return out
}

func (w *world) runVec(c kase) kase {
	v := toBytes(ints(c, "v"))
	out := kase{"id": vh.Int(c, "id"), "kind": "vec"}
	s := records.Subnets(v).String()
	back, err := records.Subnets{}.FromString(s)
	out["str"], out["back"] = s, toInts(back)
	rt := err == nil && bytes.Equal(back, v)
	out["roundtrip"] = rt
	if len(v) == vecSize {
		if !rt {
			w.violate("subnets-string-roundtrip", fmt.Sprintf("Subnets %v -> %q -> %v (err=%v)", onesOf(v), s, onesOf(back), err), c)
		}
		if n := records.Subnets(v).Active(); n > 0 && n < vecSize {
			w.distinct["vec:"+s] = true
		}
		if len(w.samples) < 7 && records.Subnets(v).Active() < 6 && records.Subnets(v).Active() > 1 {
			w.samples = append(w.samples, kase{"subnets_set": onesOf(v), "string": s, "roundtrip": rt})
		}
	}
	return out
}

func onesOf(v []byte) []int {
	out := []int{}
	for i, x := range v {
		if x > 0 {
			out = append(out, i)
		}
	}
	return out
}

func (w *world) runSubStr(c kase) kase {
	s := str(c, "s")
	out := kase{"id": vh.Int(c, "id"), "kind": "substr"}
	v, err := records.Subnets{}.FromString(s)
	out["ok"] = err == nil
	if err == nil {
		out["v"], out["str"] = toInts(v), records.Subnets(v).String()
	} else {
		out["v"], out["str"] = []int{}, ""
	}
	return out
}

func (w *world) runTopics(c kase) kase {
	ft, n := w.network(w.sides[0], 1, make([]byte, sigSize))
	_ = n.SubscribeAll(w.logger)
	all := fullNames(setOf(ft.subscribed))
	adv := setOf(w.advList)
	if !eqStrs(all, adv) {
		w.res.Notes = append(w.res.Notes, fmt.Sprintf("SubscribeAll subscribes to %d topics, commons.Topics() advertises %d", len(all), len(adv)))
	}
	return kase{"id": vh.Int(c, "id"), "kind": "topics", "advertised": adv, "subscribe_all": all, "count": commons.Subnets()}
}

func (w *world) run(c kase) (out kase) {
	defer func() {
		if r := recover(); r != nil {
			w.res.Notes = append(w.res.Notes, fmt.Sprintf("case %d (%s) panicked: %v", vh.Int(c, "id"), str(c, "kind"), r))
			w.res.Counters["panics"]++
			out = kase{"id": vh.Int(c, "id"), "kind": str(c, "kind"), "panic": fmt.Sprint(r)}
		}
	}()
	switch str(c, "kind") {
	case "key":
		return w.runKey(c)
	case "hexstr":
		return kase{"id": vh.Int(c, "id"), "kind": "hexstr", "subnet": commons.ValidatorSubnet(str(c, "s"))}
	case "env":
		return w.runEnv(c)
	case "dec":
		return w.runDec(c)
	case "vec":
		return w.runVec(c)
	case "substr":
		return w.runSubStr(c)
	case "topics":
		return w.runTopics(c)
	}
	panic("unknown case kind " + str(c, "kind"))
}

// ---------------------------------------------------------------------------------------------
// generation (seeded)
// ---------------------------------------------------------------------------------------------

type gen struct {
	rng  *rand.Rand
	next int
	out  []kase
}

func (g *gen) add(c kase) {
	g.next++
	c["id"] = g.next
	g.out = append(g.out, c)
}

func (g *gen) bytes(n int) []int {
	b := make([]int, n)
	for i := range b {
		b[i] = g.rng.Intn(256)
	}
	return b
}

func (g *gen) key(pk []int, src string, withProbes bool) {
	probes := []string{}
	if pk == nil {
		pk = []int{} // JSON [] (TLC's Json module has no null)
	}
	if withProbes && len(pk) == keySize {
		own := commons.GetTopicFullName(commons.ValidatorTopicID(toBytes(pk))[0])
		base := commons.GetTopicBaseName(own)
		other := fmt.Sprintf("%d", g.rng.Intn(128))
		cands := []string{base, "ssv.v2." + own, own + "ssv.v2.", "x" + own, own + "x", "ssv.v2.0" + base, strings.ToUpper(own),
			base + "ssv.v2.", "ssv.v2." + other, "ssv.v2.ssv.v2." + other, "", "ssv.v2.", " " + own, "ssv.v2" + base, "ssv.v3." + base}
		g.rng.Shuffle(len(cands), func(i, j int) { cands[i], cands[j] = cands[j], cands[i] })
		probes = cands[:2]
	}
	g.add(kase{"kind": "key", "pk": pk, "probes": probes, "src": src})
}

var edge = []int{0x00, 0x7f, 0x80, 0xff}

func generate(seed int64, nkeys, nboundary, nenv, nvec int, extra []kase) []kase {
	g := &gen{rng: rand.New(rand.NewSource(seed))}
	g.add(kase{"kind": "topics"})
	for _, e := range extra { // counterexample keys of the weakened specs (attack configs)
		g.key(ints(e, "pk"), str(e, "src"), false)
	}
	// malformed short keys: every length below the five bytes the mapping reads, and a sample of 5..47
	g.key([]int{}, "short", false)
	for L := 1; L <= 4; L++ {
		for _, b := range edge {
			pk := g.bytes(L)
			pk[L-1] = b
			g.key(pk, "short", false)
		}
	}
	for i := 0; i < 40; i++ {
		g.key(g.bytes(5+g.rng.Intn(43)), "short", false)
	}
	// boundary keys: each of the first five bytes in {00,7f,80,ff}; a seeded sample of the 1024 prefixes at length 48
	perm := g.rng.Perm(1024)
	if nboundary > 1024 {
		nboundary = 1024
	}
	for _, p := range perm[:nboundary] {
		pk := g.bytes(keySize)
		for k := 0; k < 5; k++ {
			pk[k] = edge[(p>>(2*k))&3]
		}
		g.key(pk, "boundary", g.rng.Intn(10) == 0)
	}
	for i := 0; i < nkeys; i++ {
		g.key(g.bytes(keySize), "random", g.rng.Intn(10) == 0)
	}
	// commons.ValidatorSubnet on arbitrary strings
	for _, s := range []string{"", "0", "123456789", "0000000000", "ffffffffff", "FFFFFFFFFF", "00000000zz", "0x00000001ab", "+000000001", "00000000_1",
		"8000000000", "000000007f", "0000000080", "00000000ff00", "abcdefABCD", " 000000000"} {
		g.add(kase{"kind": "hexstr", "s": s})
	}
	const hexish = "0123456789abcdefABCDEFxg_ "
	for i := 0; i < 40; i++ {
		n := g.rng.Intn(22)
		b := make([]byte, n)
		for k := range b {
			if g.rng.Intn(8) == 0 {
				b[k] = hexish[g.rng.Intn(len(hexish))]
			} else {
				b[k] = hexish[g.rng.Intn(16)]
			}
		}
		g.add(kase{"kind": "hexstr", "s": string(b)})
	}
	// envelopes
	idEdges := []uint64{0, 1, 255, 256, 1<<32 - 1, 1 << 32, 1<<63 - 1, 1 << 63, math.MaxUint64}
	for i := 0; i < nenv; i++ {
		var n int
		switch g.rng.Intn(10) {
		case 0:
			n = 0
		case 1:
			n = 1
		case 2:
			n = 200 + g.rng.Intn(1800)
		default:
			n = 2 + g.rng.Intn(90)
		}
		id := g.rng.Uint64()
		if i < len(idEdges) {
			id = idEdges[i]
		}
		sig := g.bytes(sigSize)
		switch i % 50 {
		case 48:
			sig = make([]int, sigSize)
		case 49:
			for k := range sig {
				sig[k] = 255
			}
		}
		g.add(kase{"kind": "env", "msg": g.bytes(n), "id_le": idToLE(id), "sig": sig})
	}
	for _, n := range []int{0, 1, 255, 257, 300} { // signatures of another size: compared with the spec only
		g.add(kase{"kind": "env", "msg": g.bytes(5), "id_le": idToLE(g.rng.Uint64()), "sig": g.bytes(n)})
	}
	for _, n := range []int{0, 1, 255, 256, 263, 264, 265, 300} {
		g.add(kase{"kind": "dec", "enc": g.bytes(n)})
	}
	for i := 0; i < nenv/20; i++ {
		g.add(kase{"kind": "dec", "enc": g.bytes(g.rng.Intn(600))})
	}
	// subnet vectors
	mk := func(p func(i int) bool) []int {
		v := make([]int, vecSize)
		for i := range v {
			if p(i) {
				v[i] = 1
			}
		}
		return v
	}
	g.add(kase{"kind": "vec", "v": mk(func(int) bool { return false })})
	g.add(kase{"kind": "vec", "v": mk(func(int) bool { return true })})
	g.add(kase{"kind": "vec", "v": mk(func(i int) bool { return i%2 == 0 })})
	g.add(kase{"kind": "vec", "v": mk(func(i int) bool { return i%2 == 1 })})
	for b := 0; b < vecSize; b += 1 + g.rng.Intn(4) {
		bb := b
		g.add(kase{"kind": "vec", "v": mk(func(i int) bool { return i == bb })})
	}
	for i := 0; i < nvec; i++ {
		den := 1 + g.rng.Intn(99)
		g.add(kase{"kind": "vec", "v": mk(func(int) bool { return g.rng.Intn(100) < den })})
	}
	for _, s := range []string{records.ZeroSubnets, records.AllSubnets, "0x" + records.AllSubnets, "", "0", "0x", "zz", "abc", "00ff", "0X12", "FFFF0000ffff0000FFFF0000ffff0000", "f0x0"} {
		g.add(kase{"kind": "substr", "s": s})
	}
	for i := 0; i < nvec/10; i++ {
		b := make([]byte, 32)
		for k := range b {
			b[k] = hexish[g.rng.Intn(16)]
		}
		if g.rng.Intn(6) == 0 {
			b[g.rng.Intn(32)] = 'g'
		}
		g.add(kase{"kind": "substr", "s": string(b[:32-g.rng.Intn(2)*g.rng.Intn(6)])})
	}
	return g.out
}

// ---------------------------------------------------------------------------------------------

func readCases(path string) ([]kase, error) {
	f, err := os.Open(path)
	if err != nil {
		return nil, err
	}
	defer f.Close()
	var out []kase
	sc := bufio.NewScanner(f)
	sc.Buffer(make([]byte, 1<<20), 1<<28)
	for sc.Scan() {
		if len(bytes.TrimSpace(sc.Bytes())) == 0 {
			continue
		}
		var c kase
		if err := json.Unmarshal(sc.Bytes(), &c); err != nil {
			return nil, err
		}
		out = append(out, c)
	}
	return out, sc.Err()
}

func writeCases(path string, cs []kase) error {
	f, err := os.Create(path)
	if err != nil {
		return err
	}
	bw := bufio.NewWriter(f)
	for _, c := range cs {
		b, err := json.Marshal(c)
		if err != nil {
			return err
		}
		bw.Write(b)
		bw.WriteByte('\n')
	}
	if err := bw.Flush(); err != nil {
		return err
	}
	return f.Close()
}

func die(err error) {
	fmt.Fprintln(os.Stderr, err)
	os.Exit(3)
}

func main() {
	mode := flag.String("mode", "run", "gen | run")
	in := flag.String("in", "", "cases NDJSON (run)")
	cases := flag.String("cases", "", "cases NDJSON to write (gen)")
	extra := flag.String("extra", "", "NDJSON of extra key cases {pk, src} (gen)")
	realOut := flag.String("real", "", "NDJSON of real outputs to write (run)")
	out := flag.String("out", "", "result JSON (run)")
	seed := flag.Int64("seed", 1, "seed")
	nkeys := flag.Int("keys", 2000, "random 48-byte keys")
	nboundary := flag.Int("boundary", 256, "boundary keys sampled from the 1024 prefixes")
	nenv := flag.Int("env", 400, "envelopes")
	nvec := flag.Int("vec", 300, "subnet vectors")
	flag.Parse()
	switch *mode {
	case "gen":
		var ex []kase
		if *extra != "" {
			var err error
			if ex, err = readCases(*extra); err != nil {
				die(err)
			}
		}
		if err := writeCases(*cases, generate(*seed, *nkeys, *nboundary, *nenv, *nvec, ex)); err != nil {
			die(err)
		}
	case "run":
		cs, err := readCases(*in)
		if err != nil {
			die(err)
		}
		res := vh.NewResult()
		w := newWorld(res)
		reals := make([]kase, 0, len(cs))
		for _, c := range cs {
			reals = append(reals, w.run(c))
			res.Behaviours++
		}
		res.Steps = len(cs) + w.nvalidated
		res.Nontrivial = len(w.distinct)
		res.Counters["validations"] = w.nvalidated
		res.Counters["short_key_msgid_disagreements"] = w.obsShort
		res.Counters["subnets_count"] = commons.Subnets()
		for _, k := range []string{"key", "env", "vec"} {
			n := 0
			for d := range w.distinct {
				if strings.HasPrefix(d, k+":") {
					n++
				}
			}
			res.Counters["distinct_"+k] = n
		}
		res.Samples = w.samples
		if *realOut != "" {
			if err := writeCases(*realOut, reals); err != nil {
				die(err)
			}
		}
		if err := res.Write(*out); err != nil {
			die(err)
		}
	default:
		die(fmt.Errorf("unknown mode %s", *mode))
	}
}
