// Driver for spec/Queue.tla: replays TLC behaviours on the real protocol/v2/ssv/queue priority queue,
// runs the C14 monitors on the real return values, and records its own (sequential and concurrent)
// executions for trace validation.
package main

import (
	"context"
	"flag"
	"fmt"
	"math/rand"
	"os"
	"sort"
	"sync"
	"time"

	"github.com/attestantio/go-eth2-client/spec/phase0"
	specqbft "github.com/bloxapp/ssv-spec/qbft"
	spectypes "github.com/bloxapp/ssv-spec/types"
	"github.com/bloxapp/ssv/protocol/v2/ssv/queue"
	ssvtypes "github.com/bloxapp/ssv/protocol/v2/types"

	"verif/harness/vh"
)

// prioritizer state the abstract classes are concretised against
const (
	curHeight = specqbft.Height(10)
	curRound  = specqbft.Round(2)
	curSlot   = phase0.Slot(10)
	quorum    = 3
)

type class struct {
	K   string
	Rel int
	Rnd int
	Ct  string
	Dec bool
}

func classOf(m map[string]any) class {
	return class{K: vh.Str(m, "k"), Rel: vh.Int(m, "rel"), Rnd: vh.Int(m, "rnd"), Ct: vh.Str(m, "ct"), Dec: vh.Bool(m, "dec")}
}

func (c class) toMap() map[string]any {
	return map[string]any{"k": c.K, "rel": c.Rel, "rnd": c.Rnd, "ct": c.Ct, "dec": c.Dec}
}

// coarse documented order: duty start > timeout > current-height traffic > other heights (harness's own transcription)
func coarse(c class) int {
	switch c.K {
	case "exec":
		return 3
	case "timeout":
		return 2
	case "cons", "pre", "post":
		if c.Rel == 0 {
			return 1
		}
	}
	return 0
}

func build(c class) *queue.DecodedSSVMessage {
	switch c.K {
	case "exec":
		return &queue.DecodedSSVMessage{SSVMessage: &spectypes.SSVMessage{}, Body: &ssvtypes.EventMsg{Type: ssvtypes.ExecuteDuty}}
	case "timeout":
		return &queue.DecodedSSVMessage{SSVMessage: &spectypes.SSVMessage{}, Body: &ssvtypes.EventMsg{Type: ssvtypes.Timeout}}
	case "cons":
		var t specqbft.MessageType
		switch c.Ct {
		case "proposal":
			t = specqbft.ProposalMsgType
		case "prepare":
			t = specqbft.PrepareMsgType
		case "commit":
			t = specqbft.CommitMsgType
		default:
			t = specqbft.RoundChangeMsgType
		}
		signers := []spectypes.OperatorID{1}
		if c.Dec {
			signers = []spectypes.OperatorID{1, 2, 3, 4}
		}
		return &queue.DecodedSSVMessage{SSVMessage: &spectypes.SSVMessage{MsgType: spectypes.SSVConsensusMsgType},
			Body: &specqbft.SignedMessage{Signers: signers, Message: specqbft.Message{
				MsgType: t, Height: specqbft.Height(int(curHeight) + c.Rel), Round: specqbft.Round(int(curRound) + c.Rnd)}}}
	case "pre", "post":
		pt := spectypes.PostConsensusPartialSig
		if c.K == "pre" {
			pt = spectypes.RandaoPartialSig
		}
		return &queue.DecodedSSVMessage{SSVMessage: &spectypes.SSVMessage{MsgType: spectypes.SSVPartialSignatureMsgType},
			Body: &spectypes.SignedPartialSignatureMessage{Signer: 1, Message: spectypes.PartialSignatureMessages{
				Type: pt, Slot: phase0.Slot(int(curSlot) + c.Rel)}}}
	}
	panic("unknown class " + c.K)
}

func prioritizer(hri bool) queue.MessagePrioritizer {
	return queue.NewMessagePrioritizer(&queue.State{HasRunningInstance: hri, Height: curHeight, Round: curRound, Slot: curSlot, Quorum: quorum})
}

// world is the harness's own bookkeeping of the REAL queue, from real return values only
type world struct {
	q       queue.Queue
	byPtr   map[*queue.DecodedSSVMessage]int
	cls     map[int]class
	queued  map[int]bool // pushed successfully and not yet returned
	popped  map[int]int  // id -> times returned
	res     *vh.Result
	beh     string
	step    int
	waiting *waiter
	dead    bool
}

type waiter struct {
	filter map[int]bool
	hri    bool
	done   chan *queue.DecodedSSVMessage
	cancel context.CancelFunc
}

func newWorld(capacity int, res *vh.Result, beh string) *world {
	return &world{q: queue.New(capacity), byPtr: map[*queue.DecodedSSVMessage]int{}, cls: map[int]class{},
		queued: map[int]bool{}, popped: map[int]int{}, res: res, beh: beh}
}

func (w *world) filterFn(f map[int]bool) queue.Filter {
	return func(m *queue.DecodedSSVMessage) bool { return f[w.byPtr[m]] }
}

func setOf(xs []int) map[int]bool {
	m := map[int]bool{}
	for _, x := range xs {
		m[x] = true
	}
	return m
}

func keys(m map[int]bool) []int {
	var out []int
	for k, v := range m {
		if v {
			out = append(out, k)
		}
	}
	sort.Ints(out)
	return out
}

// checkPop runs the C14 monitors on one completed pop of the real queue.
func (w *world) checkPop(f map[int]bool, got *queue.DecodedSSVMessage, call string) int {
	admissible := []int{}
	for id := range w.queued {
		if f[id] {
			admissible = append(admissible, id)
		}
	}
	sort.Ints(admissible)
	id := 0
	if got != nil {
		var ok bool
		id, ok = w.byPtr[got]
		if !ok {
			w.res.Violate("foreign-message", call+" returned a message that was never pushed", w.beh, w.step)
			return 0
		}
		if !f[id] {
			w.res.Violate("inadmissible-returned", fmt.Sprintf("%s returned message %d (%v) that its filter %v does not admit", call, id, w.cls[id], keys(f)), w.beh, w.step)
		}
		if !w.queued[id] {
			w.res.Violate("duplicate-return", fmt.Sprintf("%s returned message %d which is not queued (returned %d times before)", call, id, w.popped[id]), w.beh, w.step)
		}
		for _, x := range admissible {
			if coarse(w.cls[x]) > coarse(w.cls[id]) {
				w.res.Violate("not-maximal", fmt.Sprintf("%s returned %d %v while admissible %d %v ranks higher in the documented order", call, id, w.cls[id], x, w.cls[x]), w.beh, w.step)
				break
			}
		}
		delete(w.queued, id)
		w.popped[id]++
	} else if len(admissible) > 0 {
		w.res.Violate("unresponsive-pop", fmt.Sprintf("%s with filter %v returned nil while admissible messages %v are queued", call, keys(f), admissible), w.beh, w.step)
	}
	w.checkLen(call)
	return id
}

// checkLen: Len() must equal the number of messages pushed and not yet returned (a discarded message shows here).
func (w *world) checkLen(call string) {
	if w.waiting != nil {
		return // Len() races with the consumer goroutine
	}
	if n := w.q.Len(); n != len(w.queued) {
		w.res.Violate("message-discarded", fmt.Sprintf("after %s: Len()=%d but %d messages were pushed and not returned (%v)", call, n, len(w.queued), keys(w.queued)), w.beh, w.step)
		w.dead = true // one loss is reported once; the rest of this behaviour is skipped
	}
}

// drain at the end of a behaviour: everything pushed and not returned must come back exactly once.
func (w *world) drain() {
	if w.dead {
		if w.waiting != nil {
			w.waiting.cancel()
		}
		return
	}
	if w.waiting != nil {
		w.waiting.cancel()
		m := <-w.waiting.done
		f := w.waiting.filter
		w.waiting = nil
		w.checkPop(f, m, "Pop(cancelled)")
	}
	all := map[int]bool{}
	for id := range w.cls {
		all[id] = true
	}
	for {
		m := w.q.TryPop(prioritizer(true), queue.FilterAny)
		if m == nil {
			break
		}
		w.checkPop(all, m, "drain")
	}
	if len(w.queued) != 0 {
		w.res.Violate("message-lost", fmt.Sprintf("messages %v were pushed successfully but never returned by any pop", keys(w.queued)), w.beh, w.step)
	}
}

func (w *world) push(id int, c class, try bool) bool {
	m := build(c)
	w.byPtr[m] = id
	w.cls[id] = c
	ok := true
	if try {
		ok = w.q.TryPush(m)
	} else {
		w.q.Push(m)
	}
	if ok {
		w.queued[id] = true
	}
	return ok
}

func replay(b vh.Behaviour, capacity int, res *vh.Result) {
	w := newWorld(capacity, res, b.ID)
	nontrivial := false
	for i, st := range b.Steps {
		if w.dead {
			break
		}
		w.step = i
		a := st.Act
		switch name := vh.Str(a, "name"); name {
		case "init":
		case "TryPush", "Push":
			id := vh.Int(a, "id")
			ok := w.push(id, classOf(vh.Map(a, "c")), name == "TryPush")
			if ok != vh.Bool(a, "ok") {
				res.Diverge(b.ID, i, "push.ok", vh.Bool(a, "ok"), ok)
			}
			w.checkLen(name)
		case "TryPop":
			f := setOf(vh.Ints(a, "filter"))
			got := w.q.TryPop(prioritizer(vh.Bool(a, "hri")), w.filterFn(f))
			id := w.checkPop(f, got, "TryPop")
			nontrivial = nontrivial || len(w.cls) > 1
			if id != vh.Int(a, "res") {
				res.Diverge(b.ID, i, "pop.res", vh.Int(a, "res"), id)
			}
		case "PopBegin":
			f := setOf(vh.Ints(a, "filter"))
			ctx, cancel := context.WithCancel(context.Background())
			wt := &waiter{filter: f, hri: vh.Bool(a, "hri"), done: make(chan *queue.DecodedSSVMessage, 1), cancel: cancel}
			time.Sleep(1200 * time.Microsecond) // Pop reads the inbox only if > 1ms passed since the last read
			go func() { wt.done <- w.q.Pop(ctx, prioritizer(wt.hri), w.filterFn(f)) }()
			if vh.Int(a, "res") != 0 {
				var got *queue.DecodedSSVMessage
				select {
				case got = <-wt.done:
				case <-time.After(2 * time.Second): // the real Pop blocks although the spec says it returns
					cancel()
					got = <-wt.done
				}
				cancel()
				id := w.checkPop(f, got, "Pop")
				if id != vh.Int(a, "res") {
					res.Diverge(b.ID, i, "pop.res", vh.Int(a, "res"), id)
				}
			} else {
				select {
				case got := <-wt.done: // the spec expected the consumer to block
					cancel()
					id := w.checkPop(f, got, "Pop")
					res.Diverge(b.ID, i, "pop.blocks", 0, id)
				case <-time.After(1 * time.Millisecond):
					w.waiting = wt
				}
			}
			nontrivial = true
		case "WaitRecv":
			// the consumer goroutine takes an inadmissible message: nothing observable; give it time to do so
			time.Sleep(300 * time.Microsecond)
		case "WaitRecvDone", "PopCancel":
			if w.waiting == nil {
				res.Diverge(b.ID, i, "waiting", true, false)
				continue
			}
			wt := w.waiting
			if name == "PopCancel" {
				wt.cancel()
			}
			var got *queue.DecodedSSVMessage
			select {
			case got = <-wt.done:
			case <-time.After(2 * time.Second):
				res.Violate("unresponsive-pop", "blocking Pop did not return after an admissible message was pushed", b.ID, i)
				wt.cancel()
				got = <-wt.done
			}
			wt.cancel()
			w.waiting = nil
			id := w.checkPop(wt.filter, got, "Pop")
			if id != vh.Int(a, "res") {
				res.Diverge(b.ID, i, "pop.res", vh.Int(a, "res"), id)
			}
		default:
			panic("unknown action " + name)
		}
		if l, ok := a["len"]; ok && w.waiting == nil {
			if int(l.(float64)) != w.q.Len() {
				res.Diverge(b.ID, i, "len", l, w.q.Len())
			}
		}
	}
	w.drain()
	res.Behaviours++
	res.Steps += len(b.Steps)
	if nontrivial {
		res.Nontrivial++
	}
}

// ---- executions generated by the harness itself, recorded for trace validation by TLC ----

func classesAll() []class {
	return []class{
		{"exec", -1, 0, "none", false}, {"timeout", -1, 0, "none", false},
		{"cons", 0, 0, "proposal", false}, {"cons", 0, 0, "prepare", false}, {"cons", 0, 0, "commit", false},
		{"cons", 0, 1, "rc", false}, {"cons", 0, -1, "prepare", false}, {"cons", 1, 0, "commit", true},
		{"cons", 1, 0, "prepare", false}, {"cons", -1, 0, "commit", false}, {"cons", -1, 0, "commit", true},
		{"cons", -1, 0, "prepare", false}, {"pre", 0, 0, "none", false}, {"post", 0, 0, "none", false},
		{"post", -1, 0, "none", false}, {"pre", 1, 0, "none", false},
	}
}

// record runs random sequential executions on the real queue and writes one event per call.
func record(path string, seed int64, runs, maxMsgs, capacity int, res *vh.Result) {
	tw, err := vh.NewTraceWriter(path)
	if err != nil {
		panic(err)
	}
	rng := rand.New(rand.NewSource(seed))
	cls := classesAll()
	for r := 0; r < runs; r++ {
		beh := fmt.Sprintf("own-%d", r)
		w := newWorld(capacity, res, beh)
		tw.Emit(map[string]any{"event": "Reset"})
		next := 1
		nsteps := 4 + rng.Intn(8)
		for s := 0; s < nsteps && !w.dead; s++ {
			w.step = s
			if next <= maxMsgs && rng.Intn(3) != 0 {
				c := cls[rng.Intn(len(cls))]
				try := rng.Intn(2) == 0
				if !try && w.q.Len() >= capacity {
					try = true
				}
				ok := w.push(next, c, try)
				name := "Push"
				if try {
					name = "TryPush"
				}
				tw.Emit(map[string]any{"event": name, "id": next, "c": c.toMap(), "ok": ok})
				next++
				w.checkLen(name)
			} else {
				f := map[int]bool{}
				fl := []int{}
				for id := 1; id <= maxMsgs; id++ {
					if rng.Intn(2) == 0 {
						f[id] = true
						fl = append(fl, id)
					}
				}
				hri := rng.Intn(2) == 0
				got := w.q.TryPop(prioritizer(hri), w.filterFn(f))
				id := w.checkPop(f, got, "TryPop")
				tw.Emit(map[string]any{"event": "TryPop", "filter": fl, "hri": hri, "res": id, "len": w.q.Len()})
			}
		}
		w.drain()
		res.Behaviours++
		res.Steps += nsteps
		res.Nontrivial++
	}
	if err := tw.Close(); err != nil {
		panic(err)
	}
	res.Counters["recorded_events"] = tw.N
}

// concurrent: P producers push distinguishable messages while one consumer pops with changing filters.
// Monitor: bag equality at quiescence, every return admissible, nothing returned twice.
func concurrent(seed int64, rounds, producers, perProducer int, res *vh.Result) {
	rng := rand.New(rand.NewSource(seed))
	cls := classesAll()
	for r := 0; r < rounds; r++ {
		beh := fmt.Sprintf("conc-%d", r)
		capacity := 1 + rng.Intn(8)
		q := queue.New(capacity)
		total := producers * perProducer
		msgs := make([]*queue.DecodedSSVMessage, total)
		ids := map[*queue.DecodedSSVMessage]int{}
		pclass := make([]class, total)
		for i := range msgs {
			pclass[i] = cls[rng.Intn(len(cls))]
			msgs[i] = build(pclass[i])
			ids[msgs[i]] = i
		}
		pushedOK := make([]bool, total)
		var wg sync.WaitGroup
		for p := 0; p < producers; p++ {
			wg.Add(1)
			useTry := rng.Intn(2) == 0
			go func(p int, useTry bool) {
				defer wg.Done()
				for k := 0; k < perProducer; k++ {
					i := p*perProducer + k
					if useTry && k%2 == 1 {
						pushedOK[i] = q.TryPush(msgs[i])
					} else {
						q.Push(msgs[i])
						pushedOK[i] = true
					}
				}
			}(p, useTry)
		}
		producersDone := make(chan struct{})
		go func() { wg.Wait(); close(producersDone) }()
		returned := map[int]int{}
		mod := 2 + rng.Intn(3)
		phase := 0
		done := false
		deadline := time.Now().Add(20 * time.Second)
		for !done {
			phase++
			want := phase % mod
			filter := func(m *queue.DecodedSSVMessage) bool { return ids[m]%mod == want }
			ctx, cancel := context.WithTimeout(context.Background(), 300*time.Microsecond)
			var m *queue.DecodedSSVMessage
			if phase%3 == 0 {
				m = q.TryPop(prioritizer(phase%2 == 0), filter)
			} else {
				m = q.Pop(ctx, prioritizer(phase%2 == 0), filter)
			}
			cancel()
			if m != nil {
				id := ids[m]
				if id%mod != want {
					res.Violate("inadmissible-returned", fmt.Sprintf("concurrent run: message %d returned by a pop whose filter rejects it", id), beh, phase)
				}
				returned[id]++
			}
			select {
			case <-producersDone:
				if m == nil && phase > 3*mod {
					// a full cycle of filters after the producers finished
					empty := true
					for k := 0; k < mod; k++ {
						kk := k
						mm := q.TryPop(prioritizer(true), func(x *queue.DecodedSSVMessage) bool { return ids[x]%mod == kk })
						if mm != nil {
							returned[ids[mm]]++
							empty = false
						}
					}
					if empty {
						done = true
					}
				}
			default:
			}
			if time.Now().After(deadline) {
				res.Notes = append(res.Notes, "concurrent run hit its deadline (not a verdict)")
				break
			}
		}
		<-producersDone
		for {
			m := q.TryPop(prioritizer(true), queue.FilterAny)
			if m == nil {
				break
			}
			returned[ids[m]]++
		}
		for i := 0; i < total; i++ {
			switch {
			case pushedOK[i] && returned[i] == 0:
				res.Violate("message-lost", fmt.Sprintf("concurrent run: message %d (%v) pushed successfully but never returned", i, pclass[i]), beh, 0)
			case returned[i] > 1:
				res.Violate("duplicate-return", fmt.Sprintf("concurrent run: message %d returned %d times", i, returned[i]), beh, 0)
			case !pushedOK[i] && returned[i] > 0:
				res.Violate("foreign-message", fmt.Sprintf("concurrent run: message %d was refused by TryPush but returned by a pop", i), beh, 0)
			}
		}
		res.Behaviours++
		res.Steps += total + phase
		res.Nontrivial++
		res.Counters["concurrent_msgs"] += total
	}
}

func main() {
	mode := flag.String("mode", "replay", "replay | record | concurrent")
	in := flag.String("in", "", "behaviours NDJSON (replay)")
	out := flag.String("out", "", "result JSON")
	trace := flag.String("trace", "", "trace NDJSON to write (record)")
	capacity := flag.Int("cap", 2, "inbox capacity")
	seed := flag.Int64("seed", 1, "seed")
	runs := flag.Int("runs", 100, "number of own executions")
	maxMsgs := flag.Int("maxmsgs", 4, "messages per own execution")
	flag.Parse()
	res := vh.NewResult()
	switch *mode {
	case "replay":
		behs, err := vh.ReadBehaviours(*in)
		if err != nil {
			fmt.Fprintln(os.Stderr, err)
			os.Exit(3)
		}
		for _, b := range behs {
			if res.Counters["violations"] > 30 && len(b.ID) >= 6 && b.ID[:6] != "attack" {
				continue // enough evidence; attack traces are still replayed
			}
			replay(b, *capacity, res)
		}
		if len(behs) > 0 {
			res.Samples = append(res.Samples, behs[len(behs)/2])
		}
	case "record":
		record(*trace, *seed, *runs, *maxMsgs, *capacity, res)
	case "concurrent":
		concurrent(*seed, *runs, 4, 12, res)
	}
	if err := res.Write(*out); err != nil {
		fmt.Fprintln(os.Stderr, err)
		os.Exit(3)
	}
}
