// Driver for spec/Timer.tla (property C17).
//
//	-mode replay : TLC behaviours of Timer.tla replayed on the REAL objects
//	               * part "timer": roundtimer.RoundTimer in real time (spec instant n = origin + n*unit), many
//	                 timers concurrently; callback timestamps recorded; the C17 monitors are evaluated on the
//	                 recorded timestamps only (scheduling-independent facts, see monitor());
//	               * part "ctl": controller.Controller + real instances, Controller.OnTimeout events.
//	-mode record : seeded random real-time arm/cancel schedules (including arming right at a deadline) on real
//	               RoundTimers; monitors as above; one event per call/callback with its [lo,hi] interval is
//	               written for TLC trace validation (spec/TimerTrace.tla).
//	-mode vpath  : the validator-level path: real Validator + real runner + real RoundTimer; the timer's callback is
//	               Validator.onTimeout, the event travels through the real queue and Validator.ProcessMessage to
//	               Controller.OnTimeout; stale / duplicate / other-height / post-decision events are injected
//	               through the same closure.
package main

import (
	"context"
	"encoding/hex"
	"encoding/json"
	"flag"
	"fmt"
	"math/rand"
	"os"
	"runtime"
	"sort"
	"strings"
	"sync"
	"time"

	"github.com/attestantio/go-eth2-client/spec/phase0"
	specqbft "github.com/bloxapp/ssv-spec/qbft"
	spectypes "github.com/bloxapp/ssv-spec/types"
	tu "github.com/bloxapp/ssv-spec/types/testingutils"
	"github.com/herumi/bls-eth-go-binary/bls"
	"go.uber.org/zap"

	"github.com/bloxapp/ssv/networkconfig"
	"github.com/bloxapp/ssv/protocol/v2/qbft"
	"github.com/bloxapp/ssv/protocol/v2/qbft/controller"
	"github.com/bloxapp/ssv/protocol/v2/qbft/instance"
	"github.com/bloxapp/ssv/protocol/v2/qbft/roundtimer"
	qbfttesting "github.com/bloxapp/ssv/protocol/v2/qbft/testing"
	"github.com/bloxapp/ssv/protocol/v2/ssv/queue"
	"github.com/bloxapp/ssv/protocol/v2/ssv/runner"
	ssvtesting "github.com/bloxapp/ssv/protocol/v2/ssv/testing"
	"github.com/bloxapp/ssv/protocol/v2/ssv/validator"
	ssvtypes "github.com/bloxapp/ssv/protocol/v2/types"

	"verif/harness/vh"
)

// ---------------------------------------------------------------------------------------------------------
// real-time runs of one RoundTimer
// ---------------------------------------------------------------------------------------------------------

type fakeNet struct {
	slot      phase0.Slot
	slotStart time.Time // carries a monotonic clock reading, so time.Until() in RoundTimeout is monotonic
	slotDur   time.Duration
}

func (n *fakeNet) GetSlotStartTime(s phase0.Slot) time.Time {
	return n.slotStart.Add(time.Duration(int64(s)-int64(n.slot)) * n.slotDur)
}
func (n *fakeNet) SlotDurationSec() time.Duration { return n.slotDur }

type armRec struct {
	round  int
	t0, t1 time.Duration // just before / just after TimeoutForRound, relative to origin
}
type cbRec struct {
	round int
	t     time.Duration // first statement of the callback
}

type rtRun struct {
	id      string
	class   string // "third" | "twothirds" | "flat"
	role    spectypes.BeaconRole
	origin  time.Time
	start   time.Duration // slot start relative to origin (may be negative)
	slotDur time.Duration
	quick   time.Duration
	slow    time.Duration
	thr     int
	height  specqbft.Height
	timer   *roundtimer.RoundTimer
	cancelF context.CancelFunc

	mu        sync.Mutex
	arms      []armRec
	cbs       []cbRec
	cancelled bool
	cancelT0  time.Duration
	cancelT1  time.Duration
}

var roleVariants = map[string][]spectypes.BeaconRole{
	"third":     {spectypes.BNRoleAttester, spectypes.BNRoleSyncCommittee},
	"twothirds": {spectypes.BNRoleAggregator, spectypes.BNRoleSyncCommitteeContribution},
	"flat":      {spectypes.BNRoleProposer, spectypes.BNRoleValidatorRegistration, spectypes.BNRoleVoluntaryExit},
}

func newRun(id, class string, variant int, slotDur, quick, slow time.Duration, thr int, start, lead time.Duration) *rtRun {
	rv := roleVariants[class]
	if rv == nil {
		panic("unknown role class " + class)
	}
	r := &rtRun{id: id, class: class, role: rv[variant%len(rv)], start: start, slotDur: slotDur, quick: quick, slow: slow,
		thr: thr, height: specqbft.Height(7000 + variant%977)}
	r.origin = time.Now().Add(lead)
	net := &fakeNet{slot: phase0.Slot(r.height), slotStart: r.origin.Add(start), slotDur: slotDur}
	ctx, cancel := context.WithCancel(context.Background())
	r.cancelF = cancel
	if variant%2 == 0 {
		r.timer = roundtimer.New(ctx, net, r.role, r.onTimeout)
	} else { // the way the runner installs its handler
		r.timer = roundtimer.New(ctx, net, r.role, nil)
		r.timer.OnTimeout(r.onTimeout)
	}
	r.timer.VerifSetTimeouts(quick, slow, specqbft.Round(thr))
	return r
}

func (r *rtRun) onTimeout(round specqbft.Round) {
	t := time.Since(r.origin)
	r.mu.Lock()
	r.cbs = append(r.cbs, cbRec{int(round), t})
	r.mu.Unlock()
}

func (r *rtRun) since() time.Duration { return time.Since(r.origin) }

func (r *rtRun) arm(round int) {
	t0 := r.since()
	r.timer.TimeoutForRound(r.height, specqbft.Round(round))
	t1 := r.since()
	r.mu.Lock()
	r.arms = append(r.arms, armRec{round, t0, t1})
	r.mu.Unlock()
}

func (r *rtRun) cancel() {
	t0 := r.since()
	r.cancelF()
	t1 := r.since()
	r.mu.Lock()
	r.cancelled, r.cancelT0, r.cancelT1 = true, t0, t1
	r.mu.Unlock()
}

// refDeadline is the harness's own transcription of the PROPERTY's deadline (not of the code): slot start + role base
// + cumulative allowance for the slot-anchored roles; for the other roles the allowance counts from the arming, for
// which the instant just before the call is a lower bound.
func (r *rtRun) refDeadline(round int, armT0 time.Duration) time.Duration {
	if r.class == "flat" {
		if round <= r.thr {
			return armT0 + r.quick
		}
		return armT0 + r.slow
	}
	base := r.slotDur / 3
	if r.class == "twothirds" {
		base = r.slotDur / 3 * 2
	}
	var add time.Duration
	if round <= r.thr {
		add = time.Duration(round) * r.quick
	} else {
		add = time.Duration(r.thr)*r.quick + time.Duration(round-r.thr)*r.slow
	}
	return r.start + base + add
}

func sleepUntil(origin time.Time, at time.Duration, spin bool) {
	for {
		d := at - time.Since(origin)
		if d <= 0 {
			return
		}
		if spin && d < 400*time.Microsecond {
			for time.Since(origin) < at {
				runtime.Gosched()
			}
			return
		}
		if spin {
			d -= 300 * time.Microsecond
		}
		time.Sleep(d)
	}
}

// quiesce waits until every armed deadline (and the cancellation) lies `slack` in the past.
func (r *rtRun) quiesce(slack time.Duration) {
	r.mu.Lock()
	end := r.since()
	for _, a := range r.arms {
		if d := r.refDeadline(a.round, a.t1); d > end {
			end = d
		}
	}
	r.mu.Unlock()
	sleepUntil(r.origin, end+slack, false)
}

type finding struct {
	sig, desc string
}

const staleEps = time.Millisecond       // a later arming must have RETURNED this long before the earlier deadline
const cancelCand = 3 * time.Millisecond // candidate for timeout-after-cancel (confirmed separately, see confirmAfterCancel)

// monitor evaluates C17 on the recorded timestamps.  Every rule is independent of goroutine scheduling:
//
//	early     : Go timers never fire before their duration, the callback timestamp is taken after the wake-up, the
//	            deadline is a lower bound -> a callback before it is a defect of the deadline computation;
//	duplicate : rounds strictly increase, so two callbacks with one round are two callbacks of one arming;
//	stale     : the waiter of round r cannot wake before its deadline D(r); if a later arming RETURNED before D(r)
//	            the atomic round was already overwritten when the waiter compared it, whatever the scheduler did;
//	            (a later arming that returned after D(r) makes the earlier callback legal - not flagged);
//	after-cancel is scheduling dependent (select with two ready channels) and only returned as a candidate.
func (r *rtRun) monitor() (out []finding, cancelCandidates []string) {
	r.mu.Lock()
	defer r.mu.Unlock()
	armOf := map[int]armRec{}
	for _, a := range r.arms {
		armOf[a.round] = a
	}
	count := map[int]int{}
	for _, c := range r.cbs {
		count[c.round]++
		a, ok := armOf[c.round]
		if !ok {
			out = append(out, finding{"timeout-stale-round", fmt.Sprintf("%s timer: callback for round %d at %v, a round that was never armed (armed %v)", r.role, c.round, c.t, r.armRounds())})
			continue
		}
		d := r.refDeadline(c.round, a.t0)
		if c.t < d {
			out = append(out, finding{"timeout-early", fmt.Sprintf("%s timer (slot start %v, slot %v, quick %v, slow %v, threshold %d): callback for round %d at %v precedes its deadline %v by %v (armed at %v)",
				r.role, r.start, r.slotDur, r.quick, r.slow, r.thr, c.round, c.t, d, d-c.t, a.t0)})
		}
		for _, b := range r.arms {
			if b.round > c.round && b.t1+staleEps < d {
				out = append(out, finding{"timeout-stale-round", fmt.Sprintf("%s timer: callback for round %d at %v although round %d was armed at %v, %v before round %d's deadline %v (superseded arming called back)",
					r.role, c.round, c.t, b.round, b.t1, d-b.t1, c.round, d)})
				break
			}
		}
		if r.cancelled && d > r.cancelT1+cancelCand && c.t > r.cancelT1 {
			cancelCandidates = append(cancelCandidates, fmt.Sprintf("%s timer: callback for round %d at %v, parent context cancelled at %v, %v before the round's deadline %v",
				r.role, c.round, c.t, r.cancelT1, d-r.cancelT1, d))
		}
	}
	for round, n := range count {
		if n > 1 {
			out = append(out, finding{"timeout-duplicate", fmt.Sprintf("%s timer: %d callbacks for the single arming of round %d", r.role, n, round)})
		}
	}
	return out, cancelCandidates
}

func (r *rtRun) armRounds() []int {
	var o []int
	for _, a := range r.arms {
		o = append(o, a.round)
	}
	return o
}

func (r *rtRun) cbRounds() []int {
	r.mu.Lock()
	defer r.mu.Unlock()
	o := []int{}
	for _, c := range r.cbs {
		o = append(o, c.round)
	}
	sort.Ints(o)
	return o
}

// confirmAfterCancel decides a timeout-after-cancel candidate with an isolated experiment: one timer of the same
// role, round 1 armed with its deadline 160ms ahead, the parent context cancelled after 20ms.  The waiter then has
// 140ms to leave through ctx.Done(); a callback means the cancellation is ignored.  A watchdog goroutine proves that
// the Go scheduler kept running goroutines during that window (no gap > 40ms), otherwise the attempt does not count.
// Confirmed only if 3 valid attempts out of 3 called back.
var confirmCache = map[spectypes.BeaconRole]int{} // 1 confirmed, 2 refuted / inconclusive
var confirmMu sync.Mutex

func confirmAfterCancel(class string, variant int) bool {
	confirmMu.Lock()
	defer confirmMu.Unlock()
	role := roleVariants[class][variant%len(roleVariants[class])]
	if v := confirmCache[role]; v != 0 {
		return v == 1
	}
	valid, called := 0, 0
	for attempt := 0; attempt < 8 && valid < 3; attempt++ {
		// slot roles: deadline = start + base + 1*quick ; flat: arm + quick
		var r *rtRun
		switch class {
		case "third":
			r = newRun("confirm", class, variant, 90*time.Millisecond, 130*time.Millisecond, time.Second, 3, 0, 0)
		case "twothirds":
			r = newRun("confirm", class, variant, 90*time.Millisecond, 100*time.Millisecond, time.Second, 3, 0, 0)
		default:
			r = newRun("confirm", class, variant, 90*time.Millisecond, 160*time.Millisecond, time.Second, 3, 0, 0)
		}
		stop := make(chan struct{})
		var ticks []time.Duration
		var wg sync.WaitGroup
		wg.Add(1)
		go func() {
			defer wg.Done()
			for {
				select {
				case <-stop:
					return
				default:
				}
				ticks = append(ticks, r.since())
				time.Sleep(time.Millisecond)
			}
		}()
		r.arm(1)
		sleepUntil(r.origin, 20*time.Millisecond, false)
		r.cancel()
		d := r.refDeadline(1, r.arms[0].t1)
		sleepUntil(r.origin, d+120*time.Millisecond, false)
		close(stop)
		wg.Wait()
		ok := r.cancelT1 < d-100*time.Millisecond
		prev := r.cancelT1
		for _, t := range ticks {
			if t < r.cancelT1 || prev > d {
				continue
			}
			if t-prev > 40*time.Millisecond {
				ok = false
			}
			prev = t
		}
		if !ok {
			continue
		}
		valid++
		if len(r.cbRounds()) > 0 {
			called++
		}
	}
	res := valid == 3 && called == 3
	if res {
		confirmCache[role] = 1
	} else {
		confirmCache[role] = 2
	}
	return res
}

// ---------------------------------------------------------------------------------------------------------
// replay of TLC behaviours, timer half
// ---------------------------------------------------------------------------------------------------------

type rtOutcome struct {
	beh        string
	kind       string
	steps      int
	nontrivial bool
	findings   []finding
	cands      []string
	class      string
	variant    int
	predicted  []int
	real       []int
	compare    bool
	sample     map[string]any
}

func partOf(b vh.Behaviour) string {
	if len(b.Steps) == 0 {
		return ""
	}
	return vh.Str(b.Steps[0].Act, "part")
}

func replayTimer(b vh.Behaviour, variant int, unit time.Duration) rtOutcome {
	p := vh.Map(b.Steps[0].Act, "p")
	class := vh.Str(p, "role")
	u := func(k string) time.Duration { return time.Duration(vh.Int(p, k)) * unit }
	r := newRun(b.ID, class, variant, u("slot"), u("quick"), u("slow"), vh.Int(p, "thr"), u("start"), 3*time.Millisecond)
	out := rtOutcome{beh: b.ID, kind: b.Kind, steps: len(b.Steps), class: class, variant: variant}
	narm := 0
	for _, st := range b.Steps[1:] {
		a := st.Act
		switch vh.Str(a, "name") {
		case "Arm":
			sleepUntil(r.origin, time.Duration(vh.Int(a, "at"))*unit, false)
			r.arm(vh.Int(a, "r"))
			narm++
		case "Cancel":
			sleepUntil(r.origin, time.Duration(vh.Int(a, "at"))*unit, false)
			r.cancel()
			out.nontrivial = true
		case "Advance", "Expire", "Drop":
			// time passes / the waiter goroutines run on their own
		default:
			panic("timer behaviour with action " + vh.Str(a, "name"))
		}
	}
	out.nontrivial = out.nontrivial || narm >= 2
	r.quiesce(2*unit + 10*time.Millisecond)
	out.findings, out.cands = r.monitor()
	out.real = r.cbRounds()
	last := b.Steps[len(b.Steps)-1]
	if last.State != nil {
		out.compare = true
		out.predicted = []int{}
		for _, f := range vh.List(last.State, "fired") {
			if m, ok := f.(map[string]any); ok {
				out.predicted = append(out.predicted, vh.Int(m, "round"))
			}
		}
		sort.Ints(out.predicted)
	}
	r.cancelF()
	out.sample = r.describe()
	return out
}

func (r *rtRun) describe() map[string]any {
	r.mu.Lock()
	defer r.mu.Unlock()
	arms, cbs := []any{}, []any{}
	for _, a := range r.arms {
		arms = append(arms, map[string]any{"round": a.round, "t0_us": a.t0.Microseconds(), "t1_us": a.t1.Microseconds(),
			"deadline_us": r.refDeadline(a.round, a.t0).Microseconds()})
	}
	for _, c := range r.cbs {
		cbs = append(cbs, map[string]any{"round": c.round, "t_us": c.t.Microseconds()})
	}
	m := map[string]any{"run": r.id, "role": r.role.String(), "arms": arms, "callbacks": cbs}
	if r.cancelled {
		m["cancel_us"] = r.cancelT1.Microseconds()
	}
	return m
}

// diverge records a conformance divergence and counts it per field
func diverge(res *vh.Result, beh string, step int, field string, spec, real any) {
	res.Diverge(beh, step, field, spec, real)
	if !strings.HasPrefix(beh, "attack") {
		res.Counters["div:"+field]++
	}
}

func equalInts(a, b []int) bool {
	if len(a) != len(b) {
		return false
	}
	for i := range a {
		if a[i] != b[i] {
			return false
		}
	}
	return true
}

func mergeOutcome(res *vh.Result, o rtOutcome) {
	res.Behaviours++
	res.Steps += o.steps
	if o.nontrivial {
		res.Nontrivial++
	}
	for _, f := range o.findings {
		res.Violate(f.sig, f.desc, o.beh, 0)
	}
	for _, c := range o.cands {
		res.Counters["after_cancel_candidates"]++
		if confirmAfterCancel(o.class, o.variant) {
			res.Violate("timeout-after-cancel", c+" (confirmed: an isolated timer of this role called back 3 times out of 3 although its context was cancelled 140ms before the deadline)", o.beh, 0)
		} else {
			res.Counters["after_cancel_unconfirmed"]++
		}
	}
	if o.compare && !equalInts(o.predicted, o.real) {
		diverge(res, o.beh, o.steps-1, "callbacks", o.predicted, o.real)
	}
	res.Counters["callbacks"] += len(o.real)
	if len(res.Samples) < 3 && o.nontrivial && len(o.real) > 0 {
		res.Samples = append(res.Samples, o.sample)
	}
}

func replayAllTimer(behs []vh.Behaviour, unit time.Duration, par int, res *vh.Result) {
	jobs := make(chan int)
	outs := make(chan rtOutcome, 64)
	var wg sync.WaitGroup
	for w := 0; w < par; w++ {
		wg.Add(1)
		go func() {
			defer wg.Done()
			for i := range jobs {
				outs <- replayTimer(behs[i], i, unit)
			}
		}()
	}
	go func() {
		for i := range behs {
			jobs <- i
		}
		close(jobs)
		wg.Wait()
		close(outs)
	}()
	for o := range outs {
		mergeOutcome(res, o)
	}
}

// ---------------------------------------------------------------------------------------------------------
// controller half
// ---------------------------------------------------------------------------------------------------------

var logger = zap.NewNop()

type ctlWorld struct {
	ks      *tu.TestKeySet
	cfg     *qbft.Config
	ctrl    *controller.Controller
	net     *tu.TestingNetwork
	timer   *roundtimer.TestQBFTTimer
	id      []byte
	stopped map[specqbft.Height]bool // heights the harness itself superseded by a later StartNewInstance
}

func newCtlWorld() *ctlWorld {
	ks := tu.Testing4SharesSet()
	cfg := qbfttesting.TestingConfig(logger, ks, spectypes.BNRoleAttester)
	w := &ctlWorld{ks: ks, cfg: cfg, id: tu.TestingIdentifier, stopped: map[specqbft.Height]bool{}}
	w.net = cfg.Network.(*tu.TestingNetwork)
	w.timer = cfg.Timer.(*roundtimer.TestQBFTTimer)
	w.ctrl = controller.NewController(w.id, qbfttesting.TestingShare(ks), cfg, false)
	return w
}

func (w *ctlWorld) sks(ids ...spectypes.OperatorID) []*bls.SecretKey {
	var r []*bls.SecretKey
	for _, i := range ids {
		r = append(r, w.ks.Shares[i])
	}
	return r
}

func timeoutEvent(h specqbft.Height, r specqbft.Round) ssvtypes.EventMsg {
	data, _ := json.Marshal(ssvtypes.TimeoutData{Height: h, Round: r})
	return ssvtypes.EventMsg{Type: ssvtypes.Timeout, Data: data}
}

// snapshot of everything a timeout event could change
type ctlSnap struct {
	ctrlRoot  string
	instRoots map[specqbft.Height]string
	rounds    map[specqbft.Height]specqbft.Round
	height    specqbft.Height
	bcasts    int
	rcs       int
	tarmN     int
	tarmRound specqbft.Round
}

func (w *ctlWorld) rcCount() int {
	n := 0
	for _, m := range w.net.BroadcastedMsgs {
		if m.MsgType != spectypes.SSVConsensusMsgType {
			continue
		}
		sm := &specqbft.SignedMessage{}
		if err := sm.Decode(m.Data); err == nil && sm.Message.MsgType == specqbft.RoundChangeMsgType {
			n++
		}
	}
	return n
}

func (w *ctlWorld) snap() ctlSnap {
	s := ctlSnap{instRoots: map[specqbft.Height]string{}, rounds: map[specqbft.Height]specqbft.Round{}, height: w.ctrl.Height,
		bcasts: len(w.net.BroadcastedMsgs), rcs: w.rcCount(), tarmN: w.timer.State.Timeouts, tarmRound: w.timer.State.Round}
	if root, err := w.ctrl.GetRoot(); err == nil {
		s.ctrlRoot = hex.EncodeToString(root[:])
	}
	for _, i := range w.ctrl.StoredInstances {
		if i == nil || i.State == nil {
			continue
		}
		if root, err := i.State.GetRoot(); err == nil {
			s.instRoots[i.State.Height] = hex.EncodeToString(root[:])
		}
		s.rounds[i.State.Height] = i.State.Round
	}
	return s
}

func (a ctlSnap) diff(b ctlSnap) string {
	var d []string
	if a.ctrlRoot != b.ctrlRoot {
		d = append(d, "controller root")
	}
	if a.height != b.height {
		d = append(d, fmt.Sprintf("controller height %d->%d", a.height, b.height))
	}
	for h, r := range a.instRoots {
		if b.instRoots[h] != r {
			d = append(d, fmt.Sprintf("state root of height %d (round %d->%d)", h, a.rounds[h], b.rounds[h]))
		}
	}
	if a.bcasts != b.bcasts {
		d = append(d, fmt.Sprintf("%d message(s) broadcast", b.bcasts-a.bcasts))
	}
	if a.tarmN != b.tarmN {
		d = append(d, fmt.Sprintf("timer re-armed for round %d", b.tarmRound))
	}
	return strings.Join(d, ", ")
}

// onTimeout delivers one timeout event to the real controller, runs the C17 monitor (second sentence) on the real
// state before/after and returns the observed result class.
func (w *ctlWorld) onTimeout(h specqbft.Height, r specqbft.Round, res *vh.Result, beh string, step int, via string) string {
	inst := w.ctrl.StoredInstances.FindInstance(h)
	var why string
	switch {
	case inst == nil:
		why = "no instance is stored for that height"
	case w.stopped[h]:
		why = fmt.Sprintf("height %d was superseded by StartNewInstance(%d)", h, w.ctrl.Height)
	case inst.State.Decided:
		why = "the instance is already decided"
	case r < inst.State.Round:
		why = fmt.Sprintf("the instance is in round %d", inst.State.Round)
	}
	var roundBefore specqbft.Round
	live := false
	if inst != nil {
		roundBefore = inst.State.Round
		live = why == "" && inst.CanProcessMessages()
	}
	before := w.snap()
	err := w.ctrl.OnTimeout(logger, timeoutEvent(h, r))
	after := w.snap()
	d := before.diff(after)
	if why != "" && d != "" {
		res.Violate("stale-timeout-changed-state", fmt.Sprintf("%sOnTimeout(height %d, round %d) while %s changed: %s", via, h, r, why, d), beh, step)
	}
	got := "bumped"
	switch {
	case d == "" && err != nil && strings.Contains(err.Error(), "instance is nil"):
		got = "nil"
	case d == "" && err != nil && strings.Contains(err.Error(), "stopped processing"):
		got = "stopped"
	case d == "" && err != nil:
		got = "error:" + err.Error()
	case d == "" && inst != nil && r < roundBefore:
		got = "old"
	case d == "":
		got = "decided"
	}
	if live { // conformance (not C17): the current round of a running, undecided instance times out -> next round + round-change
		ok := err == nil && inst.State.Round == roundBefore+1 && after.rcs == before.rcs+1 &&
			after.tarmN == before.tarmN+1 && after.tarmRound == roundBefore+1
		if !ok {
			diverge(res, beh, step, "current-round-timeout", fmt.Sprintf("round %d->%d, one round-change, timer armed", roundBefore, roundBefore+1),
				fmt.Sprintf("err=%v round=%d rcs+%d armed+%d(%d)", err, inst.State.Round, after.rcs-before.rcs, after.tarmN-before.tarmN, after.tarmRound))
		}
		res.Counters["ctl_live_timeouts"]++
	} else {
		res.Counters["ctl_stale_timeouts"]++
	}
	return got
}

func (w *ctlWorld) project() map[string]any {
	insts := map[string]any{}
	for _, i := range w.ctrl.StoredInstances {
		if i == nil || i.State == nil {
			continue
		}
		insts[fmt.Sprint(uint64(i.State.Height))] = map[string]any{"round": int(i.State.Round), "decided": i.State.Decided}
	}
	return map[string]any{"cH": int(w.ctrl.Height), "inst": insts, "rcs": w.rcCount(),
		"tarm": map[string]any{"n": w.timer.State.Timeouts, "round": int(w.timer.State.Round)}}
}

func replayCtl(b vh.Behaviour, res *vh.Result) {
	w := newCtlWorld()
	if c := vh.Int(b.Steps[0].Act, "cutoff"); c > 0 {
		instance.CutoffRound = c
	}
	nontrivial := false
	for i, st := range b.Steps {
		a := st.Act
		h := specqbft.Height(vh.Int(a, "h"))
		r := specqbft.Round(vh.Int(a, "r"))
		switch name := vh.Str(a, "name"); name {
		case "init":
		case "CStart":
			for _, in := range w.ctrl.StoredInstances {
				if in != nil && in.State != nil {
					w.stopped[in.State.Height] = true
				}
			}
			delete(w.stopped, h)
			if err := w.ctrl.StartNewInstance(logger, h, tu.TestingQBFTFullData); err != nil {
				diverge(res, b.ID, i, "CStart", "ok", err.Error())
			}
		case "CBump":
			for _, op := range []spectypes.OperatorID{2, 3} {
				m := tu.TestingRoundChangeMessageWithRoundAndHeight(w.ks.Shares[op], op, r, h)
				if _, err := w.ctrl.ProcessMsg(logger, m); err != nil && !strings.Contains(err.Error(), "instance stopped processing messages") {
					diverge(res, b.ID, i, "CBump", "ok", err.Error())
				}
			}
		case "CDecide":
			m := tu.TestingCommitMultiSignerMessageWithParams(w.sks(1, 2, 3), []spectypes.OperatorID{1, 2, 3}, r, h, w.id, tu.TestingQBFTRootData, tu.TestingQBFTFullData)
			if _, err := w.ctrl.ProcessMsg(logger, m); err != nil {
				diverge(res, b.ID, i, "CDecide", "ok", err.Error())
			}
		case "COnTimeout":
			got := w.onTimeout(h, r, res, b.ID, i, "Controller.")
			if want := vh.Str(a, "res"); got != want {
				diverge(res, b.ID, i, "COnTimeout.res", want, got)
			}
			nontrivial = true
		default:
			panic("ctl behaviour with action " + name)
		}
		if st.State != nil && i > 0 {
			w.compare(st.State, res, b.ID, i)
		}
	}
	res.Behaviours++
	res.Steps += len(b.Steps)
	if nontrivial {
		res.Nontrivial++
	}
}

func (w *ctlWorld) compare(spec map[string]any, res *vh.Result, beh string, step int) {
	if got := int(w.ctrl.Height); got != vh.Int(spec, "cH") {
		diverge(res, beh, step, "cH", vh.Int(spec, "cH"), got)
	}
	if got := w.rcCount(); got != vh.Int(spec, "rcs") {
		diverge(res, beh, step, "rcs", vh.Int(spec, "rcs"), got)
	}
	ta := vh.Map(spec, "tarm")
	if w.timer.State.Timeouts != vh.Int(ta, "n") || int(w.timer.State.Round) != vh.Int(ta, "round") {
		diverge(res, beh, step, "tarm", ta, fmt.Sprintf("n=%d round=%d", w.timer.State.Timeouts, w.timer.State.Round))
	}
	for hs, v := range vh.Map(spec, "inst") {
		si, _ := v.(map[string]any)
		var h int
		fmt.Sscan(hs, &h)
		in := w.ctrl.StoredInstances.FindInstance(specqbft.Height(h))
		if vh.Str(si, "st") == "none" {
			if in != nil {
				diverge(res, beh, step, "inst["+hs+"]", "none", "stored")
			}
			continue
		}
		if in == nil {
			diverge(res, beh, step, "inst["+hs+"]", si, "not stored")
			continue
		}
		if int(in.State.Round) != vh.Int(si, "round") || in.State.Decided != vh.Bool(si, "decided") {
			diverge(res, beh, step, "inst["+hs+"]", si, fmt.Sprintf("round=%d decided=%v", in.State.Round, in.State.Decided))
		}
	}
}

// ---------------------------------------------------------------------------------------------------------
// own random real-time schedules, recorded for TLC trace validation
// ---------------------------------------------------------------------------------------------------------

type recEvent struct {
	hi int64
	ev map[string]any
}

func usFloor(d time.Duration) int64 { // floor, also for negative durations
	us := d.Microseconds()
	if time.Duration(us)*time.Microsecond > d {
		us--
	}
	return us
}
func usCeil(d time.Duration) int64 {
	us := d.Microseconds()
	if time.Duration(us)*time.Microsecond < d {
		us++
	}
	return us
}

func recordOne(k int, seed int64) (rtOutcome, []map[string]any) {
	rng := rand.New(rand.NewSource(seed*1000003 + int64(k)))
	classes := []string{"third", "twothirds", "flat"}
	class := classes[rng.Intn(3)]
	us := time.Microsecond
	slot := time.Duration(3*(8000+rng.Intn(16000))) * us // 24..72 ms, a multiple of 3us (exact thirds)
	quick := time.Duration(6000+rng.Intn(14000)) * us    // 6..20 ms
	slow := time.Duration(15000+rng.Intn(30000)) * us    // 15..45 ms
	thr := 1 + rng.Intn(3)
	start := time.Duration(rng.Intn(40000)-15000) * us // slot start -15..+25 ms around the origin
	r := newRun(fmt.Sprintf("own-%d", k), class, int(rng.Int31n(1000)), slot, quick, slow, thr, start, 2*time.Millisecond)
	narm := 2 + rng.Intn(4)
	round := 0
	at := time.Duration(rng.Intn(8000)) * us
	cancelAfter := -1
	if rng.Intn(3) == 0 {
		cancelAfter = rng.Intn(narm)
	}
	for i := 0; i < narm; i++ {
		round += 1 + rng.Intn(2)
		cls := rng.Intn(4)
		sleepUntil(r.origin, at, cls == 2)
		r.arm(round)
		d := r.refDeadline(round, r.arms[len(r.arms)-1].t1)
		now := r.since()
		// next environment action relative to this round's deadline
		switch cls = rng.Intn(4); cls {
		case 0: // well before expiry
			if d-now > 4*time.Millisecond {
				at = now + time.Duration(rng.Int63n(int64(d-now-3*time.Millisecond)))
			} else {
				at = now
			}
		case 1: // after expiry
			at = maxDur(d, now) + time.Duration(2000+rng.Intn(8000))*us
		case 2: // right at the deadline (both orders are legal)
			at = maxDur(d, now) + time.Duration(rng.Intn(500)-250)*us
		default: // back to back
			at = now
		}
		if cancelAfter == i {
			sleepUntil(r.origin, at, cls == 2)
			r.cancel()
			break
		}
	}
	r.quiesce(12 * time.Millisecond)
	out := rtOutcome{beh: r.id, kind: "own", steps: len(r.arms) + 1, nontrivial: true, class: class, variant: 0}
	out.findings, out.cands = r.monitor()
	out.real = r.cbRounds()
	out.sample = r.describe()
	r.cancelF()
	// events with the interval in which each call / callback took effect
	r.mu.Lock()
	defer r.mu.Unlock()
	evs := []recEvent{}
	armT0 := map[int]int64{}
	for _, a := range r.arms {
		armT0[a.round] = usFloor(a.t0)
		evs = append(evs, recEvent{usCeil(a.t1), map[string]any{"event": "Arm", "r": a.round, "lo": usFloor(a.t0), "hi": usCeil(a.t1)}})
	}
	for _, c := range r.cbs {
		lo, ok := armT0[c.round]
		if !ok {
			lo = 0
		}
		evs = append(evs, recEvent{usCeil(c.t), map[string]any{"event": "Fire", "r": c.round, "lo": lo, "hi": usCeil(c.t)}})
	}
	if r.cancelled {
		evs = append(evs, recEvent{usCeil(r.cancelT1), map[string]any{"event": "Cancel", "r": 0, "lo": usFloor(r.cancelT0), "hi": usCeil(r.cancelT1)}})
	}
	sort.SliceStable(evs, func(i, j int) bool { return evs[i].hi < evs[j].hi })
	lines := []map[string]any{{"event": "Reset", "r": 0, "lo": 1 << 30, "hi": -(1 << 30), "run": r.id,
		"p": map[string]any{"role": class, "slot": slot.Microseconds(), "quick": quick.Microseconds(), "slow": slow.Microseconds(),
			"thr": thr, "start": start.Microseconds()}}}
	for _, e := range evs {
		lines = append(lines, e.ev)
	}
	return out, lines
}

func maxDur(a, b time.Duration) time.Duration {
	if a > b {
		return a
	}
	return b
}

func record(path string, seed int64, runs, par int, res *vh.Result) {
	tw, err := vh.NewTraceWriter(path)
	if err != nil {
		panic(err)
	}
	type item struct {
		k     int
		o     rtOutcome
		lines []map[string]any
	}
	jobs := make(chan int)
	outs := make(chan item, 64)
	var wg sync.WaitGroup
	for w := 0; w < par; w++ {
		wg.Add(1)
		go func() {
			defer wg.Done()
			for k := range jobs {
				o, l := recordOne(k, seed)
				outs <- item{k, o, l}
			}
		}()
	}
	go func() {
		for k := 0; k < runs; k++ {
			jobs <- k
		}
		close(jobs)
		wg.Wait()
		close(outs)
	}()
	all := make([]item, 0, runs)
	for it := range outs {
		all = append(all, it)
	}
	sort.Slice(all, func(i, j int) bool { return all[i].k < all[j].k })
	for _, it := range all {
		mergeOutcome(res, it.o)
		for _, l := range it.lines {
			tw.Emit(l)
		}
	}
	if err := tw.Close(); err != nil {
		panic(err)
	}
	res.Counters["recorded_events"] = tw.N
}

// ---------------------------------------------------------------------------------------------------------
// validator-level path
// ---------------------------------------------------------------------------------------------------------

// subNet adds the p2p.Subscriber method Validator.Start asks for to the spec's testing network
type subNet struct{ *tu.TestingNetwork }

func (subNet) Subscribe(spectypes.ValidatorPK) error { return nil }

type vWorld struct {
	v      *validator.Validator
	ctrl   *controller.Controller
	role   spectypes.BeaconRole
	id     spectypes.MessageID
	cw     *ctlWorld // snapshot code of the controller half
	timer  *roundtimer.RoundTimer
	origin time.Time
	res    *vh.Result
	beh    string
}

func (w *vWorld) snap() ctlSnap {
	s := w.cw.snap()
	s.tarmN, s.tarmRound = int(w.timer.Round()), w.timer.Round() // the real timer: a re-arming shows as a new round
	return s
}

// drain pops every event from the role's queue and hands it to Validator.ProcessMessage (the consumer goroutines of
// Validator.Start exit at once because the validator's context is cancelled before Start, so the harness is the only
// consumer and everything is sequential).  The C17 monitor runs around every timeout event.
func (w *vWorld) drain(step int, what string) (events []ssvtypes.TimeoutData) {
	q := w.v.Queues[w.role].Q
	for {
		m := q.TryPop(queue.NewMessagePrioritizer(&queue.State{}), queue.FilterAny)
		if m == nil {
			return events
		}
		ev, ok := m.Body.(*ssvtypes.EventMsg)
		if !ok || ev.Type != ssvtypes.Timeout {
			continue
		}
		td, err := ev.GetTimeoutData()
		if err != nil {
			continue
		}
		events = append(events, *td)
		var why string
		inst := w.ctrl.StoredInstances.FindInstance(td.Height)
		switch {
		case inst == nil:
			why = "no instance is stored for that height"
		case inst.State.Decided:
			why = "the instance is already decided"
		case td.Round < inst.State.Round:
			why = fmt.Sprintf("the instance is in round %d", inst.State.Round)
		}
		before := w.snap()
		_ = w.v.ProcessMessage(logger, m)
		after := w.snap()
		if d := before.diff(after); why != "" && d != "" {
			w.res.Violate("stale-timeout-changed-state", fmt.Sprintf("validator path (%s): timeout event (height %d, round %d) while %s changed: %s",
				what, td.Height, td.Round, why, d), w.beh, step)
		}
		if why != "" {
			w.res.Counters["vpath_stale_events"]++
		} else {
			w.res.Counters["vpath_live_events"]++
		}
	}
}

func vpath(seed int64, rounds int, res *vh.Result) {
	for k := 0; k < rounds; k++ {
		vpathOne(k, seed, res)
	}
}

func vpathOne(k int, seed int64, res *vh.Result) {
	beh := fmt.Sprintf("vpath-%d", k)
	rng := rand.New(rand.NewSource(seed*7919 + int64(k)))
	ks := tu.Testing4SharesSet()
	role := spectypes.BNRoleAttester
	ctx, cancel := context.WithCancel(context.Background())
	cancel()                                                    // the queue consumers started by Validator.Start exit immediately; the harness consumes the queue itself
	v := validator.NewValidator(ctx, cancel, validator.Options{ // as protocol/v2/ssv/testing.BaseValidator
		Network:       subNet{tu.NewTestingNetwork()},
		Beacon:        tu.NewTestingBeaconNode(),
		BeaconNetwork: networkconfig.TestNetwork.Beacon,
		Storage:       qbfttesting.TestingStores(logger),
		SSVShare:      &ssvtypes.SSVShare{Share: *tu.TestingShare(ks)},
		Signer:        tu.NewTestingKeyManager(),
		DutyRunners:   map[spectypes.BeaconRole]runner.Runner{role: ssvtesting.AttesterRunner(logger, ks)},
	})
	dr := v.DutyRunners[role]
	ctrl := dr.GetBaseRunner().QBFTController
	cfg, ok := ctrl.GetConfig().(*qbft.Config)
	if !ok {
		res.Notes = append(res.Notes, "vpath: controller config is not *qbft.Config - validator-level path skipped")
		return
	}
	duty := tu.TestingAttesterDuty
	h := specqbft.Height(duty.Slot)
	// the REAL round timer under the runner's controller, scaled: slot 30ms (attester base 10ms), quick 15ms, slow 40ms,
	// threshold 2  ->  deadlines 25ms, 40ms, 80ms after the slot start
	const base, quick, slow = 10 * time.Millisecond, 15 * time.Millisecond, 40 * time.Millisecond
	origin := time.Now()
	tctx, tcancel := context.WithCancel(context.Background())
	defer tcancel()
	rt := roundtimer.New(tctx, &fakeNet{slot: duty.Slot, slotStart: origin, slotDur: 3 * base}, role, nil)
	rt.VerifSetTimeouts(quick, slow, 2)
	cfg.Timer = rt
	w := &vWorld{v: v, ctrl: ctrl, role: role, timer: rt, origin: origin, res: res, beh: beh,
		id: spectypes.NewMsgID(ssvtesting.TestingSSVDomainType, tu.TestingValidatorPubKey[:], role)}
	w.cw = &ctlWorld{ks: ks, cfg: cfg, ctrl: ctrl, net: cfg.Network.(*tu.TestingNetwork), timer: &roundtimer.TestQBFTTimer{}, id: w.id[:],
		stopped: map[specqbft.Height]bool{}}
	if started, err := v.Start(logger); err != nil || !started {
		res.Notes = append(res.Notes, fmt.Sprintf("vpath: validator did not start (%v) - validator-level path skipped", err))
		return
	}
	if err := v.StartDuty(logger, &duty); err != nil {
		res.Notes = append(res.Notes, "vpath: StartDuty failed: "+err.Error())
		return
	}
	inst := ctrl.StoredInstances.FindInstance(h)
	if inst == nil {
		res.Notes = append(res.Notes, "vpath: no instance after StartDuty")
		return
	}
	inject := func(height specqbft.Height, round specqbft.Round) { // Validator.onTimeout, as installed on the timer by the runner
		dr.GetBaseRunner().TimeoutF(logger, w.id, height)(round)
	}
	expectRound := func(step int, what string, want specqbft.Round) {
		if inst.State.Round != want {
			diverge(res, beh, step, what, int(want), int(inst.State.Round))
		}
	}
	has := func(evs []ssvtypes.TimeoutData, r specqbft.Round) bool {
		for _, e := range evs {
			if e.Height == h && e.Round == r {
				return true
			}
		}
		return false
	}
	// 1. nothing may arrive before round 1's deadline; stale heights are ignored
	inject(h+5, 1)
	inject(h-1, 1)
	early := w.drain(1, "before the first deadline")
	if has(early, 1) && time.Since(origin) < base+quick {
		res.Violate("timeout-early", fmt.Sprintf("validator path: the round-1 timeout event reached the queue %v after the slot start, deadline %v", time.Since(origin), base+quick), beh, 1)
	}
	// 2. the real timer (armed by Instance.Start) fires through Validator.onTimeout into the queue
	sleepUntil(origin, base+quick, false)
	for q := v.Queues[role].Q; q.Len() == 0 && time.Since(origin) < base+quick+400*time.Millisecond; {
		time.Sleep(time.Millisecond) // the callback may be late on a loaded machine; it is never early
	}
	live0 := res.Counters["vpath_live_events"]
	evs := w.drain(2, "genuine round-1 timeout")
	if has(evs, 1) {
		res.Counters["vpath_real_timeouts"]++
		// every live event (round 1, and round 2 if the harness was slow enough for it to expire as well) moves one round on
		expectRound(2, "round after the real timeouts travelled timer->queue->controller", specqbft.Round(1+res.Counters["vpath_live_events"]-live0))
	} else if !has(early, 1) {
		diverge(res, beh, 2, "round-1 timeout event in the queue after its deadline", true, false)
	}
	// 3. duplicates of the round-1 event after the instance moved on
	for n := 0; n < 1+rng.Intn(3); n++ {
		inject(h, 1)
	}
	r0, live1 := inst.State.Round, res.Counters["vpath_live_events"]
	w.drain(3, "duplicate round-1 timeouts")
	expectRound(3, "round after duplicate round-1 timeouts", r0+specqbft.Round(res.Counters["vpath_live_events"]-live1))
	// 4. decide the instance with a quorum certificate, then current-round, later-round and the real timer's events
	dec := tu.TestingCommitMultiSignerMessageWithParams(w.cw.sks(1, 2, 3), []spectypes.OperatorID{1, 2, 3}, inst.State.Round, h, w.id[:],
		sha256Of(inst.StartValue), inst.StartValue)
	if _, err := ctrl.ProcessMsg(logger, dec); err != nil {
		res.Notes = append(res.Notes, "vpath: decided message refused: "+err.Error())
	} else {
		rd := inst.State.Round
		inject(h, rd)
		inject(h, rd+1)
		sleepUntil(origin, base+2*quick+slow+15*time.Millisecond, false) // rounds 2 and 3 of the real timer are over
		w.drain(4, "timeouts after the instance decided")
		expectRound(4, "round after post-decision timeouts", rd)
	}
	res.Behaviours++
	res.Steps += 4
	res.Nontrivial++
}

func sha256Of(b []byte) [32]byte {
	r, _ := specqbft.HashDataRoot(b)
	return r
}

// ---------------------------------------------------------------------------------------------------------

func main() {
	mode := flag.String("mode", "replay", "replay | record | vpath")
	in := flag.String("in", "", "behaviours NDJSON (replay)")
	out := flag.String("out", "", "result JSON")
	trace := flag.String("trace", "", "trace NDJSON to write (record)")
	seed := flag.Int64("seed", 1, "seed")
	runs := flag.Int("runs", 100, "number of own executions")
	par := flag.Int("par", 48, "timers running concurrently")
	unit := flag.Duration("unit", 12*time.Millisecond, "real duration of one spec instant")
	flag.Parse()
	bls.Init(bls.BLS12_381)
	res := vh.NewResult()
	switch *mode {
	case "replay":
		behs, err := vh.ReadBehaviours(*in)
		if err != nil {
			fmt.Fprintln(os.Stderr, err)
			os.Exit(3)
		}
		var tb []vh.Behaviour
		for _, b := range behs {
			switch partOf(b) {
			case "timer":
				tb = append(tb, b)
			case "ctl":
				replayCtl(b, res)
			default:
				fmt.Fprintln(os.Stderr, "behaviour without init step: "+b.ID)
				os.Exit(3)
			}
		}
		res.Counters["ctl_behaviours"] = res.Behaviours
		replayAllTimer(tb, *unit, *par, res)
		res.Counters["timer_behaviours"] = len(tb)
	case "record":
		record(*trace, *seed, *runs, *par, res)
	case "vpath":
		vpath(*seed, *runs, res)
	}
	if err := res.Write(*out); err != nil {
		fmt.Fprintln(os.Stderr, err)
		os.Exit(3)
	}
}
