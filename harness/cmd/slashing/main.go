// Driver for spec/Slashing.tla (property C04): replays TLC behaviours on the REAL ekm key manager
// (ekm.NewETHKeyManagerSigner -> eth2-key-manager SimpleSigner + NormalProtection) over the real in-memory
// badger database behind a fault-injecting basedb.Database wrapper and a fake-clock BeaconNetwork.
// The property monitor looks only at RELEASED signatures (successful SignBeaconObject returns) over the whole
// life of the share and applies the harness's own transcription of the Ethereum slashing conditions.
package main

import (
	"encoding/hex"
	"encoding/json"
	"errors"
	"flag"
	"fmt"
	"math/rand"
	"os"
	"strings"
	"sync"
	"sync/atomic"
	"time"

	apiv1capella "github.com/attestantio/go-eth2-client/api/v1/capella"
	"github.com/attestantio/go-eth2-client/spec/capella"
	"github.com/attestantio/go-eth2-client/spec/phase0"
	spectypes "github.com/bloxapp/ssv-spec/types"
	"github.com/bloxapp/ssv-spec/types/testingutils"
	ssz "github.com/ferranbt/fastssz"
	"github.com/herumi/bls-eth-go-binary/bls"
	"go.uber.org/zap"

	"github.com/bloxapp/ssv/ekm"
	"github.com/bloxapp/ssv/networkconfig"
	beaconprotocol "github.com/bloxapp/ssv/protocol/v2/blockchain/beacon"
	"github.com/bloxapp/ssv/storage/basedb"
	"github.com/bloxapp/ssv/storage/kv"
	"github.com/bloxapp/ssv/utils/threshold"

	"verif/harness/vh"
)

// ---------------------------------------------------------------------------------------------
// fake-clock beacon network: the key manager asks it for the current slot and the epoch of a slot
// (BumpSlashingProtection); the name must be one core.Network knows (far-future guard of eth2-key-manager
// compares against the REAL prater genesis, so the model's small epochs are always in the past).
// ---------------------------------------------------------------------------------------------

type fakeNet struct {
	beaconprotocol.Network
	slot atomic.Uint64
	spe  uint64
}

func newFakeNet(spe int) *fakeNet {
	return &fakeNet{Network: beaconprotocol.NewNetwork(spectypes.PraterNetwork), spe: uint64(spe)}
}
func (n *fakeNet) SlotsPerEpoch() uint64               { return n.spe }
func (n *fakeNet) EstimatedCurrentSlot() phase0.Slot   { return phase0.Slot(n.slot.Load()) }
func (n *fakeNet) EstimatedCurrentEpoch() phase0.Epoch { return phase0.Epoch(n.slot.Load() / n.spe) }
func (n *fakeNet) EstimatedEpochAtSlot(s phase0.Slot) phase0.Epoch {
	return phase0.Epoch(uint64(s) / n.spe)
}
func (n *fakeNet) FirstSlotAtEpoch(e phase0.Epoch) phase0.Slot  { return phase0.Slot(uint64(e) * n.spe) }
func (n *fakeNet) GetEpochFirstSlot(e phase0.Epoch) phase0.Slot { return phase0.Slot(uint64(e) * n.spe) }
func (n *fakeNet) IsFirstSlotOfEpoch(s phase0.Slot) bool        { return uint64(s)%n.spe == 0 }

// ---------------------------------------------------------------------------------------------
// fault-injecting database
// ---------------------------------------------------------------------------------------------

type crashSignal struct{}

var errInjected = errors.New("verif: injected storage error")

// plan: the Nth access (read "r" / write "w") of item At made while the plan is armed gets Effect.
// K = "failall" is the PERSISTENT write fault: every write (Set / Delete) of item At fails for the whole call and for
// the N-1 public calls that follow it (over restarts too); a retry inside the call meets the same error.
type plan struct {
	K  string // none | crash | crashafter | fail | failall | rerr | rmiss | rempty
	At string // att | prop | acc | wal
	N  int
}

func (p plan) none() bool { return p.K == "" || p.K == "none" }
func (p plan) isWrite() bool {
	return p.K == "crash" || p.K == "crashafter" || p.K == "fail" || p.K == "failall"
}
func (p plan) toMap() map[string]any {
	if p.none() {
		return map[string]any{"k": "none", "at": "-", "n": 0}
	}
	return map[string]any{"k": p.K, "at": p.At, "n": p.N}
}
func planOf(m map[string]any) plan {
	if m == nil {
		return plan{K: "none"}
	}
	return plan{K: vh.Str(m, "k"), At: vh.Str(m, "at"), N: vh.Int(m, "n")}
}

type parked struct{ release chan struct{} }

type faultDB struct {
	inner basedb.Database
	mu    sync.Mutex
	p     plan
	cntR  map[string]int
	cntW  map[string]int
	fired bool
	dead  bool // after a crash every further access dies too (nothing may be written while "unwinding")
	log   []string
	// persistent write fault (spec variable `broken`): every write of stickyAt fails during the next stickyLeft
	// public calls; survives boot(). hold = a shadow request runs under it without using up one of its calls.
	stickyAt   string
	stickyLeft int
	hold       bool
	// gate mode (replay of the noSignLock attack): every write of the attestation record parks until released
	gateOn bool
	gateCh chan *parked
}

func newFaultDB(inner basedb.Database) *faultDB {
	return &faultDB{inner: inner, cntR: map[string]int{}, cntW: map[string]int{}, gateCh: make(chan *parked, 16)}
}

func item(prefix []byte) string {
	s := string(prefix)
	switch {
	case strings.HasSuffix(s, "highest_att-"):
		return "att"
	case strings.HasSuffix(s, "highest_prop-"):
		return "prop"
	case strings.HasSuffix(s, "accounts-"):
		return "acc"
	case strings.HasSuffix(s, "wallet-"):
		return "wal"
	}
	return "other"
}

func (f *faultDB) arm(p plan) {
	f.mu.Lock()
	defer f.mu.Unlock()
	f.p = p
	f.cntR = map[string]int{}
	f.cntW = map[string]int{}
	f.fired = false
	f.log = f.log[:0]
	if p.K == "failall" && f.stickyLeft == 0 && p.N > 0 {
		f.stickyAt, f.stickyLeft = p.At, p.N
	}
}

// sticky reports the persistent write fault in force (item, calls left)
func (f *faultDB) sticky() (string, int) {
	f.mu.Lock()
	defer f.mu.Unlock()
	return f.stickyAt, f.stickyLeft
}

func (f *faultDB) setHold(h bool) {
	f.mu.Lock()
	f.hold = h
	f.mu.Unlock()
}

func (f *faultDB) disarm() (fired bool, log []string) {
	f.mu.Lock()
	defer f.mu.Unlock()
	fired = f.fired
	log = append([]string(nil), f.log...)
	if f.stickyLeft > 0 && !f.hold {
		if f.p.K == "failall" && !f.fired {
			f.stickyLeft = 0 // the call that was to start it wrote nothing to that record: the plan is not taken
		} else {
			f.stickyLeft--
		}
		if f.stickyLeft == 0 {
			f.stickyAt = ""
		}
	}
	f.p = plan{K: "none"}
	return
}

// before a write: returns "", "fail", or panics (crash); "after" = crash after performing the write
func (f *faultDB) onWrite(it string) string {
	f.mu.Lock()
	if f.dead {
		f.mu.Unlock()
		panic(crashSignal{})
	}
	f.cntW[it]++
	f.log = append(f.log, "w:"+it)
	eff := ""
	if f.stickyLeft > 0 && it == f.stickyAt {
		f.fired = true
		eff = "fail"
	} else if !f.p.none() && f.p.isWrite() && f.p.K != "failall" && f.p.At == it && f.cntW[it] == f.p.N && !f.fired {
		f.fired = true
		eff = f.p.K
		if eff == "crash" {
			f.dead = true
		}
	}
	gate := f.gateOn && it == "att"
	f.mu.Unlock()
	if eff == "crash" {
		panic(crashSignal{})
	}
	if gate {
		pk := &parked{release: make(chan struct{})}
		f.gateCh <- pk
		<-pk.release
	}
	return eff
}

func (f *faultDB) afterWrite(eff string) {
	if eff == "crashafter" {
		f.mu.Lock()
		f.dead = true
		f.mu.Unlock()
		panic(crashSignal{})
	}
}

func (f *faultDB) onRead(it string) string {
	f.mu.Lock()
	defer f.mu.Unlock()
	if f.dead {
		panic(crashSignal{})
	}
	f.cntR[it]++
	f.log = append(f.log, "r:"+it)
	if !f.p.none() && !f.p.isWrite() && f.p.At == it && f.cntR[it] == f.p.N && !f.fired {
		f.fired = true
		return f.p.K
	}
	return ""
}

func (f *faultDB) Set(prefix, key, value []byte) error {
	eff := f.onWrite(item(prefix))
	if eff == "fail" {
		return errInjected
	}
	err := f.inner.Set(prefix, key, value)
	f.afterWrite(eff)
	return err
}
func (f *faultDB) Delete(prefix, key []byte) error {
	eff := f.onWrite(item(prefix))
	if eff == "fail" {
		return errInjected
	}
	err := f.inner.Delete(prefix, key)
	f.afterWrite(eff)
	return err
}
func (f *faultDB) SetMany(prefix []byte, n int, next func(int) (basedb.Obj, error)) error {
	eff := f.onWrite(item(prefix))
	if eff == "fail" {
		return errInjected
	}
	err := f.inner.SetMany(prefix, n, next)
	f.afterWrite(eff)
	return err
}
func (f *faultDB) Get(prefix, key []byte) (basedb.Obj, bool, error) {
	switch f.onRead(item(prefix)) {
	case "rerr":
		return basedb.Obj{}, true, errInjected
	case "rmiss":
		return basedb.Obj{}, false, nil
	case "rempty":
		return basedb.Obj{Key: key, Value: []byte{}}, true, nil
	}
	return f.inner.Get(prefix, key)
}
func (f *faultDB) GetMany(prefix []byte, keys [][]byte, it func(basedb.Obj) error) error {
	f.onRead(item(prefix))
	return f.inner.GetMany(prefix, keys, it)
}
func (f *faultDB) GetAll(prefix []byte, h func(int, basedb.Obj) error) error {
	f.onRead(item(prefix))
	return f.inner.GetAll(prefix, h)
}
func (f *faultDB) Begin() basedb.Txn         { return f.inner.Begin() }
func (f *faultDB) BeginRead() basedb.ReadTxn { return f.inner.BeginRead() }
func (f *faultDB) Using(rw basedb.ReadWriter) basedb.ReadWriter {
	if rw == nil {
		return f
	}
	return rw
}
func (f *faultDB) UsingReader(r basedb.Reader) basedb.Reader {
	if r == nil {
		return f
	}
	return r
}
func (f *faultDB) CountPrefix(prefix []byte) (int64, error) { return f.inner.CountPrefix(prefix) }
func (f *faultDB) DeletePrefix(prefix []byte) (int, error) {
	f.onWrite(item(prefix))
	return f.inner.DeletePrefix(prefix)
}
func (f *faultDB) DropPrefix(prefix []byte) error {
	f.onWrite(item(prefix))
	return f.inner.DropPrefix(prefix)
}
func (f *faultDB) Update(fn func(basedb.Txn) error) error { return f.inner.Update(fn) }
func (f *faultDB) Close() error                           { return f.inner.Close() }

// ---------------------------------------------------------------------------------------------
// the world: one share, one database, a sequence of signer objects (one per process lifetime)
// ---------------------------------------------------------------------------------------------

const shareSK = "3548db63ab5701878daf25fa877638dc7809778815b9d9ecd5369da33ca9e64f"

type relAtt struct {
	S, T, D int
	Root    [32]byte
}
type relBlk struct {
	Slot, D int
	Root    [32]byte
}

type world struct {
	net   *fakeNet
	inner *kv.BadgerDB
	fdb   *faultDB
	km    spectypes.KeyManager
	sk    *bls.SecretKey
	pk    []byte
	pkHex string
	// monitor state: everything ever released for this share
	atts []relAtt
	blks []relBlk
	res  *vh.Result
	beh  string
	step int
	mu   sync.Mutex
	// pending split signing requests (noSignLock attack replay)
	pending map[string]*pendingReq
	lives   int
	// set once a signature was released on an EMPTY-valued proposal record: that history is one specific
	// finding (RetrieveHighestProposal returns slot 0 without an error) and keeps its own signature
	emptyRecordAccepted bool
}

var logger = zap.NewNop()

// opening an in-memory badger costs ~150 ms; sequential behaviours share one database that is wiped in between
var sharedDB *kv.BadgerDB
var sharedUses int

func wipe(db *kv.BadgerDB) {
	for _, pfx := range []string{"pratersigner_data-highest_att-", "pratersigner_data-highest_prop-",
		"pratersigner_data-accounts-", "pratersigner_data-wallet-"} {
		var keys [][]byte
		_ = db.GetAll([]byte(pfx), func(i int, o basedb.Obj) error {
			keys = append(keys, append([]byte(nil), o.Key...))
			return nil
		})
		for _, k := range keys {
			if err := db.Delete([]byte(pfx), k); err != nil {
				panic(err)
			}
		}
	}
}

func newWorld(spe int, res *vh.Result, beh string) *world { return newWorldDB(spe, res, beh, true) }

func newWorldDB(spe int, res *vh.Result, beh string, shared bool) *world {
	var inner *kv.BadgerDB
	if shared && sharedDB != nil && sharedUses >= 400 {
		// badger keeps the deleted versions in its memtable: iteration slows down with every wipe
		_ = sharedDB.Close()
		sharedDB, sharedUses = nil, 0
	}
	if shared && sharedDB != nil {
		inner = sharedDB
		wipe(inner)
		sharedUses++
	} else {
		var err error
		inner, err = kv.NewInMemory(logger, basedb.Options{})
		if err != nil {
			panic(err)
		}
		if shared {
			sharedDB = inner
		}
	}
	w := &world{net: newFakeNet(spe), inner: inner, res: res, beh: beh, pending: map[string]*pendingReq{}}
	w.net.slot.Store(uint64(spe))
	w.fdb = newFaultDB(inner)
	w.sk = &bls.SecretKey{}
	if err := w.sk.SetHexString(shareSK); err != nil {
		panic(err)
	}
	w.pk = w.sk.GetPublicKey().Serialize()
	w.pkHex = hex.EncodeToString(w.pk)
	w.boot()
	return w
}

func (w *world) close() {
	if w.inner != sharedDB {
		_ = w.inner.Close()
	}
}

// boot = process start: a new signer object on the surviving database
func (w *world) boot() {
	w.fdb.mu.Lock()
	w.fdb.dead = false
	w.fdb.p = plan{K: "none"}
	w.fdb.mu.Unlock()
	cfg := networkconfig.NetworkConfig{Name: "verif", Beacon: w.net, Domain: networkconfig.TestNetwork.Domain}
	km, err := ekm.NewETHKeyManagerSigner(logger, w.fdb, cfg, true, "")
	if err != nil {
		panic(fmt.Sprintf("cannot construct the key manager: %v", err))
	}
	w.km = km
	w.mu.Lock()
	w.lives++
	w.mu.Unlock()
}

// call runs one public call of the key manager under a fault plan. outcome: "ok" | "err" | "crash".
func (w *world) call(p plan, fn func() error) (outcome string, fired bool, err error) {
	w.fdb.arm(p)
	crashed := false
	func() {
		defer func() {
			if r := recover(); r != nil {
				if _, ok := r.(crashSignal); ok {
					crashed = true
					return
				}
				panic(r)
			}
		}()
		err = fn()
	}()
	fired, _ = w.fdb.disarm()
	if crashed {
		w.boot()
		return "crash", fired, nil
	}
	if err != nil {
		return "err", fired, err
	}
	return "ok", fired, nil
}

func (w *world) addShare(p plan) (string, bool, error) {
	return w.call(p, func() error { return w.km.AddShare(w.sk) })
}
func (w *world) removeShare(p plan) (string, bool, error) {
	return w.call(p, func() error { return w.km.RemoveShare(w.pkHex) })
}
func (w *world) reactivate(p plan) (string, bool, error) {
	return w.call(p, func() error { return w.km.(ekm.StorageProvider).BumpSlashingProtection(w.pk) })
}

func (w *world) attData(s, t, d int) *phase0.AttestationData {
	var root phase0.Root
	root[0] = byte(d)
	return &phase0.AttestationData{
		Slot:            phase0.Slot(uint64(t) * w.net.spe),
		Index:           1,
		BeaconBlockRoot: root,
		Source:          &phase0.Checkpoint{Epoch: phase0.Epoch(s)},
		Target:          &phase0.Checkpoint{Epoch: phase0.Epoch(t)},
	}
}

// odd variants are full capella blocks, even variants blinded capella blocks; the graffiti makes the roots differ
func (w *world) block(slot, d int) ssz.HashRoot {
	if d%2 == 1 {
		b := *testingutils.TestingBeaconBlockCapella
		body := *b.Body
		body.Graffiti[0] = byte(d)
		b.Body = &body
		b.Slot = phase0.Slot(slot)
		return &b
	}
	b := *testingutils.TestingBlindedBeaconBlockCapella
	body := *b.Body
	body.Graffiti[0] = byte(d)
	b.Body = &body
	b.Slot = phase0.Slot(slot)
	return &b
}

var _ = capella.BeaconBlock{}
var _ = apiv1capella.BlindedBeaconBlock{}

// rawAtt / rawProp read the protection records straight from the inner database (no fault, no signer code)
func (w *world) rawAtt() (found bool, s, t int) {
	obj, ok, err := w.inner.Get([]byte("pratersigner_data-highest_att-"), w.pk)
	if err != nil || !ok {
		return false, 0, 0
	}
	ad := &phase0.AttestationData{}
	if err := ad.UnmarshalSSZ(obj.Value); err != nil {
		return true, -1, -1
	}
	return true, int(ad.Source.Epoch), int(ad.Target.Epoch)
}
func (w *world) rawProp() (found bool, v int) {
	obj, ok, err := w.inner.Get([]byte("pratersigner_data-highest_prop-"), w.pk)
	if err != nil || !ok {
		return false, 0
	}
	if len(obj.Value) != 8 {
		return true, -1
	}
	return true, int(ssz.UnmarshallUint64(obj.Value))
}

type projection struct {
	AttF       bool
	AttS, AttT int
	PropF      bool
	PropV      int
	NAccs      int
	DbIdx      bool // the persisted wallet maps the share's public key
	DbOK       bool // ... to an account record that exists
}

func (w *world) project() projection {
	var p projection
	p.AttF, p.AttS, p.AttT = w.rawAtt()
	p.PropF, p.PropV = w.rawProp()
	ids := map[string]bool{}
	_ = w.inner.GetAll([]byte("pratersigner_data-accounts-"), func(i int, o basedb.Obj) error {
		ids[strings.TrimPrefix(string(o.Key), "accounts_")] = true
		return nil
	})
	p.NAccs = len(ids)
	if obj, ok, err := w.inner.Get([]byte("pratersigner_data-wallet-"), []byte("wallet")); err == nil && ok {
		var v struct {
			IndexMapper map[string]string `json:"indexMapper"`
		}
		if json.Unmarshal(obj.Value, &v) == nil {
			if id, ok := v.IndexMapper[w.pkHex]; ok {
				p.DbIdx = true
				p.DbOK = ids[id]
			}
		}
	}
	return p
}

func (p projection) toMap() map[string]any {
	return map[string]any{
		"att":  map[string]any{"f": p.AttF, "s": p.AttS, "t": p.AttT},
		"prop": map[string]any{"f": p.PropF, "v": p.PropV},
		"naccs": p.NAccs, "dbidx": p.DbIdx, "dbok": p.DbOK,
	}
}

// ---- the property monitor (harness's own transcription of the slashing conditions) ----

func (w *world) violate(sig, desc string) {
	if w.emptyRecordAccepted {
		sig = "signed-with-empty-proposal-record"
	}
	w.res.Violate(sig, desc, w.beh, w.step)
}

func (w *world) releasedAtt(s, t, d int, root [32]byte, recordKnown bool, why string) {
	w.mu.Lock()
	defer w.mu.Unlock()
	if !recordKnown {
		w.violate("signed-without-record", fmt.Sprintf("attestation (source %d, target %d) was signed although the highest-attestation record %s", s, t, why))
	}
	for _, a := range w.atts {
		if a.Root == root {
			continue // the same attestation signed again is not slashable
		}
		switch {
		case a.T == t:
			w.violate("double-vote", fmt.Sprintf("released attestations (source %d, target %d, data %d) and (source %d, target %d, data %d): same target epoch, different signing roots [signer lifetimes so far: %d]", a.S, a.T, a.D, s, t, d, w.lives))
		case a.S < s && t < a.T:
			w.violate("surround-vote", fmt.Sprintf("released attestation (source %d, target %d) surrounds released (source %d, target %d)", a.S, a.T, s, t))
		case s < a.S && a.T < t:
			w.violate("surround-vote", fmt.Sprintf("released attestation (source %d, target %d) surrounds released (source %d, target %d)", s, t, a.S, a.T))
		}
	}
	w.atts = append(w.atts, relAtt{s, t, d, root})
}

func (w *world) releasedBlk(slot, d int, root [32]byte, recordKnown bool, why string) {
	w.mu.Lock()
	defer w.mu.Unlock()
	if !recordKnown {
		w.violate("signed-without-record", fmt.Sprintf("block for slot %d was signed although the highest-proposal record %s", slot, why))
	}
	for _, b := range w.blks {
		if b.Slot == slot && b.Root != root {
			w.violate("double-proposal", fmt.Sprintf("two different blocks released for slot %d (data %d and data %d) [signer lifetimes so far: %d]", slot, b.D, d, w.lives))
		}
	}
	w.blks = append(w.blks, relBlk{slot, d, root})
}

type slashChecker interface {
	IsAttestationSlashable(pk []byte, data *phase0.AttestationData) error
	IsBeaconBlockSlashable(pk []byte, slot phase0.Slot) error
}

// signAtt: one SignBeaconObject(attestation) call. outcome: "signed" | "refused" | "crash"
func (w *world) signAtt(s, t, d int, p plan) (string, bool, error) {
	found, _, _ := w.rawAtt()
	known, why := found, "is missing"
	if p.At == "att" && p.N == 1 && (p.K == "rerr" || p.K == "rmiss" || p.K == "rempty") {
		known, why = false, "could not be read ("+p.K+")"
	}
	var sig spectypes.Signature
	var root [32]byte
	pre := w.km.(slashChecker).IsAttestationSlashable(w.pk, w.attData(s, t, d)) // read-only pre-check used by the validator
	// under a persistent write fault the read-only pre-check and the call differ by design
	_, underSticky := w.fdb.sticky()
	out, fired, err := w.call(p, func() error {
		var e error
		sig, root, e = w.km.SignBeaconObject(w.attData(s, t, d), phase0.Domain{}, w.pk, spectypes.DomainAttester)
		return e
	})
	if p.none() && underSticky == 0 && (pre == nil) != (out == "ok") && !strings.Contains(fmt.Sprint(err), "account not found") {
		w.res.Diverge(w.beh, w.step, "IsAttestationSlashable-vs-sign", fmt.Sprint(pre), out)
	}
	if out == "ok" && len(sig) > 0 {
		if !fired && !p.none() {
			known, why = found, "is missing"
		}
		w.releasedAtt(s, t, d, root, known, why)
		return "signed", fired, nil
	}
	if out == "crash" {
		return "crash", fired, nil
	}
	return "refused", fired, err
}

func (w *world) signBlk(slot, d int, p plan) (string, bool, error) {
	found, _ := w.rawProp()
	known, why := found, "is missing"
	if p.At == "prop" && p.N == 1 && (p.K == "rerr" || p.K == "rmiss" || p.K == "rempty") {
		known, why = false, "could not be read ("+p.K+")"
	}
	var sig spectypes.Signature
	var root [32]byte
	pre := w.km.(slashChecker).IsBeaconBlockSlashable(w.pk, phase0.Slot(slot))
	_, underSticky := w.fdb.sticky()
	out, fired, err := w.call(p, func() error {
		var e error
		sig, root, e = w.km.SignBeaconObject(w.block(slot, d), phase0.Domain{}, w.pk, spectypes.DomainProposer)
		return e
	})
	if p.none() && underSticky == 0 && (pre == nil) != (out == "ok") && !strings.Contains(fmt.Sprint(err), "account not found") {
		w.res.Diverge(w.beh, w.step, "IsBeaconBlockSlashable-vs-sign", fmt.Sprint(pre), out)
	}
	if out == "ok" && len(sig) > 0 {
		if !fired && !p.none() {
			known, why = found, "is missing"
		}
		if fired && p.K == "rempty" {
			w.emptyRecordAccepted = true
			why = "has an empty value (read returned no error and slot 0)"
		}
		w.releasedBlk(slot, d, root, known, why)
		return "signed", fired, nil
	}
	if out == "crash" {
		return "crash", fired, nil
	}
	return "refused", fired, err
}

// ---- split signing requests: replay of the noSignLock attack (SignCheck / SignCommit) ----

type pendingReq struct {
	s, t, d int
	done    chan string
	parked  *parked
}

func (w *world) signCheck(s, t, d int) string {
	w.fdb.mu.Lock()
	w.fdb.gateOn = true
	w.fdb.mu.Unlock()
	pr := &pendingReq{s: s, t: t, d: d, done: make(chan string, 1)}
	km := w.km
	found, _, _ := w.rawAtt()
	go func() {
		sig, root, err := km.SignBeaconObject(w.attData(s, t, d), phase0.Domain{}, w.pk, spectypes.DomainAttester)
		if err == nil && len(sig) > 0 {
			w.releasedAtt(s, t, d, root, found, "is missing")
			pr.done <- "signed"
			return
		}
		pr.done <- "refused"
	}()
	select {
	case r := <-pr.done:
		pr.done <- r
		return "refused"
	case pk := <-w.fdb.gateCh:
		pr.parked = pk
		w.pending[fmt.Sprintf("%d/%d/%d", s, t, d)] = pr
		return "pass"
	case <-time.After(150 * time.Millisecond):
		// neither refused nor at its write: the request waits for the per-account lock
		w.pending[fmt.Sprintf("%d/%d/%d", s, t, d)] = pr
		return "blocked"
	}
}

func (w *world) signCommit(s, t, d int) string {
	pr := w.pending[fmt.Sprintf("%d/%d/%d", s, t, d)]
	if pr == nil {
		return "absent"
	}
	if pr.parked == nil {
		select {
		case pk := <-w.fdb.gateCh:
			pr.parked = pk
		case r := <-pr.done:
			return r
		case <-time.After(150 * time.Millisecond):
			return "blocked"
		}
	}
	close(pr.parked.release)
	select {
	case r := <-pr.done:
		return r
	case <-time.After(300 * time.Millisecond):
		return "stuck"
	}
}

func (w *world) endSplit() {
	if len(w.pending) == 0 {
		return
	}
	w.fdb.mu.Lock()
	w.fdb.gateOn = false
	w.fdb.mu.Unlock()
	for {
		select {
		case pk := <-w.fdb.gateCh:
			close(pk.release)
			continue
		case <-time.After(50 * time.Millisecond):
		}
		break
	}
	w.pending = map[string]*pendingReq{}
}

// ---------------------------------------------------------------------------------------------
// replay of spec behaviours
// ---------------------------------------------------------------------------------------------

func specRes(out string) string { return out }

func cmpPost(w *world, b vh.Behaviour, i int, a map[string]any, res *vh.Result) {
	post := vh.Map(a, "post")
	if post == nil {
		return
	}
	p := w.project()
	att, prop := vh.Map(post, "att"), vh.Map(post, "prop")
	if vh.Bool(att, "f") != p.AttF || (p.AttF && (vh.Int(att, "s") != p.AttS || vh.Int(att, "t") != p.AttT)) {
		res.Diverge(b.ID, i, "att", att, map[string]any{"f": p.AttF, "s": p.AttS, "t": p.AttT})
	}
	if vh.Bool(prop, "f") != p.PropF || (p.PropF && vh.Int(prop, "v") != p.PropV) {
		res.Diverge(b.ID, i, "prop", prop, map[string]any{"f": p.PropF, "v": p.PropV})
	}
	accs := vh.Ints(post, "accs")
	db := vh.Int(post, "db")
	if len(accs) != p.NAccs {
		res.Diverge(b.ID, i, "accs", len(accs), p.NAccs)
	}
	dbok := false
	for _, g := range accs {
		if g == db {
			dbok = true
		}
	}
	if (db != 0) != p.DbIdx || dbok != p.DbOK {
		res.Diverge(b.ID, i, "wallet", map[string]any{"idx": db != 0, "ok": dbok}, map[string]any{"idx": p.DbIdx, "ok": p.DbOK})
	}
}

func replay(b vh.Behaviour, spe int, res *vh.Result) {
	split := false
	for _, st := range b.Steps {
		if n := vh.Str(st.Act, "name"); n == "SignCheck" || n == "SignCommit" {
			split = true
		}
	}
	// behaviours with split signing requests start goroutines that may outlive the behaviour (the dependency's
	// lock can leave them stuck, or late): they get a database of their own, which is never reused nor closed
	w := newWorldDB(spe, res, b.ID, !split)
	if split {
		w.res = vh.NewResult()
		defer func() {
			w.mu.Lock()
			res.Violations = append(res.Violations, w.res.Violations...)
			res.Counters["violations"] += w.res.Counters["violations"]
			w.res = vh.NewResult()
			w.mu.Unlock()
		}()
	}
	nontrivial := false
	for i, st := range b.Steps {
		w.step = i
		a := st.Act
		name := vh.Str(a, "name")
		p := planOf(vh.Map(a, "fault"))
		// a call under the remainder of a persistent write fault: the spec's `broken` and the wrapper must agree
		_, stickyBefore := w.fdb.sticky()
		if eff := planOf(vh.Map(a, "eff")); vh.Map(a, "eff") != nil && p.none() {
			at, left := w.fdb.sticky()
			if (eff.K == "failall") != (left > 0) || (eff.K == "failall" && (eff.At != at || eff.N != left)) {
				res.Diverge(b.ID, i, name+".persistent-fault", eff.toMap(), map[string]any{"at": at, "left": left})
			}
		}
		switch name {
		case "init":
		case "Tick":
			w.net.slot.Store(uint64(vh.Int(a, "clock")))
		case "Restart":
			w.endSplit()
			w.boot()
		case "AddShare", "RemoveShare", "Reactivate":
			var out string
			var fired bool
			switch name {
			case "AddShare":
				out, fired, _ = w.addShare(p)
			case "RemoveShare":
				out, fired, _ = w.removeShare(p)
			default:
				out, fired, _ = w.reactivate(p)
			}
			if out != vh.Str(a, "res") {
				res.Diverge(b.ID, i, name+".res", vh.Str(a, "res"), out)
			}
			if !p.none() && !fired {
				res.Diverge(b.ID, i, name+".fault", p.toMap(), "did not fire")
			}
			cmpPost(w, b, i, a, res)
		case "SignAtt", "SignBlk":
			var out string
			var fired bool
			if name == "SignAtt" {
				out, fired, _ = w.signAtt(vh.Int(a, "s"), vh.Int(a, "t"), vh.Int(a, "d"), p)
			} else {
				out, fired, _ = w.signBlk(vh.Int(a, "slot"), vh.Int(a, "d"), p)
			}
			want := vh.Str(a, "res")
			if vh.Bool(a, "rel") && want != "signed" {
				want = "signed(early)" // releaseBeforePersist: the weakened spec hands the signature out before the write
			}
			if out != want {
				res.Diverge(b.ID, i, name+".res", want, out)
			}
			if !p.none() && !fired {
				res.Diverge(b.ID, i, name+".fault", p.toMap(), "did not fire")
			}
			cmpPost(w, b, i, a, res)
			if out == "signed" && (len(w.atts)+len(w.blks)) >= 2 {
				nontrivial = true
			}
			// shadow request (faithful behaviours only): the same duty with DIFFERENT data right after the call.
			// The spec refuses it in every state (after a release the record covers it, after a refusal without
			// a fault nothing changed), so the real code must refuse it too; if it signs, the monitor sees a
			// second root. After a RELEASE it is asked under every plan (a signature that got out although the
			// write of the record failed is followed by the request that the record was to stop); after a refusal
			// only when no fault was involved (a request refused for a failed write may be signed later).
			// It runs under a persistent write fault that is still in force without using up one of its calls.
			if !strings.HasPrefix(b.ID, "attack") && (out == "signed" || (out == "refused" && p.none() && stickyBefore == 0)) {
				var sh string
				w.fdb.setHold(true)
				if name == "SignAtt" {
					sh, _, _ = w.signAtt(vh.Int(a, "s"), vh.Int(a, "t"), vh.Int(a, "d")+2, plan{K: "none"})
				} else {
					sh, _, _ = w.signBlk(vh.Int(a, "slot"), vh.Int(a, "d")+2, plan{K: "none"})
				}
				w.fdb.setHold(false)
				res.Counters["shadow_requests"]++
				if sh != "refused" {
					res.Diverge(b.ID, i, name+".shadow", "refused", sh)
				}
			}
		case "SignCheck":
			out := w.signCheck(vh.Int(a, "s"), vh.Int(a, "t"), vh.Int(a, "d"))
			if out != vh.Str(a, "res") {
				res.Diverge(b.ID, i, "SignCheck.res", vh.Str(a, "res"), out)
			}
			nontrivial = true
		case "SignCommit":
			out := w.signCommit(vh.Int(a, "s"), vh.Int(a, "t"), vh.Int(a, "d"))
			if out != vh.Str(a, "res") {
				res.Diverge(b.ID, i, "SignCommit.res", vh.Str(a, "res"), out)
			}
		default:
			panic("unknown action " + name)
		}
	}
	w.endSplit()
	res.Behaviours++
	res.Steps += len(b.Steps)
	if nontrivial {
		res.Nontrivial++
	}
	res.Counters["released_attestations"] += len(w.atts)
	res.Counters["released_blocks"] += len(w.blks)
	res.Counters["signer_lifetimes"] += w.lives
}

// ---------------------------------------------------------------------------------------------
// own random executions, recorded for TLC trace validation (SlashingTrace.tla)
// ---------------------------------------------------------------------------------------------

func randPlan(rng *rand.Rand, op string) plan {
	if rng.Intn(3) != 0 {
		return plan{K: "none"}
	}
	wk := []string{"crash", "crashafter", "fail"}
	rk := []string{"rerr", "rmiss"}
	if rng.Intn(4) == 0 {
		// persistent write fault on one of the two protection records, lasting 1..3 public calls
		at := []string{"att", "prop"}[rng.Intn(2)]
		if op == "SignAtt" {
			at = "att"
		} else if op == "SignBlk" {
			at = "prop"
		}
		return plan{K: "failall", At: at, N: 1 + rng.Intn(3)}
	}
	switch op {
	case "AddShare", "Reactivate":
		if rng.Intn(3) == 0 {
			return plan{K: rk[rng.Intn(2)], At: []string{"att", "prop"}[rng.Intn(2)], N: 1}
		}
		return plan{K: wk[rng.Intn(3)], At: []string{"att", "prop", "acc", "wal"}[rng.Intn(4)], N: 1}
	case "RemoveShare":
		return plan{K: wk[rng.Intn(3)], At: []string{"att", "prop", "acc", "wal"}[rng.Intn(4)], N: 1}
	case "SignAtt":
		if rng.Intn(2) == 0 {
			return plan{K: rk[rng.Intn(2)], At: "att", N: 1 + rng.Intn(2)}
		}
		return plan{K: wk[rng.Intn(3)], At: "att", N: 1}
	default:
		if rng.Intn(2) == 0 {
			return plan{K: rk[rng.Intn(2)], At: "prop", N: 1 + rng.Intn(2)}
		}
		return plan{K: wk[rng.Intn(3)], At: "prop", N: 1}
	}
}

func record(path string, seed int64, runs, spe, maxSlot int, res *vh.Result) {
	tw, err := vh.NewTraceWriter(path)
	if err != nil {
		panic(err)
	}
	rng := rand.New(rand.NewSource(seed))
	for r := 0; r < runs; r++ {
		beh := fmt.Sprintf("own-%d", r)
		w := newWorld(spe, res, beh)
		tw.Emit(map[string]any{"event": "Reset"})
		nsteps := 12 + rng.Intn(30)
		signed := 0
		emitPost := func(ev map[string]any) {
			if ev["event"] != "Tick" && ev["event"] != "Restart" {
				ev["post"] = w.project().toMap()
			}
			tw.Emit(ev)
		}
		// a call under the remainder of a persistent write fault carries no plan of its own (spec: Plans)
		pick := func(op string) plan {
			if _, left := w.fdb.sticky(); left > 0 {
				return plan{K: "none"}
			}
			return randPlan(rng, op)
		}
		for s := 0; s < nsteps; s++ {
			w.step = s
			clock := int(w.net.slot.Load())
			ep := clock / spe
			ev := map[string]any{}
			x := rng.Intn(100)
			if s == 0 && rng.Intn(5) != 0 {
				x = 25 // most executions start by registering the share
			}
			switch {
			case x < 22 && clock < maxSlot:
				// one slot, or on to the next epoch (histories are meant to span six and more epochs)
				n := 1
				if rng.Intn(2) == 0 {
					n = spe
				}
				for k := 0; k < n && clock < maxSlot; k++ {
					clock++
					w.net.slot.Store(uint64(clock))
					if k < n-1 && clock < maxSlot {
						tw.Emit(map[string]any{"event": "Tick", "clock": clock})
					}
				}
				ev = map[string]any{"event": "Tick", "clock": clock}
			case x < 30:
				p := pick("AddShare")
				out, fired, _ := w.addShare(p)
				if !fired {
					p = plan{K: "none"}
				}
				ev = map[string]any{"event": "AddShare", "fault": p.toMap(), "res": out}
			case x < 38:
				p := pick("RemoveShare")
				out, fired, _ := w.removeShare(p)
				if !fired {
					p = plan{K: "none"}
				}
				ev = map[string]any{"event": "RemoveShare", "fault": p.toMap(), "res": out}
				if rng.Intn(10) < 7 {
					// removal and re-registration of the validator: the re-add follows (possibly epochs later)
					emitPost(ev)
					if rng.Intn(3) == 0 && clock+spe <= maxSlot {
						for k := 0; k < spe; k++ {
							clock++
							w.net.slot.Store(uint64(clock))
							tw.Emit(map[string]any{"event": "Tick", "clock": clock})
						}
					}
					p2 := pick("AddShare")
					out2, fired2, _ := w.addShare(p2)
					if !fired2 {
						p2 = plan{K: "none"}
					}
					ev = map[string]any{"event": "AddShare", "fault": p2.toMap(), "res": out2}
				}
			case x < 43:
				p := pick("Reactivate")
				out, fired, _ := w.reactivate(p)
				if !fired {
					p = plan{K: "none"}
				}
				ev = map[string]any{"event": "Reactivate", "fault": p.toMap(), "res": out}
			case x < 47:
				w.boot()
				ev = map[string]any{"event": "Restart"}
			case x < 75 && ep >= 1:
				t := 1 + rng.Intn(ep)
				if rng.Intn(2) == 0 {
					t = ep // the current epoch is what duties ask for most of the time
				}
				sEp := rng.Intn(t)
				if rng.Intn(2) == 0 && t >= 1 {
					sEp = t - 1
				}
				d := 1 + rng.Intn(2)
				p := pick("SignAtt")
				out, fired, _ := w.signAtt(sEp, t, d, p)
				if !fired {
					p = plan{K: "none"}
				}
				if out == "signed" {
					signed++
				}
				ev = map[string]any{"event": "SignAtt", "s": sEp, "t": t, "d": d, "fault": p.toMap(), "res": out}
				if out == "signed" && rng.Intn(3) == 0 {
					// the request the record just written is there to stop: same target, other data
					emitPost(ev)
					out2, _, _ := w.signAtt(sEp, t, 3-d, plan{K: "none"})
					ev = map[string]any{"event": "SignAtt", "s": sEp, "t": t, "d": 3 - d, "fault": plan{K: "none"}.toMap(), "res": out2}
				}
			default:
				slot := 1 + rng.Intn(clock)
				if rng.Intn(2) == 0 {
					slot = clock
				}
				d := 1 + rng.Intn(2)
				p := pick("SignBlk")
				out, fired, _ := w.signBlk(slot, d, p)
				if !fired {
					p = plan{K: "none"}
				}
				if out == "signed" {
					signed++
				}
				ev = map[string]any{"event": "SignBlk", "slot": slot, "d": d, "fault": p.toMap(), "res": out}
				if out == "signed" && rng.Intn(3) == 0 {
					emitPost(ev)
					out2, _, _ := w.signBlk(slot, 3-d, plan{K: "none"})
					ev = map[string]any{"event": "SignBlk", "slot": slot, "d": 3 - d, "fault": plan{K: "none"}.toMap(), "res": out2}
				}
			}
			emitPost(ev)
		}
		res.Behaviours++
		res.Steps += nsteps
		if signed >= 2 {
			res.Nontrivial++
		}
		res.Counters["released_attestations"] += len(w.atts)
		res.Counters["released_blocks"] += len(w.blks)
		w.close()
	}
	if err := tw.Close(); err != nil {
		panic(err)
	}
	res.Counters["recorded_events"] = tw.N
}

// ---------------------------------------------------------------------------------------------
// concurrent signing requests for one share (2..8 goroutines), monitor on the released set
// ---------------------------------------------------------------------------------------------

func concurrent(seed int64, rounds, spe int, res *vh.Result) {
	rng := rand.New(rand.NewSource(seed))
	for r := 0; r < rounds; r++ {
		beh := fmt.Sprintf("conc-%d", r)
		// own result and own database per round: requests stuck in the dependency's lock are abandoned with the
		// round (they may never touch the next round's state)
		local := vh.NewResult()
		w := newWorldDB(spe, local, beh, false)
		if out, _, err := w.addShare(plan{K: "none"}); out != "ok" {
			panic(fmt.Sprintf("AddShare failed: %v", err))
		}
		phases := 2 + rng.Intn(4)
		deadlocked := false
		for ph := 0; ph < phases && !deadlocked; ph++ {
			w.mu.Lock()
			w.step = ph
			w.mu.Unlock()
			clock := int(w.net.slot.Load()) + 1 + rng.Intn(spe+1)
			w.net.slot.Store(uint64(clock))
			ep := clock / spe
			type req struct {
				att     bool
				s, t, d int
			}
			mkAtt := func() req {
				t := ep
				if rng.Intn(4) == 0 {
					t = 1 + rng.Intn(ep)
				}
				s := t - 1
				if rng.Intn(3) == 0 {
					s = rng.Intn(t)
				}
				return req{true, s, t, 1 + rng.Intn(3)}
			}
			mkBlk := func() req {
				slot := clock
				if rng.Intn(4) == 0 {
					slot = 1 + rng.Intn(clock)
				}
				return req{false, 0, slot, 1 + rng.Intn(4)}
			}
			var reqs [][]req
			if rng.Intn(2) == 0 {
				// one attester and one proposer goroutine: the two duties use different account locks in
				// SimpleSigner and really overlap (shared: wallet lock, storage lock, database)
				var as, bs []req
				for j := 0; j < 2+rng.Intn(4); j++ {
					as = append(as, mkAtt())
					bs = append(bs, mkBlk())
				}
				reqs = [][]req{as, bs}
			} else {
				// 2..8 goroutines with mixed requests for the one share
				n := 2 + rng.Intn(7)
				reqs = make([][]req, n)
				for g := 0; g < n; g++ {
					for j := 0; j < 1+rng.Intn(3); j++ {
						if rng.Intn(3) != 0 {
							reqs[g] = append(reqs[g], mkAtt())
						} else {
							reqs[g] = append(reqs[g], mkBlk())
						}
					}
				}
			}
			km := w.km
			var wg sync.WaitGroup
			var progress int64
			start := make(chan struct{})
			for g := range reqs {
				wg.Add(1)
				go func(rs []req) {
					defer wg.Done()
					<-start
					for _, q := range rs {
						if q.att {
							sig, root, err := km.SignBeaconObject(w.attData(q.s, q.t, q.d), phase0.Domain{}, w.pk, spectypes.DomainAttester)
							if err == nil && len(sig) > 0 {
								w.releasedAtt(q.s, q.t, q.d, root, true, "")
							}
						} else {
							sig, root, err := km.SignBeaconObject(w.block(q.t, q.d), phase0.Domain{}, w.pk, spectypes.DomainProposer)
							if err == nil && len(sig) > 0 {
								w.releasedBlk(q.t, q.d, root, true, "")
							}
						}
						atomic.AddInt64(&progress, 1)
						atomic.AddInt64(&concCalls, 1)
					}
				}(reqs[g])
			}
			close(start)
			done := make(chan struct{})
			go func() { wg.Wait(); close(done) }()
			last, lastAt := int64(-1), time.Now()
		wait:
			for {
				select {
				case <-done:
					break wait
				case <-time.After(25 * time.Millisecond):
					if p := atomic.LoadInt64(&progress); p != last {
						last, lastAt = p, time.Now()
					} else if time.Since(lastAt) > 700*time.Millisecond {
						// SimpleSigner.lock/unlock (eth2-key-manager v1.4.0) deadlocks as soon as two requests
						// contend for one account lock: a liveness matter outside C04. The stuck requests never
						// return, hence never release a signature. The round ends here (one signer object per
						// database, always).
						deadlocked = true
						break wait
					}
				}
			}
			res.Counters["concurrent_phases"]++
			if deadlocked {
				res.Counters["phases_deadlocked"]++
			} else if rng.Intn(4) == 0 {
				w.boot() // restart between phases: a new signer object on the same database, nothing in flight
			}
		}
		w.mu.Lock() // late returns of an abandoned round serialise with this block
		if !deadlocked {
			// quiescent cross-check (conformance, not a verdict): the records cover everything released
			af, as, at := w.rawAtt()
			pf, pv := w.rawProp()
			for _, a := range w.atts {
				if !af || a.S > as || a.T > at {
					local.Diverge(beh, 0, "record-covers-released", fmt.Sprintf("att (%d,%d)", a.S, a.T), fmt.Sprintf("record f=%v (%d,%d)", af, as, at))
				}
			}
			for _, b := range w.blks {
				if !pf || b.Slot > pv {
					local.Diverge(beh, 0, "record-covers-released", fmt.Sprintf("block %d", b.Slot), fmt.Sprintf("record f=%v %d", pf, pv))
				}
			}
		}
		res.Counters["released_attestations"] += len(w.atts)
		res.Counters["released_blocks"] += len(w.blks)
		if len(w.atts)+len(w.blks) >= 2 {
			res.Nontrivial++
		}
		res.Violations = append(res.Violations, local.Violations...)
		res.Divergences = append(res.Divergences, local.Divergences...)
		res.Counters["violations"] += local.Counters["violations"]
		res.Counters["divergences"] += local.Counters["divergences"]
		w.res = vh.NewResult() // anything that returns after this point belongs to an abandoned round
		w.mu.Unlock()
		res.Behaviours++
		if !deadlocked {
			w.close()
		}
	}
	res.Steps += int(atomic.LoadInt64(&concCalls))
	res.Counters["concurrent_calls"] = int(atomic.LoadInt64(&concCalls))
}

var concCalls int64

// ---------------------------------------------------------------------------------------------

func probe() {
	res := vh.NewResult()
	w := newWorld(2, res, "probe")
	show := func(what string, out string, fired bool, err error) {
		_, log := w.fdb.disarm()
		fmt.Printf("%-28s -> %-8s fired=%v err=%v proj=%+v log=%v\n", what, out, fired, err, w.project(), log)
	}
	_ = show
	t0 := time.Now()
	o, f, e := w.addShare(plan{K: "none"})
	fmt.Println("AddShare", o, f, e, w.project(), w.fdb.log, time.Since(t0))
	w.net.slot.Store(4)
	o, f, e = w.signAtt(1, 2, 1, plan{K: "none"})
	fmt.Println("SignAtt(1,2,1)", o, f, e, w.project(), w.fdb.log)
	o, f, e = w.signAtt(1, 2, 1, plan{K: "none"})
	fmt.Println("SignAtt(1,2,1) repeat", o, f, e, w.project(), w.fdb.log)
	o, f, e = w.signBlk(4, 1, plan{K: "none"})
	fmt.Println("SignBlk(4,1)", o, f, e, w.project(), w.fdb.log)
	o, f, e = w.signBlk(4, 2, plan{K: "none"})
	fmt.Println("SignBlk(4,2)", o, f, e, w.project(), w.fdb.log)
	o, f, e = w.signBlk(4, 2, plan{K: "rempty", At: "prop", N: 1})
	fmt.Println("SignBlk(4,2) rempty@1", o, f, e, w.project(), w.fdb.log)
	w.net.slot.Store(6)
	o, f, e = w.signAtt(2, 3, 1, plan{K: "rempty", At: "att", N: 1})
	fmt.Println("SignAtt(2,3,1) rempty@1", o, f, e, w.project(), w.fdb.log)
	o, f, e = w.signAtt(2, 3, 1, plan{K: "crash", At: "att", N: 1})
	fmt.Println("SignAtt(2,3,1) crash@w", o, f, e, w.project(), w.fdb.log)
	o, f, e = w.signAtt(2, 3, 1, plan{K: "crashafter", At: "att", N: 1})
	fmt.Println("SignAtt(2,3,1) crashafter@w", o, f, e, w.project(), w.fdb.log)
	o, f, e = w.removeShare(plan{K: "crash", At: "acc", N: 1})
	fmt.Println("RemoveShare crash@acc", o, f, e, w.project(), w.fdb.log)
	o, f, e = w.addShare(plan{K: "crash", At: "wal", N: 1})
	fmt.Println("AddShare crash@wal", o, f, e, w.project(), w.fdb.log)
	o, f, e = w.addShare(plan{K: "none"})
	fmt.Println("AddShare", o, f, e, w.project(), w.fdb.log)
	o, f, e = w.removeShare(plan{K: "none"})
	fmt.Println("RemoveShare", o, f, e, w.project(), w.fdb.log)
	fmt.Println("violations:", res.Violations)
	// deadlock probe
	w2 := newWorld(2, res, "probe2")
	w2.addShare(plan{K: "none"})
	w2.net.slot.Store(20)
	var wg sync.WaitGroup
	for g := 0; g < 4; g++ {
		wg.Add(1)
		go func(g int) {
			defer wg.Done()
			for k := 0; k < 50; k++ {
				w2.km.SignBeaconObject(w2.attData(8, 9+g, 1), phase0.Domain{}, w2.pk, spectypes.DomainAttester)
			}
		}(g)
	}
	done := make(chan struct{})
	go func() { wg.Wait(); close(done) }()
	select {
	case <-done:
		fmt.Println("concurrent signing: finished")
	case <-time.After(3 * time.Second):
		fmt.Println("concurrent signing: DEADLOCK (no progress after 3s)")
	}
}

func main() {
	mode := flag.String("mode", "replay", "replay | record | concurrent | probe")
	in := flag.String("in", "", "behaviours NDJSON (replay)")
	out := flag.String("out", "", "result JSON")
	trace := flag.String("trace", "", "trace NDJSON to write (record)")
	seed := flag.Int64("seed", 1, "seed")
	runs := flag.Int("runs", 100, "number of own executions / concurrent rounds")
	spe := flag.Int("spe", 2, "slots per epoch of the virtual network")
	maxSlot := flag.Int("maxslot", 13, "last slot of own executions")
	flag.Parse()
	threshold.Init()
	res := vh.NewResult()
	switch *mode {
	case "probe":
		probe()
		return
	case "replay":
		behs, err := vh.ReadBehaviours(*in)
		if err != nil {
			fmt.Fprintln(os.Stderr, err)
			os.Exit(3)
		}
		for _, b := range behs {
			if res.Counters["violations"] > 30 && !strings.HasPrefix(b.ID, "attack") {
				continue
			}
			replay(b, *spe, res)
		}
		if len(behs) > 0 {
			res.Samples = append(res.Samples, behs[len(behs)/2])
		}
	case "record":
		record(*trace, *seed, *runs, *spe, *maxSlot, res)
	case "concurrent":
		concurrent(*seed, *runs, *spe, res)
	}
	if err := res.Write(*out); err != nil {
		fmt.Fprintln(os.Stderr, err)
		os.Exit(3)
	}
}
