package main

// Real objects of /repo the Registry spec is bound to: key material, ABI-packed contract logs, a node
// (operator storage + key manager + event handler on one in-memory badger) booted the way cli/operator/node.go
// boots it, and the projection of its real state onto the spec's state.

import (
	"context"
	"crypto/rand"
	"encoding/hex"
	"fmt"
	"math/big"
	"sort"
	"sync"
	"time"

	eth2apiv1 "github.com/attestantio/go-eth2-client/api/v1"
	"github.com/attestantio/go-eth2-client/spec/phase0"
	spectypes "github.com/bloxapp/ssv-spec/types"
	"github.com/dgraph-io/badger/v4"
	ethabi "github.com/ethereum/go-ethereum/accounts/abi"
	ethcommon "github.com/ethereum/go-ethereum/common"
	ethtypes "github.com/ethereum/go-ethereum/core/types"
	"github.com/ethereum/go-ethereum/crypto"
	"github.com/herumi/bls-eth-go-binary/bls"
	"go.uber.org/zap"

	"github.com/bloxapp/ssv/ekm"
	"github.com/bloxapp/ssv/eth/contract"
	"github.com/bloxapp/ssv/eth/eventhandler"
	"github.com/bloxapp/ssv/eth/eventparser"
	"github.com/bloxapp/ssv/eth/executionclient"
	ibftstorage "github.com/bloxapp/ssv/ibft/storage"
	"github.com/bloxapp/ssv/networkconfig"
	operatordatastore "github.com/bloxapp/ssv/operator/datastore"
	"github.com/bloxapp/ssv/operator/keys"
	operatorstorage "github.com/bloxapp/ssv/operator/storage"
	beaconprotocol "github.com/bloxapp/ssv/protocol/v2/blockchain/beacon"
	ssvtypes "github.com/bloxapp/ssv/protocol/v2/types"
	registrystorage "github.com/bloxapp/ssv/registry/storage"
	"github.com/bloxapp/ssv/storage/basedb"
	"github.com/bloxapp/ssv/storage/kv"
	"github.com/bloxapp/ssv/utils/threshold"

	"verif/harness/vh"
)

const decidedPrefix = "ATTESTER"

var (
	owners     = []string{"o1", "o2"}
	validators = []string{"v1", "v2"}
	opIDs      = []int{1, 2, 3, 4, 5}
)

// ---------------------------------------------------------------------------------------------------------
// key material, generated once per process

type material struct {
	selfKey    keys.OperatorPrivateKey
	selfPub    []byte // base64, as stored in OperatorData.PublicKey
	otherPub   []byte
	ownerAddr  map[string]ethcommon.Address
	opOwner    ethcommon.Address
	feeAddr    map[string]ethcommon.Address
	master     map[string]*bls.SecretKey // validator key: signs owner:nonce
	forger     map[string]*bls.SecretKey // another key: "bad" signatures
	valPK      map[string][]byte
	shareSK    map[string]map[int]*bls.SecretKey
	wrongSK    map[string]map[int]*bls.SecretKey
	abi        *ethabi.ABI
	parser     *eventparser.EventParser
	mu         sync.Mutex
	encCache   map[string][]byte
	sigCache   map[string][]byte
	sharePKtoV map[string]string
}

var mat *material

func newSK() *bls.SecretKey {
	sk := &bls.SecretKey{}
	sk.SetByCSPRNG()
	return sk
}

func initMaterial() error {
	threshold.Init()
	m := &material{ownerAddr: map[string]ethcommon.Address{}, feeAddr: map[string]ethcommon.Address{},
		master: map[string]*bls.SecretKey{}, forger: map[string]*bls.SecretKey{}, valPK: map[string][]byte{},
		shareSK: map[string]map[int]*bls.SecretKey{}, wrongSK: map[string]map[int]*bls.SecretKey{},
		encCache: map[string][]byte{}, sigCache: map[string][]byte{}, sharePKtoV: map[string]string{}}
	var err error
	if m.selfKey, err = keys.GeneratePrivateKey(); err != nil {
		return err
	}
	if m.selfPub, err = m.selfKey.Public().Base64(); err != nil {
		return err
	}
	other, err := keys.GeneratePrivateKey()
	if err != nil {
		return err
	}
	if m.otherPub, err = other.Public().Base64(); err != nil {
		return err
	}
	m.ownerAddr["o1"] = ethcommon.HexToAddress("0x00000000000000000000000000000000000000a1")
	m.ownerAddr["o2"] = ethcommon.HexToAddress("0x00000000000000000000000000000000000000a2")
	m.opOwner = ethcommon.HexToAddress("0x00000000000000000000000000000000000000b0")
	m.feeAddr["a"] = ethcommon.HexToAddress("0x00000000000000000000000000000000000000fa")
	m.feeAddr["b"] = ethcommon.HexToAddress("0x00000000000000000000000000000000000000fb")
	for _, v := range validators {
		m.master[v], m.forger[v] = newSK(), newSK()
		m.valPK[v] = m.master[v].GetPublicKey().Serialize()
		m.shareSK[v], m.wrongSK[v] = map[int]*bls.SecretKey{}, map[int]*bls.SecretKey{}
		for _, i := range opIDs {
			m.shareSK[v][i], m.wrongSK[v][i] = newSK(), newSK()
			m.sharePKtoV[hex.EncodeToString(m.shareSK[v][i].GetPublicKey().Serialize())] = v
			m.sharePKtoV[hex.EncodeToString(m.wrongSK[v][i].GetPublicKey().Serialize())] = v + "-wrong"
		}
	}
	if m.abi, err = contract.ContractMetaData.GetAbi(); err != nil {
		return err
	}
	filterer, err := contract.NewContractFilterer(ethcommon.Address{}, nil)
	if err != nil {
		return err
	}
	m.parser = eventparser.New(filterer)
	mat = m
	return nil
}

func (m *material) feeClassAddr(owner, fee string) ethcommon.Address {
	if fee == "own" {
		return m.ownerAddr[owner]
	}
	return m.feeAddr[fee]
}

func (m *material) enc(v string, i int, class string) []byte {
	k := fmt.Sprintf("%s/%d/%s", v, i, class)
	m.mu.Lock()
	defer m.mu.Unlock()
	if c, ok := m.encCache[k]; ok {
		return c
	}
	var c []byte
	switch class {
	case "undec":
		c = make([]byte, 256)
		_, _ = rand.Read(c)
		c[0] = 0 // below the modulus: a well-formed RSA input that does not decrypt to valid padding
	default:
		sk := m.shareSK[v][i]
		if class == "mismatch" {
			sk = m.wrongSK[v][i]
		}
		var err error
		c, err = m.selfKey.Public().Encrypt([]byte(sk.SerializeToHexStr()))
		if err != nil {
			panic(err)
		}
	}
	m.encCache[k] = c
	return c
}

func (m *material) sig(v, owner string, nonce int, good bool) []byte {
	k := fmt.Sprintf("%s/%s/%d/%v", v, owner, nonce, good)
	m.mu.Lock()
	defer m.mu.Unlock()
	if s, ok := m.sigCache[k]; ok {
		return s
	}
	data := fmt.Sprintf("%s:%d", m.ownerAddr[owner].String(), nonce)
	hash := crypto.Keccak256([]byte(data))
	sk := m.master[v]
	if !good {
		sk = m.forger[v]
	}
	s := sk.SignByte(hash).Serialize()
	m.sigCache[k] = s
	return s
}

// ---------------------------------------------------------------------------------------------------------
// abstract events (the spec's event records) and their contract logs

type event struct {
	K    string
	ID   int
	Key  string
	O    string
	V    string
	Comm []int
	Rel  int
	Sn   int
	Sig  string
	Len  string
	Enc  string
	Fee  string
}

func eventOf(m map[string]any) event {
	return event{K: vh.Str(m, "k"), ID: vh.Int(m, "id"), Key: vh.Str(m, "key"), O: vh.Str(m, "o"), V: vh.Str(m, "v"),
		Comm: vh.Ints(m, "comm"), Rel: vh.Int(m, "rel"), Sn: vh.Int(m, "sn"), Sig: vh.Str(m, "sig"), Len: vh.Str(m, "len"),
		Enc: vh.Str(m, "enc"), Fee: vh.Str(m, "fee")}
}

func (e event) toMap() map[string]any {
	comm := make([]any, len(e.Comm))
	for i, c := range e.Comm {
		comm[i] = c
	}
	return map[string]any{"k": e.K, "id": e.ID, "key": e.Key, "o": e.O, "v": e.V, "comm": comm, "rel": e.Rel, "sn": e.Sn,
		"sig": e.Sig, "len": e.Len, "enc": e.Enc, "fee": e.Fee}
}

func (e event) String() string {
	switch e.K {
	case "OpAdd":
		return fmt.Sprintf("OperatorAdded(%d,%s)", e.ID, e.Key)
	case "OpRem":
		return fmt.Sprintf("OperatorRemoved(%d)", e.ID)
	case "VAdd":
		return fmt.Sprintf("ValidatorAdded(%s,%s,%v,nonce=%d,sig=%s,len=%s,enc=%s)", e.O, e.V, e.Comm, e.Sn, e.Sig, e.Len, e.Enc)
	case "VRem":
		return fmt.Sprintf("ValidatorRemoved(%s,%s)", e.O, e.V)
	case "VExit":
		return fmt.Sprintf("ValidatorExited(%s,%s)", e.O, e.V)
	case "Liq":
		return fmt.Sprintf("ClusterLiquidated(%s,%v)", e.O, e.Comm)
	case "React":
		return fmt.Sprintf("ClusterReactivated(%s,%v)", e.O, e.Comm)
	case "Fee":
		return fmt.Sprintf("FeeRecipientAddressUpdated(%s,%s)", e.O, e.Fee)
	}
	return e.K
}

func u64s(xs []int) []uint64 {
	out := make([]uint64, len(xs))
	for i, x := range xs {
		out[i] = uint64(x)
	}
	return out
}

var cluster = contract.ISSVNetworkCoreCluster{ValidatorCount: 1, NetworkFeeIndex: 1, Index: 1, Active: true, Balance: big.NewInt(100)}

func addrTopic(a ethcommon.Address) ethcommon.Hash { return ethcommon.BytesToHash(a.Bytes()) }

func (m *material) buildLog(e event, block uint64, idx uint) (ethtypes.Log, error) {
	var name string
	var topics []ethcommon.Hash
	var args []any
	switch e.K {
	case "OpAdd":
		name = "OperatorAdded"
		pk := m.otherPub
		if e.Key == "self" {
			pk = m.selfPub
		}
		packed, err := eventparser.PackOperatorPublicKey(pk)
		if err != nil {
			return ethtypes.Log{}, err
		}
		topics = []ethcommon.Hash{ethcommon.BigToHash(big.NewInt(int64(e.ID))), addrTopic(m.opOwner)}
		args = []any{packed, big.NewInt(0)}
	case "OpRem":
		name = "OperatorRemoved"
		topics = []ethcommon.Hash{ethcommon.BigToHash(big.NewInt(int64(e.ID)))}
	case "VAdd":
		name = "ValidatorAdded"
		topics = []ethcommon.Hash{addrTopic(m.ownerAddr[e.O])}
		shares := append([]byte{}, m.sig(e.V, e.O, e.Sn, e.Sig == "ok")...)
		for _, i := range e.Comm {
			shares = append(shares, m.shareSK[e.V][i].GetPublicKey().Serialize()...)
		}
		for _, i := range e.Comm {
			shares = append(shares, m.enc(e.V, i, e.Enc)...)
		}
		if e.Len != "ok" {
			shares = append(shares, 0x01)
		}
		args = []any{u64s(e.Comm), m.valPK[e.V], shares, cluster}
	case "VRem":
		name = "ValidatorRemoved"
		topics = []ethcommon.Hash{addrTopic(m.ownerAddr[e.O])}
		args = []any{u64s([]int{1, 2, 3, 4}), m.valPK[e.V], cluster}
	case "VExit":
		name = "ValidatorExited"
		topics = []ethcommon.Hash{addrTopic(m.ownerAddr[e.O])}
		args = []any{u64s([]int{1, 2, 3, 4}), m.valPK[e.V]}
	case "Liq", "React":
		name = "ClusterLiquidated"
		if e.K == "React" {
			name = "ClusterReactivated"
		}
		topics = []ethcommon.Hash{addrTopic(m.ownerAddr[e.O])}
		args = []any{u64s(e.Comm), cluster}
	case "Fee":
		name = "FeeRecipientAddressUpdated"
		topics = []ethcommon.Hash{addrTopic(m.ownerAddr[e.O])}
		args = []any{m.feeClassAddr(e.O, e.Fee)}
	default:
		return ethtypes.Log{}, fmt.Errorf("unknown event kind %q", e.K)
	}
	ev, ok := m.abi.Events[name]
	if !ok {
		return ethtypes.Log{}, fmt.Errorf("no ABI event %s", name)
	}
	data, err := ev.Inputs.NonIndexed().Pack(args...)
	if err != nil {
		return ethtypes.Log{}, fmt.Errorf("pack %s: %w", name, err)
	}
	return ethtypes.Log{
		Address:     ethcommon.HexToAddress("0x4B133c68A084B8A88f72eDCd7944B69c8D545f03"),
		Topics:      append([]ethcommon.Hash{ev.ID}, topics...),
		Data:        data,
		BlockNumber: block,
		TxHash:      ethcommon.BigToHash(big.NewInt(int64(block)*1000 + int64(idx))),
		TxIndex:     idx,
		Index:       idx,
	}, nil
}

// ---------------------------------------------------------------------------------------------------------
// task executor stub: records what the handler hands over

type taskRec struct {
	mu    sync.Mutex
	tasks []string
	exits []string // validator names of ExitValidator tasks
}

func (t *taskRec) add(s string) {
	t.mu.Lock()
	t.tasks = append(t.tasks, s)
	t.mu.Unlock()
}
func (t *taskRec) StartValidator(share *ssvtypes.SSVShare) error { t.add("start"); return nil }
func (t *taskRec) StopValidator(pubKey spectypes.ValidatorPK) error { t.add("stop"); return nil }
func (t *taskRec) LiquidateCluster(owner ethcommon.Address, ids []uint64, s []*ssvtypes.SSVShare) error {
	t.add("liquidate")
	return nil
}
func (t *taskRec) ReactivateCluster(owner ethcommon.Address, ids []uint64, s []*ssvtypes.SSVShare) error {
	t.add("reactivate")
	return nil
}
func (t *taskRec) UpdateFeeRecipient(owner, recipient ethcommon.Address) error { t.add("fee"); return nil }
func (t *taskRec) ExitValidator(pubKey phase0.BLSPubKey, blockNumber uint64, validatorIndex phase0.ValidatorIndex) error {
	t.add("exit")
	t.mu.Lock()
	t.exits = append(t.exits, valName(pubKey[:]))
	t.mu.Unlock()
	return nil
}
func (t *taskRec) take() ([]string, []string) {
	t.mu.Lock()
	defer t.mu.Unlock()
	a, b := t.tasks, t.exits
	t.tasks, t.exits = nil, nil
	return a, b
}

func valName(pk []byte) string {
	for _, v := range validators {
		if hex.EncodeToString(mat.valPK[v]) == hex.EncodeToString(pk) {
			return v
		}
	}
	return "?" + hex.EncodeToString(pk)[:8]
}

// ---------------------------------------------------------------------------------------------------------
// a node on a surviving database

type node struct {
	raw   *kv.BadgerDB
	db    basedb.Database
	ns    operatorstorage.Storage
	ods   operatordatastore.OperatorDataStore
	km    kmFull
	eh    *eventhandler.EventHandler
	tasks *taskRec
	inj   *injector
}

var nopLogger = zap.NewNop()

// Opening an in-memory badger costs ~0.4 s (arena allocation); databases are pooled and emptied with
// DropAll between executions.
var (
	dbPoolMu sync.Mutex
	dbPool   []*kv.BadgerDB
)

func newRawDB() (*kv.BadgerDB, error) {
	defer timed("newdb", time.Now())
	dbPoolMu.Lock()
	if k := len(dbPool); k > 0 {
		raw := dbPool[k-1]
		dbPool = dbPool[:k-1]
		dbPoolMu.Unlock()
		return raw, nil
	}
	dbPoolMu.Unlock()
	return kv.NewInMemory(nopLogger, basedb.Options{Ctx: context.Background()})
}

// releaseDB empties the database (every key deleted, emptiness verified) and returns it to the pool.
func releaseDB(raw *kv.BadgerDB) {
	defer timed("wipe", time.Now())
	if raw == nil {
		return
	}
	db := raw.Badger()
	list := func() [][]byte {
		var keys [][]byte
		_ = db.View(func(txn *badger.Txn) error {
			opt := badger.DefaultIteratorOptions
			opt.PrefetchValues = false
			it := txn.NewIterator(opt)
			defer it.Close()
			for it.Rewind(); it.Valid(); it.Next() {
				keys = append(keys, it.Item().KeyCopy(nil))
			}
			return nil
		})
		return keys
	}
	keys := list()
	err := db.Update(func(txn *badger.Txn) error {
		for _, k := range keys {
			if err := txn.Delete(k); err != nil {
				return err
			}
		}
		return nil
	})
	if err != nil || len(list()) != 0 {
		_ = raw.Close()
		return
	}
	dbPoolMu.Lock()
	dbPool = append(dbPool, raw)
	dbPoolMu.Unlock()
}

// boot mirrors cli/operator/node.go: setupOperatorStorage (node storage, own operator data looked up by
// public key), key manager over the same db, event handler.
func boot(raw *kv.BadgerDB, inj *injector) (*node, error) {
	defer timed("boot", time.Now())
	n := &node{raw: raw, inj: inj, tasks: &taskRec{}}
	if inj != nil {
		n.db = &wdb{inner: raw, inj: inj}
	} else {
		n.db = raw
	}
	var err error
	if n.ns, err = operatorstorage.NewNodeStorage(nopLogger, n.db); err != nil {
		return nil, err
	}
	od, found, err := n.ns.GetOperatorDataByPubKey(nil, mat.selfPub)
	if err != nil {
		return nil, err
	}
	if !found {
		od = &registrystorage.OperatorData{PublicKey: mat.selfPub}
	}
	n.ods = operatordatastore.New(od)
	km, err := ekm.NewETHKeyManagerSigner(nopLogger, n.db, networkconfig.TestNetwork, true, "")
	if err != nil {
		return nil, err
	}
	full, ok := km.(kmFull)
	if !ok {
		return nil, fmt.Errorf("key manager does not implement ekm.StorageProvider")
	}
	n.km = full
	var kmForHandler spectypes.KeyManager = full
	if inj != nil {
		kmForHandler = &wkm{inner: full, inj: inj}
	}
	stores := ibftstorage.NewStores()
	stores.Add(spectypes.BNRoleAttester, ibftstorage.New(n.db, decidedPrefix))
	n.eh, err = eventhandler.New(n.ns, mat.parser, n.tasks, networkconfig.TestNetwork, n.ods, mat.selfKey, kmForHandler,
		nil, stores, eventhandler.WithFullNode())
	return n, err
}

type blockT struct {
	Num    int     `json:"num"`
	Events []event `json:"events"`
}

// deliver feeds one block through HandleBlockEventsStream (tasks executed by the stub).
// crashed = the injector killed the process inside.
func (n *node) deliver(b blockT, inject bool) (err error, crashed bool) {
	defer timed("deliver", time.Now())
	logs := make([]ethtypes.Log, 0, len(b.Events))
	for i, e := range b.Events {
		l, lerr := mat.buildLog(e, uint64(b.Num), uint(i))
		if lerr != nil {
			panic(lerr)
		}
		logs = append(logs, l)
	}
	ch := make(chan executionclient.BlockLogs, 1)
	ch <- executionclient.BlockLogs{BlockNumber: uint64(b.Num), Logs: logs}
	close(ch)
	if n.inj != nil && inject {
		n.inj.mu.Lock()
		n.inj.active = true
		n.inj.mu.Unlock()
		defer func() {
			n.inj.mu.Lock()
			n.inj.active = false
			n.inj.mu.Unlock()
		}()
	}
	defer func() {
		if r := recover(); r != nil {
			if _, ok := r.(crashSentinel); ok {
				crashed = true
				return
			}
			panic(r)
		}
	}()
	_, err = n.eh.HandleBlockEventsStream(ch, true)
	return err, false
}

// lastProcessed reads the resume point as setupEventHandling does.
func (n *node) lastProcessed() int {
	b, found, err := n.ns.GetLastProcessedBlock(nil)
	if err != nil || !found || b == nil {
		return 0
	}
	return int(b.Uint64())
}

// updateMetadata plays the validator controller: every stored share gets beacon metadata.
func (n *node) updateMetadata() {
	for _, s := range n.ns.Shares().List(nil) {
		if s.BeaconMetadata == nil {
			_ = n.ns.Shares().UpdateValidatorMetadata(hex.EncodeToString(s.ValidatorPubKey),
				&beaconprotocol.ValidatorMetadata{Index: 7, Status: eth2apiv1.ValidatorStateActiveOngoing})
		}
	}
}

// ---------------------------------------------------------------------------------------------------------
// projection of the real state onto the spec's state

type shareP struct {
	On    bool   `json:"on"`
	Owner string `json:"owner"`
	Comm  []int  `json:"comm"`
	Mine  bool   `json:"mine"`
	Liq   bool   `json:"liq"`
	Meta  bool   `json:"meta"`
}
type rcptP struct {
	On    bool   `json:"on"`
	Nonce int    `json:"nonce"`
	Fee   string `json:"fee"`
}
type regP struct {
	Ops    []string          `json:"ops"`
	Shares map[string]shareP `json:"shares"`
	Rcpt   map[string]rcptP  `json:"rcpt"`
	Last   int               `json:"last"`
}
type projT struct {
	Db       regP              `json:"db"`
	Mem      map[string]shareP `json:"mem"`      // the handler's in-memory share map
	Own      int               `json:"own"`      // the handler's in-memory own operator id
	Fresh    map[string]shareP `json:"fresh"`    // share map of a storage freshly opened on the db
	FreshOwn int               `json:"freshOwn"` // own operator id as a restart would derive it
	Ks       map[string]bool   `json:"ks"`
	Accounts map[string]int    `json:"accounts"` // stored wallet accounts per validator (incl. unindexed ones)
	Sp       map[string]bool   `json:"sp"`       // slashing-protection records present
	Extra    []string          `json:"extra"`    // anything the projection cannot name
}

func ownerName(a ethcommon.Address) string {
	for _, o := range owners {
		if mat.ownerAddr[o] == a {
			return o
		}
	}
	return "?" + a.Hex()
}

func projShare(s *ssvtypes.SSVShare, own uint64) (string, shareP) {
	p := shareP{On: true, Owner: ownerName(s.OwnerAddress), Liq: s.Liquidated, Meta: s.BeaconMetadata != nil, Comm: []int{}}
	for _, c := range s.Committee {
		p.Comm = append(p.Comm, int(c.OperatorID))
	}
	p.Mine = s.OperatorID != 0
	_ = own
	return valName(s.ValidatorPubKey), p
}

func emptyShares() map[string]shareP {
	m := map[string]shareP{}
	for _, v := range validators {
		m[v] = shareP{Comm: []int{}}
	}
	return m
}

func (n *node) project() projT {
	defer timed("project", time.Now())
	p := projT{Mem: emptyShares(), Fresh: emptyShares(), Ks: map[string]bool{}, Accounts: map[string]int{}, Sp: map[string]bool{}, Extra: []string{}}
	p.Db = regP{Ops: make([]string, len(opIDs)), Shares: emptyShares(), Rcpt: map[string]rcptP{}}
	// committed db, read through a storage freshly opened on the raw database (= what a restart sees)
	fresh, err := operatorstorage.NewNodeStorage(nopLogger, n.raw)
	if err != nil {
		p.Extra = append(p.Extra, "fresh storage: "+err.Error())
		return p
	}
	for k, id := range opIDs {
		od, found, err := fresh.GetOperatorData(nil, uint64(id))
		switch {
		case err != nil:
			p.Db.Ops[k] = "err:" + err.Error()
		case !found:
			p.Db.Ops[k] = "none"
		case string(od.PublicKey) == string(mat.selfPub):
			p.Db.Ops[k] = "self"
		case string(od.PublicKey) == string(mat.otherPub):
			p.Db.Ops[k] = "other"
		default:
			p.Db.Ops[k] = "?"
		}
	}
	if all, err := fresh.ListOperators(nil, 0, 0); err == nil {
		for _, od := range all {
			if od.ID < 1 || od.ID > uint64(len(opIDs)) {
				p.Extra = append(p.Extra, fmt.Sprintf("operator id %d", od.ID))
			}
		}
	}
	for _, s := range fresh.Shares().List(nil) {
		v, sp := projShare(s, 0)
		if _, ok := p.Fresh[v]; !ok {
			p.Extra = append(p.Extra, "share "+v)
			continue
		}
		p.Fresh[v] = sp
		p.Db.Shares[v] = sp
	}
	for _, o := range owners {
		rd, found, err := fresh.GetRecipientData(nil, mat.ownerAddr[o])
		if err != nil {
			p.Extra = append(p.Extra, "recipient "+o+": "+err.Error())
			continue
		}
		if !found {
			p.Db.Rcpt[o] = rcptP{}
			continue
		}
		next, _ := fresh.GetNextNonce(nil, mat.ownerAddr[o])
		fee := "?" + hex.EncodeToString(rd.FeeRecipient[:])
		switch ethcommon.Address(rd.FeeRecipient) {
		case mat.ownerAddr[o]:
			fee = "own"
		case mat.feeAddr["a"]:
			fee = "a"
		case mat.feeAddr["b"]:
			fee = "b"
		}
		p.Db.Rcpt[o] = rcptP{On: true, Nonce: int(next), Fee: fee}
	}
	if b, found, err := fresh.GetLastProcessedBlock(nil); err == nil && found && b != nil {
		p.Db.Last = int(b.Uint64())
	}
	if od, found, err := fresh.GetOperatorDataByPubKey(nil, mat.selfPub); err == nil && found {
		p.FreshOwn = int(od.ID)
	}
	// the running handler's memory
	for _, s := range n.ns.Shares().List(nil) {
		v, sp := projShare(s, 0)
		if _, ok := p.Mem[v]; !ok {
			p.Extra = append(p.Extra, "mem share "+v)
			continue
		}
		p.Mem[v] = sp
	}
	p.Own = int(n.ods.GetOperatorID())
	// key manager: what is stored
	for _, v := range validators {
		p.Ks[v], p.Sp[v], p.Accounts[v] = false, false, 0
	}
	{
		// ListAccounts / RetrieveHighest* read the signer storage (the database), not the wallet's memory
		sp := n.km
		accs, _ := sp.ListAccounts()
		for _, a := range accs {
			v, ok := mat.sharePKtoV[hex.EncodeToString(a.ValidatorPublicKey())]
			if !ok || len(v) != 2 {
				p.Extra = append(p.Extra, "account "+v)
				continue
			}
			p.Accounts[v]++
		}
		// indexed (usable) accounts: what AddShare / RemoveShare / signing see
		for _, v := range validators {
			for _, i := range opIDs {
				pk := mat.shareSK[v][i].GetPublicKey().Serialize()
				if _, found, _ := sp.RetrieveHighestAttestation(pk); found {
					p.Sp[v] = true
				}
				if _, found, _ := sp.RetrieveHighestProposal(pk); found {
					p.Sp[v] = true
				}
			}
		}
	}
	for _, v := range validators {
		p.Ks[v] = p.Accounts[v] > 0
	}
	sort.Strings(p.Extra)
	return p
}

// ---------------------------------------------------------------------------------------------------------
// the spec's state, decoded from the behaviour file

func decShare(m map[string]any) shareP {
	s := shareP{On: vh.Bool(m, "on"), Owner: vh.Str(m, "owner"), Comm: vh.Ints(m, "comm"), Mine: vh.Bool(m, "mine"),
		Liq: vh.Bool(m, "liq"), Meta: vh.Bool(m, "meta")}
	if s.Comm == nil {
		s.Comm = []int{}
	}
	return s
}
func decShares(m map[string]any) map[string]shareP {
	out := map[string]shareP{}
	for _, v := range validators {
		out[v] = decShare(vh.Map(m, v))
	}
	return out
}
func decReg(m map[string]any) regP {
	r := regP{Shares: decShares(vh.Map(m, "shares")), Rcpt: map[string]rcptP{}, Last: vh.Int(m, "last")}
	for _, x := range vh.List(m, "ops") {
		s, _ := x.(string)
		r.Ops = append(r.Ops, s)
	}
	rc := vh.Map(m, "rcpt")
	for _, o := range owners {
		om := vh.Map(rc, o)
		r.Rcpt[o] = rcptP{On: vh.Bool(om, "on"), Nonce: vh.Int(om, "nonce"), Fee: vh.Str(om, "fee")}
	}
	return r
}
func decKs(m map[string]any) map[string]bool {
	out := map[string]bool{}
	for _, v := range validators {
		out[v] = vh.Bool(m, v)
	}
	return out
}

func eqShare(a, b shareP, withMeta bool) bool {
	if a.On != b.On {
		return false
	}
	if !a.On {
		return true
	}
	if a.Owner != b.Owner || a.Mine != b.Mine || a.Liq != b.Liq || len(a.Comm) != len(b.Comm) || (withMeta && a.Meta != b.Meta) {
		return false
	}
	for i := range a.Comm {
		if a.Comm[i] != b.Comm[i] {
			return false
		}
	}
	return true
}

func eqRcpt(a, b rcptP) bool {
	if a.On != b.On {
		return false
	}
	return !a.On || (a.Nonce == b.Nonce && a.Fee == b.Fee)
}

// diffReg names the first registry field in which two registries differ ("" = equal).
func diffReg(a, b regP, withMeta, withLast bool) string {
	for i := range a.Ops {
		if i >= len(b.Ops) || a.Ops[i] != b.Ops[i] {
			return "operators"
		}
	}
	for _, v := range validators {
		if !eqShare(a.Shares[v], b.Shares[v], withMeta) {
			if a.Shares[v].On && b.Shares[v].On && a.Shares[v].Liq != b.Shares[v].Liq {
				return "liquidated"
			}
			return "shares"
		}
	}
	for _, o := range owners {
		if !eqRcpt(a.Rcpt[o], b.Rcpt[o]) {
			if a.Rcpt[o].On && b.Rcpt[o].On && a.Rcpt[o].Nonce != b.Rcpt[o].Nonce {
				return "nonce"
			}
			return "recipients"
		}
	}
	if withLast && a.Last != b.Last {
		return "lastblock"
	}
	return ""
}

func diffShares(a, b map[string]shareP, withMeta bool) string {
	for _, v := range validators {
		if !eqShare(a[v], b[v], withMeta) {
			return v
		}
	}
	return ""
}
