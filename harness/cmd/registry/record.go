package main

// mode record: the driver's own seeded random chains on the real event handler. One trace event per public
// interaction (Setup / Proc / EndBlock / Reboot) with the projected real state at every block boundary, for
// TLC trace validation against RegistryTrace.tla; the real-vs-real monitors run on the same chains.

import (
	"fmt"
	"math/rand"

	"verif/harness/vh"
)

func opAdd(id int, key string) event { return event{K: "OpAdd", ID: id, Key: key, Comm: []int{}} }

var goSetups = [][]event{
	{},
	{opAdd(1, "self"), opAdd(2, "other"), opAdd(3, "other"), opAdd(4, "other")},
	{opAdd(1, "self"), opAdd(2, "other"), opAdd(3, "other"), opAdd(4, "other"), opAdd(5, "other")},
	{opAdd(1, "other"), opAdd(2, "other"), opAdd(3, "other"), opAdd(4, "other"), opAdd(5, "other")},
	{opAdd(1, "other"), opAdd(2, "other"), opAdd(3, "other"), opAdd(4, "other"), opAdd(5, "self")},
	{opAdd(2, "other"), opAdd(3, "other"), opAdd(4, "other")},
	{opAdd(3, "self"), opAdd(1, "other"), opAdd(2, "other"), opAdd(4, "other"), opAdd(5, "other")},
}

var goComms = [][]int{{1, 2, 3, 4}, {2, 3, 4, 5}, {4, 3, 2, 1}, {1, 1, 2, 3}, {1, 2, 3}, {1, 2, 3, 4, 5}, {1, 3, 4, 5}, {5, 2, 1, 3}}

func pick(rng *rand.Rand, xs ...string) string { return xs[rng.Intn(len(xs))] }

func randEvent(rng *rand.Rand, attempts map[string]int) event {
	o := owners[rng.Intn(2)]
	v := validators[rng.Intn(2)]
	comm := append([]int{}, goComms[rng.Intn(len(goComms))]...)
	if rng.Intn(3) > 0 {
		comm = append([]int{}, goComms[rng.Intn(3)]...)
	}
	switch x := rng.Intn(100); {
	case x < 42:
		e := event{K: "VAdd", O: o, V: v, Comm: comm, Sig: "ok", Len: "ok", Enc: "ok"}
		switch y := rng.Intn(10); {
		case y == 0 && attempts[o] > 0:
			e.Rel = -1
		case y == 1:
			e.Rel = 1
		}
		if rng.Intn(10) == 0 {
			e.Sig = "bad"
		}
		if rng.Intn(12) == 0 {
			e.Len = "bad"
		}
		if y := rng.Intn(10); y < 2 {
			e.Enc = []string{"undec", "mismatch"}[y]
		}
		e.Sn = attempts[o] + e.Rel
		attempts[o]++
		return e
	case x < 57:
		return event{K: "VRem", O: o, V: v, Comm: []int{}}
	case x < 65:
		return event{K: "VExit", O: o, V: v, Comm: []int{}}
	case x < 73:
		return event{K: "Liq", O: o, Comm: comm}
	case x < 81:
		return event{K: "React", O: o, Comm: comm}
	case x < 89:
		return event{K: "Fee", O: o, Fee: pick(rng, "a", "b", "own"), Comm: []int{}}
	case x < 97:
		return opAdd(1+rng.Intn(5), pick(rng, "self", "other", "other"))
	default:
		return event{K: "OpRem", ID: 1 + rng.Intn(5), Comm: []int{}}
	}
}

func evMaps(es []event) []any {
	out := make([]any, len(es))
	for i, e := range es {
		out[i] = e.toMap()
	}
	return out
}

func boundaryLine(name string, num int, p projT) map[string]any {
	return map[string]any{"event": name, "n": num, "db": p.Db, "mem": p.Mem, "own": p.Own, "ks": p.Ks}
}

func recordOne(id string, rng *rand.Rand, a *agg) []map[string]any {
	var lines []map[string]any
	beh := vh.Behaviour{ID: id, Kind: "own"}
	raw, err := newRawDB()
	if err != nil {
		panic(err)
	}
	defer releaseDB(raw)
	n, err := boot(raw, nil)
	if err != nil {
		panic(err)
	}
	attempts := map[string]int{}
	setup := goSetups[rng.Intn(len(goSetups))]
	fail := func(what string, err error) []map[string]any {
		a.diverge(id, len(lines), what, nil, fmt.Sprint(err))
		return nil
	}
	if err, _ := n.deliver(blockT{Num: 1, Events: setup}, false); err != nil {
		return fail("handler-error", err)
	}
	n.tasks.take()
	n.updateMetadata()
	l := boundaryLine("Setup", 1, n.project())
	l["events"] = evMaps(setup)
	lines = append(lines, l)
	beh.Steps = append(beh.Steps, vh.Step{Act: map[string]any{"name": "Setup", "events": evMaps(setup)}})
	nblocks := 1 + rng.Intn(4)
	for b := 0; b < nblocks; b++ {
		num := 2 + b
		var evs []event
		for k := rng.Intn(4); k > 0; k-- {
			e := randEvent(rng, attempts)
			evs = append(evs, e)
			lines = append(lines, map[string]any{"event": "Proc", "e": e.toMap()})
			beh.Steps = append(beh.Steps, vh.Step{Act: map[string]any{"name": "Proc", "e": e.toMap(), "task": ""}})
		}
		if err, _ := n.deliver(blockT{Num: num, Events: evs}, false); err != nil {
			return fail("handler-error", err)
		}
		n.tasks.take()
		n.updateMetadata()
		lines = append(lines, boundaryLine("EndBlock", num, n.project()))
		beh.Steps = append(beh.Steps, vh.Step{Act: map[string]any{"name": "EndBlock", "n": float64(num)}})
		if rng.Intn(5) == 0 {
			if n, err = boot(raw, nil); err != nil {
				return fail("reboot", err)
			}
			lines = append(lines, boundaryLine("Reboot", num, n.project()))
			beh.Steps = append(beh.Steps, vh.Step{Act: map[string]any{"name": "Reboot"}})
		}
	}
	// the real-vs-real monitors (memory = db, restart, last block, batching independence) on the same chain
	replayOne(beh, a)
	return lines
}

func record(a *agg, seed int64, runs int, trace string, workers int) {
	all := make([][]map[string]any, runs)
	parallel(workers, runs, func(i int) {
		all[i] = recordOne(fmt.Sprintf("own-%d-%d", seed, i), rand.New(rand.NewSource(seed*1000003+int64(i))), a)
	})
	tw, err := vh.NewTraceWriter(trace)
	if err != nil {
		panic(err)
	}
	n := 0
	for _, ls := range all {
		if ls == nil {
			continue
		}
		n++
		for _, l := range ls {
			tw.Emit(l)
		}
	}
	if err := tw.Close(); err != nil {
		panic(err)
	}
	a.res.Behaviours = n
	a.res.Counters["trace_events"] = tw.N
}
