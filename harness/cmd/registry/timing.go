package main

import (
	"sync"
	"time"
)

var (
	timMu sync.Mutex
	tim   = map[string]time.Duration{}
)

func timed(k string, t0 time.Time) {
	timMu.Lock()
	tim[k] += time.Since(t0)
	timMu.Unlock()
}
