// Driver for spec/Registry.tla (C11, C12): replays TLC behaviours on the real eth/eventhandler over real
// operator storage, key manager and decided store on one in-memory badger, with real BLS owner signatures and
// RSA-encrypted share keys in ABI-packed contract logs.
//
//	-mode replay   event-grain behaviours (C11: cover / simulation / attack traces, Reboot, StaleBlock)
//	-mode crash    op-grain behaviours of the crash sub-spec (C12): the behaviour's chain is rebuilt and its
//	               Crash / Fail steps become faults at the corresponding model-visible operation
//	-mode faults   every operation index observed in a clean run of each behaviour's chain becomes a crash
//	               point and an error point (C12, exhaustive per chain)
//	-mode record   seeded random chains on the real handler, one trace event per processed block, for TLC
//	               trace validation (RegistryTrace.tla)
package main

import (
	"encoding/json"
	"errors"
	"flag"
	"fmt"
	"math/rand"
	"os"
	"reflect"
	"sort"
	"strings"
	"sync"

	"github.com/bloxapp/ssv/eth/eventhandler"

	"verif/harness/vh"
)

type agg struct {
	mu   sync.Mutex
	res  *vh.Result
	seen map[string]bool // distinct non-trivial cases
}

// nontrivialCase counts a non-trivial case once (distinct by key).
func (a *agg) nontrivialCase(key string) {
	a.mu.Lock()
	if a.seen == nil {
		a.seen = map[string]bool{}
	}
	if !a.seen[key] {
		a.seen[key] = true
		a.res.Counters["nontrivial"]++
	}
	a.mu.Unlock()
}

func (a *agg) violate(sig, desc, beh string, step int) {
	a.mu.Lock()
	a.res.Violate(sig, desc, beh, step)
	a.mu.Unlock()
}
func (a *agg) diverge(beh string, step int, field string, spec, real any) {
	a.mu.Lock()
	a.res.Diverge(beh, step, field, spec, real)
	a.mu.Unlock()
}
func (a *agg) count(k string, n int) {
	a.mu.Lock()
	a.res.Counters[k] += n
	a.mu.Unlock()
}
func (a *agg) note(s string) {
	a.mu.Lock()
	if len(a.res.Notes) < 40 {
		a.res.Notes = append(a.res.Notes, s)
	}
	a.mu.Unlock()
}

func js(v any) string {
	b, _ := json.Marshal(v)
	return string(b)
}

// ---------------------------------------------------------------------------------------------------------
// chains

func eventsOf(l []any) []event {
	out := []event{}
	for _, x := range l {
		if m, ok := x.(map[string]any); ok {
			out = append(out, eventOf(m))
		}
	}
	return out
}

// chainOf rebuilds the chain (blocks of events) a behaviour describes, independent of crashes/redeliveries.
func chainOf(b vh.Behaviour) []blockT {
	var chain []blockT
	opGrain := isOpGrain(b)
	cur := blockT{Num: 2, Events: []event{}}
	for _, st := range b.Steps {
		a := st.Act
		switch vh.Str(a, "name") {
		case "Setup":
			chain = append(chain, blockT{Num: 1, Events: eventsOf(vh.List(a, "events"))})
		case "Proc":
			if !vh.Bool(a, "redo") {
				cur.Events = append(cur.Events, eventOf(vh.Map(a, "e")))
			}
		case "EndBlock":
			cur.Num = vh.Int(a, "n")
			if !opGrain {
				chain = append(chain, cur)
				cur = blockT{Num: cur.Num + 1, Events: []event{}}
			}
		case "Step":
			if vh.Str(a, "t") == "commit" {
				chain = append(chain, cur)
				cur = blockT{Num: cur.Num + 1, Events: []event{}}
			}
		case "Crash", "Fail":
			// under a weakened marker the spec may skip the block; the real chain is what was delivered
		}
	}
	if len(cur.Events) > 0 {
		if len(chain) > 0 && cur.Num <= chain[len(chain)-1].Num {
			cur.Num = chain[len(chain)-1].Num + 1
		}
		chain = append(chain, cur)
	}
	return chain
}

func isOpGrain(b vh.Behaviour) bool {
	for _, st := range b.Steps {
		if vh.Str(st.Act, "name") == "Step" {
			return true
		}
		if vh.Str(st.Act, "name") == "Proc" {
			if _, ok := st.Act["effs"]; ok {
				return true
			}
		}
	}
	return false
}

func nontrivial(chain []blockT) bool {
	n := 0
	for _, b := range chain[1:] {
		for _, e := range b.Events {
			if e.K == "VAdd" || e.K == "VRem" || e.K == "Liq" || e.K == "React" {
				n++
			}
		}
	}
	return n >= 1
}

// ---------------------------------------------------------------------------------------------------------
// final states and their comparison (real vs real)

type finalT struct {
	Db       regP
	Mem      map[string]shareP
	Own      int
	Ks       map[string]bool
	Accounts map[string]int
	Sp       map[string]bool
}

func finalOf(p projT) finalT {
	return finalT{p.Db, p.Mem, p.Own, p.Ks, p.Accounts, p.Sp}
}

// diffFinal names what differs between two real final states ("" = equal).
func diffFinal(a, b finalT, withLast bool) string {
	if d := diffReg(a.Db, b.Db, true, withLast); d != "" {
		return d
	}
	if d := diffShares(a.Mem, b.Mem, true); d != "" {
		return "memory"
	}
	if a.Own != b.Own {
		return "own-operator-id"
	}
	for _, v := range validators {
		if a.Ks[v] != b.Ks[v] {
			return "keyshares"
		}
	}
	for _, v := range validators {
		if a.Accounts[v] != b.Accounts[v] {
			return "wallet-accounts"
		}
	}
	for _, v := range validators {
		if a.Sp[v] != b.Sp[v] {
			return "slashing-records"
		}
	}
	return ""
}

// runClean processes a chain without faults on a fresh database.
func runClean(chain []blockT, inj *injector) (finalT, *node, error) {
	raw, err := newRawDB()
	if err != nil {
		return finalT{}, nil, err
	}
	n, err := boot(raw, inj)
	if err != nil {
		return finalT{}, nil, err
	}
	for i, b := range chain {
		// the setup block is not subject to faults
		err, crashed := n.deliver(b, i > 0)
		if err != nil || crashed {
			return finalT{}, n, fmt.Errorf("clean run: block %d: err=%v crashed=%v", b.Num, err, crashed)
		}
		n.tasks.take()
		n.updateMetadata()
	}
	return finalOf(n.project()), n, nil
}

// ---------------------------------------------------------------------------------------------------------
// mode replay (C11)

func replayOne(b vh.Behaviour, a *agg) {
	raw, err := newRawDB()
	if err != nil {
		panic(err)
	}
	defer releaseDB(raw)
	var n *node
	var pending []event
	var predTasks []string
	var lastExp map[string]any
	multi := false
	attack := strings.HasPrefix(b.Kind, "attack") || b.Kind == "own" // no mechanism prediction to conform to
	steps := 0

	check := func(step int, st vh.Step, blockNum int, conform bool) projT {
		real := n.project()
		// --- property monitors (real outputs; the rules are the spec's Expected, evaluated by TLC) ---
		if exp := vh.Map(st.State, "exp"); exp != nil {
			rules := decReg(exp)
			if d := diffReg(real.Db, rules, false, false); d != "" {
				a.violate("registry-differs-from-rules:"+d, fmt.Sprintf("after block %d the persisted registry is not what the registration rules prescribe (%s): real=%s rules=%s",
					blockNum, d, js(real.Db), js(rules)), b.ID, step)
			}
			rks := decKs(vh.Map(exp, "ks"))
			for _, v := range validators {
				if rks[v] != real.Ks[v] {
					a.violate("registry-differs-from-rules:keyshares", fmt.Sprintf("after block %d stored key share of %s: real=%v rules=%v", blockNum, v, real.Ks[v], rks[v]), b.ID, step)
				}
			}
		}
		if d := diffShares(real.Mem, real.Db.Shares, true); d != "" {
			a.violate("memory-differs-from-db", fmt.Sprintf("after block %d the in-memory share of %s differs from the database: mem=%s db=%s",
				blockNum, d, js(real.Mem[d]), js(real.Db.Shares[d])), b.ID, step)
		}
		if real.Own != real.FreshOwn {
			a.violate("restart-differs", fmt.Sprintf("after block %d the own operator id in memory is %d, a restart would derive %d", blockNum, real.Own, real.FreshOwn), b.ID, step)
		}
		if blockNum > 0 && real.Db.Last != blockNum {
			a.violate("last-block-wrong", fmt.Sprintf("after processing block %d the recorded last processed block is %d", blockNum, real.Db.Last), b.ID, step)
		}
		// --- conformance with the mechanism part of the spec (divergence only) ---
		if len(real.Extra) > 0 {
			a.diverge(b.ID, step, "extra", nil, real.Extra)
		}
		for _, v := range validators {
			if real.Accounts[v] > 1 || real.Sp[v] != real.Ks[v] {
				a.diverge(b.ID, step, "keymanager", nil, map[string]any{"accounts": real.Accounts, "sp": real.Sp})
				break
			}
		}
		if conform && st.State != nil {
			if dbm := vh.Map(st.State, "db"); dbm != nil {
				sdb := decReg(dbm)
				if d := diffReg(real.Db, sdb, true, true); d != "" {
					a.diverge(b.ID, step, "db."+d, sdb, real.Db)
				}
			}
			if mm := vh.Map(st.State, "mem"); mm != nil {
				if d := diffShares(real.Mem, decShares(vh.Map(mm, "shares")), true); d != "" {
					a.diverge(b.ID, step, "mem.shares."+d, vh.Map(mm, "shares"), real.Mem)
				}
				if vh.Int(mm, "own") != real.Own {
					a.diverge(b.ID, step, "mem.own", vh.Int(mm, "own"), real.Own)
				}
			}
			if km := vh.Map(st.State, "ks"); km != nil {
				if !reflect.DeepEqual(decKs(km), real.Ks) {
					a.diverge(b.ID, step, "ks", km, real.Ks)
				}
			}
		}
		return real
	}

	closeBlock := func(step int, st vh.Step, num int, conform bool) bool {
		ownersBefore := map[string]string{}
		for _, s := range n.ns.Shares().List(nil) {
			v, sp := projShare(s, 0)
			ownersBefore[v] = sp.Owner
		}
		blk := blockT{Num: num, Events: pending}
		if len(pending) > 1 {
			multi = true
		}
		err, _ := n.deliver(blk, false)
		if err != nil {
			// cli/operator/node.go ends in logger.Fatal on any handler error: the node restarts on the same
			// database and resumes after the recorded last processed block
			a.count("handler_errors", 1)
			a.diverge(b.ID, step, "handler-error", nil, err.Error())
			n.tasks.take()
			n2, berr := boot(raw, nil)
			if berr != nil {
				a.violate("restart-differs", "after a handler error no node can be booted on the database: "+berr.Error(), b.ID, step)
				return false
			}
			n = n2
			if n.lastProcessed() < num {
				if err2, _ := n.deliver(blk, false); err2 != nil {
					a.violate("registry-differs-from-rules:block-refused", fmt.Sprintf("block %d of well-formed contract logs is refused with an error, also after a restart (%v; %v): the registry can never become what the rules prescribe; block=%s",
						num, err, err2, chainString([]blockT{blk})), b.ID, step)
					return false
				}
			}
		}
		tasks, exits := n.tasks.take()
		for _, v := range exits {
			ok := false
			for _, e := range pending {
				if e.K == "VExit" && e.V == v && e.O == ownersBefore[v] {
					ok = true
				}
			}
			if !ok {
				a.violate("registry-differs-from-rules:exit-by-non-owner", fmt.Sprintf("block %d: an exit task was issued for %s (owner %s) without an exit event of its owner", num, v, ownersBefore[v]), b.ID, step)
			}
		}
		if conform && !reflect.DeepEqual(append([]string{}, tasks...), append([]string{}, predTasks...)) && !(len(tasks) == 0 && len(predTasks) == 0) {
			a.diverge(b.ID, step, "tasks", predTasks, tasks)
		}
		n.updateMetadata()
		pending, predTasks = nil, nil
		check(step, st, num, conform)
		return true
	}

	nextNum := 2
	for i, st := range b.Steps {
		act := st.Act
		steps++
		switch vh.Str(act, "name") {
		case "Setup":
			n, err = boot(raw, nil)
			if err != nil {
				panic(err)
			}
			pending = eventsOf(vh.List(act, "events"))
			if !closeBlock(i, st, 1, true) {
				return
			}
			multi = false
		case "Proc":
			pending = append(pending, eventOf(vh.Map(act, "e")))
			if t := vh.Str(act, "task"); t != "none" && t != "" {
				predTasks = append(predTasks, t)
			}
			lastExp = vh.Map(st.State, "exp")
		case "EndBlock":
			num := vh.Int(act, "n")
			if !closeBlock(i, st, num, !attack) {
				return
			}
			nextNum = num + 1
			lastExp = nil
		case "Reboot":
			before := finalOf(n.project())
			n, err = boot(raw, nil)
			if err != nil {
				a.violate("restart-differs", "a node cannot be booted on the database: "+err.Error(), b.ID, i)
				return
			}
			after := check(i, st, 0, !attack)
			if d := diffFinal(before, finalOf(after), true); d != "" {
				a.violate("restart-differs", fmt.Sprintf("a restart between blocks changed the node's view (%s): before=%s after=%s", d, js(before), js(finalOf(after))), b.ID, i)
			}
		case "StaleBlock":
			num := vh.Int(act, "n")
			before := finalOf(n.project())
			err, _ := n.deliver(blockT{Num: num, Events: eventsOf(vh.List(act, "events"))}, false)
			n.tasks.take()
			if err == nil {
				a.violate("old-block-accepted", fmt.Sprintf("block %d was delivered again after it had been processed and was not refused", num), b.ID, i)
			} else if !errors.Is(err, eventhandler.ErrInferiorBlock) {
				a.diverge(b.ID, i, "stale-error", "ErrInferiorBlock", err.Error())
			}
			after := finalOf(n.project())
			if d := diffFinal(before, after, true); d != "" && err != nil {
				a.violate("old-block-accepted", fmt.Sprintf("redelivering block %d was refused but changed the state (%s)", num, d), b.ID, i)
			}
			a.count("stale_blocks", 1)
		default:
			a.diverge(b.ID, i, "unknown-act", nil, act)
		}
	}
	if len(pending) > 0 {
		// the behaviour ends inside a block: the harness closes it; the rules after these events are known
		st := vh.Step{State: map[string]any{}}
		if lastExp != nil {
			st.State["exp"] = lastExp
		}
		if !closeBlock(len(b.Steps), st, nextNum, false) {
			return
		}
	}
	a.count("steps", steps)
	chain := chainOf(b)
	if nontrivial(chain) {
		a.nontrivialCase(chainString(chain))
	}
	// --- batching independence, real vs real: the same events, one per block ---
	if multi {
		got := finalOf(n.project())
		var canon []blockT
		num := 1
		canon = append(canon, chain[0])
		for _, blk := range chain[1:] {
			for _, e := range blk.Events {
				num++
				canon = append(canon, blockT{Num: num, Events: []event{e}})
			}
		}
		want, n2, err := runClean(canon, nil)
		if n2 != nil {
			defer releaseDB(n2.raw)
		}
		if err != nil {
			a.diverge(b.ID, len(b.Steps), "canonical-run", nil, err.Error())
		} else if d := diffFinal(got, want, false); d != "" {
			sig := "batching-dependence"
			if d == "operators" || d == "own-operator-id" {
				sig = "operator-batching-dependence"
			}
			a.violate(sig, fmt.Sprintf("the same events end in different states when batched differently (%s): as batched=%s one-per-block=%s chain=%s",
				d, js(got), js(want), chainString(chain)), b.ID, len(b.Steps))
		}
		a.count("batching_pairs", 1)
	}
}

func chainString(chain []blockT) string {
	var parts []string
	for _, b := range chain {
		var es []string
		for _, e := range b.Events {
			es = append(es, e.String())
		}
		parts = append(parts, fmt.Sprintf("#%d[%s]", b.Num, strings.Join(es, "; ")))
	}
	return strings.Join(parts, " ")
}

// ---------------------------------------------------------------------------------------------------------
// faulty executions (C12)

type fault struct {
	Mode string // "crash" | "fail"
	At   int    // operation index (all operations, or model-visible ones when ByMacro)
	Kind string
}

type faultyOutcome struct {
	final     finalT
	fired     []opRec
	swallowed bool // a failed operation did not stop the block
	restarts  int
	err       error
	notFired  bool
}

// runFaulty processes the chain; incarnation i suffers plan[i]; after each death a new node is booted on the
// surviving database and resumes from the recorded last processed block + 1, as cli/operator/node.go does.
func runFaulty(chain []blockT, plan []fault, byMacro bool) faultyOutcome {
	out := faultyOutcome{}
	raw, err := newRawDB()
	if err != nil {
		out.err = err
		return out
	}
	defer releaseDB(raw)
	inj := &injector{}
	n, err := boot(raw, inj)
	if err != nil {
		out.err = err
		return out
	}
	if err, crashed := n.deliver(chain[0], false); err != nil || crashed {
		out.err = fmt.Errorf("setup block: %v", err)
		return out
	}
	n.tasks.take()
	n.updateMetadata()
	pi := 0
	arm := func() {
		if pi < len(plan) {
			c, f := 0, 0
			if plan[pi].Mode == "crash" {
				c = plan[pi].At
			} else {
				f = plan[pi].At
			}
			inj.reset(c, f, byMacro)
		} else {
			inj.reset(0, 0, byMacro)
		}
	}
	arm()
	for guard := 0; guard < len(plan)+2; guard++ {
		last := n.lastProcessed()
		died := false
		for _, b := range chain[1:] {
			if b.Num <= last {
				continue
			}
			err, crashed := n.deliver(b, true)
			n.tasks.take()
			inj.mu.Lock()
			fired, firedOp := inj.fired, inj.firedOp
			inj.mu.Unlock()
			if crashed || err != nil {
				if !fired {
					out.err = fmt.Errorf("block %d failed without an injected fault: %v", b.Num, err)
					return out
				}
				out.fired = append(out.fired, firedOp)
				died = true
				break
			}
			if fired && pi < len(plan) && len(out.fired) == pi {
				// the failed operation's error was not propagated: the node lives on
				out.fired = append(out.fired, firedOp)
				out.swallowed = true
				pi++
				arm()
			}
			n.updateMetadata()
		}
		if !died {
			break
		}
		// process death -> restart on the surviving database
		out.restarts++
		pi++
		n, err = boot(raw, inj)
		if err != nil {
			out.err = fmt.Errorf("restart failed: %w", err)
			return out
		}
		arm()
	}
	if len(out.fired) < len(plan) {
		out.notFired = true
	}
	if n.lastProcessed() != chain[len(chain)-1].Num {
		out.err = fmt.Errorf("resumption did not reach the end of the chain: last processed %d", n.lastProcessed())
		return out
	}
	out.final = finalOf(n.project())
	return out
}

func describeFault(f []opRec, plan []fault) string {
	var s []string
	for i, p := range plan {
		k := "?"
		if i < len(f) {
			k = f[i].Kind
		}
		s = append(s, fmt.Sprintf("%s at operation %d (%s)", p.Mode, p.At, k))
	}
	return strings.Join(s, ", then ")
}

// classify gives the violation signature for a faulty run whose final state differs from the clean run's.
// Two histories get their own precise signature (see /root/scratch/findings):
//   ...:orphan-wallet-account            the process died / the write failed at the wallet-index write that follows
//                                        the account write inside AddShare; the resumed AddShare stores the key
//                                        share a second time and nothing ever deletes the first copy
//   ...:operators-read-error-swallowed   the OperatorsExist read inside validateOperators failed and the error
//                                        was turned into a MalformedEventError: the event was skipped
func classify(plan []fault, out faultyOutcome, clean finalT, d string) string {
	sig := "crash-resume-differs"
	for _, p := range plan {
		if p.Mode == "fail" {
			sig = "failed-op-resume-differs"
		}
	}
	allWallet, allRead := len(out.fired) > 0, len(out.fired) > 0
	for _, f := range out.fired {
		if f.Kind != "db.Set:wallet" {
			allWallet = false
		}
		if f.Kind != "txn.GetMany:operators" {
			allRead = false
		}
	}
	if allWallet && out.err == nil && (d == "wallet-accounts" || d == "keyshares") {
		excess := true
		for _, v := range validators {
			if out.final.Accounts[v] < clean.Accounts[v] {
				excess = false
			}
		}
		rest := out.final
		rest.Accounts, rest.Ks = clean.Accounts, clean.Ks
		if excess && diffFinal(rest, clean, true) == "" {
			return sig + ":orphan-wallet-account"
		}
	}
	if allRead && out.swallowed && out.restarts == 0 && out.err == nil {
		return sig + ":operators-read-error-swallowed"
	}
	return sig
}

func judgeFaulty(a *agg, beh string, chain []blockT, clean finalT, plan []fault, out faultyOutcome, step int) {
	a.count("faulty_runs", 1)
	if out.err != nil {
		// the node could not resume at all: this is a difference from the uninterrupted run
		a.violate(classify(plan, out, clean, "resume")+":cannot-resume", fmt.Sprintf("after %s the node cannot complete the chain: %v; chain=%s",
			describeFault(out.fired, plan), out.err, chainString(chain)), beh, step)
		return
	}
	if out.notFired {
		a.count("faults_not_reached", 1)
	}
	if out.swallowed {
		a.count("failed_ops_swallowed", 1)
		for _, f := range out.fired {
			a.count("swallowed:"+f.Kind, 1)
		}
	}
	if d := diffFinal(out.final, clean, true); d != "" {
		a.violate(classify(plan, out, clean, d), fmt.Sprintf("after %s and resumption the final state differs from the uninterrupted run in %s: got=%s uninterrupted=%s chain=%s",
			describeFault(out.fired, plan), d, js(out.final), js(clean), chainString(chain)), beh, step)
	}
}

// mode crash: op-grain behaviours of the crash sub-spec
func crashOne(b vh.Behaviour, a *agg) {
	chain := chainOf(b)
	if len(chain) < 2 {
		return
	}
	var plan []fault
	done := 0
	var modelMacros []string
	for _, st := range b.Steps {
		act := st.Act
		switch vh.Str(act, "name") {
		case "Step":
			done++
		case "Crash":
			plan = append(plan, fault{Mode: "crash", At: done + 1})
			done = 0
		case "Fail":
			plan = append(plan, fault{Mode: "fail", At: done + 1})
			done = 0
		}
	}
	a.count("steps", len(b.Steps))
	inj := &injector{keepLog: true}
	clean, n0, err := runClean(chain, inj)
	if n0 != nil {
		defer releaseDB(n0.raw)
	}
	if err != nil {
		a.diverge(b.ID, 0, "clean-run", nil, err.Error())
		a.count("clean_run_failed", 1)
		return
	}
	// conformance of the model-visible operations: the clean run's operations vs the spec's effects
	weakened := strings.HasPrefix(b.Kind, "attack") || strings.HasPrefix(b.Kind, "finding")
	if !weakened && len(plan) == 0 {
		for _, st := range b.Steps {
			if vh.Str(st.Act, "name") == "Step" {
				modelMacros = append(modelMacros, normMacro(vh.Str(st.Act, "t")))
			}
		}
		var realMacros []string
		for _, o := range inj.log {
			if o.Macro != "" {
				realMacros = append(realMacros, o.Macro)
			}
		}
		// the behaviour may end inside a block: compare the common prefix
		k := len(modelMacros)
		if len(realMacros) < k {
			k = len(realMacros)
		}
		if !reflect.DeepEqual(modelMacros[:k], realMacros[:k]) || len(realMacros) < len(modelMacros) {
			a.diverge(b.ID, 0, "operations", modelMacros, realMacros)
		}
	}
	if len(plan) == 0 {
		a.count("crash_free", 1)
		return
	}
	if nontrivial(chain) {
		a.nontrivialCase(chainString(chain) + fmt.Sprint(plan))
	}
	out := runFaulty(chain, plan, true)
	if out.swallowed {
		a.note(fmt.Sprintf("%s: failed operation swallowed: plan=%v fired=%v", b.ID, plan, out.fired))
	}
	judgeFaulty(a, b.ID, chain, clean, plan, out, len(b.Steps))
	// the spec's final state (divergence only)
	if last := b.Steps[len(b.Steps)-1]; out.err == nil && vh.Str(last.Act, "name") == "Step" && vh.Str(last.Act, "t") == "commit" && !weakened {
		if dbm := vh.Map(last.State, "db"); dbm != nil {
			if d := diffReg(out.final.Db, decReg(dbm), true, true); d != "" {
				a.diverge(b.ID, len(b.Steps), "db."+d, decReg(dbm), out.final.Db)
			}
		}
	}
}

func normMacro(t string) string {
	switch t {
	case "bump", "setFee":
		return "rcpt"
	case "saveShare", "saveLiq":
		return "shares"
	}
	return t
}

// mode faults: every operation of a clean run as crash point and as error point
func faultsOne(id string, chain []blockT, a *agg, rng *rand.Rand, double int, writesOnly bool) {
	inj := &injector{keepLog: true}
	clean, n0, err := runClean(chain, inj)
	if err != nil {
		if n0 != nil {
			releaseDB(n0.raw)
		}
		a.diverge(id, 0, "clean-run", nil, err.Error())
		a.count("clean_run_failed", 1)
		return
	}
	ops := append([]opRec{}, inj.log...)
	// a block that was processed is refused when delivered again
	lastBlk := chain[len(chain)-1]
	before := finalOf(n0.project())
	err2, _ := n0.deliver(lastBlk, false)
	n0.tasks.take()
	if err2 == nil {
		a.violate("old-block-accepted", fmt.Sprintf("block %d was delivered again after it had been processed and was not refused; chain=%s", lastBlk.Num, chainString(chain)), id, 0)
	} else if d := diffFinal(before, finalOf(n0.project()), true); d != "" {
		a.violate("old-block-accepted", fmt.Sprintf("redelivering block %d was refused but changed the state (%s)", lastBlk.Num, d), id, 0)
	}
	releaseDB(n0.raw)
	a.count("clean_ops", len(ops))
	if listOps {
		var ks []string
		for i, o := range ops {
			ks = append(ks, fmt.Sprintf("%d %s", i+1, o.Kind))
		}
		a.note(id + ": operations of the clean run after the setup block: " + strings.Join(ks, ", "))
	}
	a.count("chains", 1)
	for k := 1; k <= len(ops); k++ {
		for _, mode := range []string{"crash", "fail"} {
			if writesOnly && !ops[k-1].Write {
				continue
			}
			if mode == "crash" && !ops[k-1].Write && k > 1 {
				// dying before a read = dying after the previous operation; covered by the next write's point
				continue
			}
			plan := []fault{{Mode: mode, At: k, Kind: ops[k-1].Kind}}
			out := runFaulty(chain, plan, false)
			judgeFaulty(a, id, chain, clean, plan, out, k)
			a.count("fault_points", 1)
			if nontrivial(chain) {
				a.nontrivialCase(fmt.Sprintf("%s %s@%d", chainString(chain), mode, k))
			}
		}
	}
	// second fault during the resumed incarnation
	for d := 0; d < double && len(ops) > 0; d++ {
		k1 := 1 + rng.Intn(len(ops))
		k2 := 1 + rng.Intn(len(ops))
		m1 := []string{"crash", "fail"}[rng.Intn(2)]
		m2 := []string{"crash", "fail"}[rng.Intn(2)]
		plan := []fault{{Mode: m1, At: k1}, {Mode: m2, At: k2}}
		out := runFaulty(chain, plan, false)
		out.notFired = false
		skip := false
		for _, f := range out.fired {
			// the two fault points with a finding of their own are judged by the single-fault enumeration
			if f.Kind == "db.Set:wallet" || f.Kind == "txn.GetMany:operators" {
				skip = true
			}
		}
		if skip {
			a.count("double_fault_skipped", 1)
			continue
		}
		judgeFaulty(a, id, chain, clean, plan, out, k1*1000+k2)
		a.count("double_fault_runs", 1)
	}
}

// ---------------------------------------------------------------------------------------------------------

var listOps bool

func parallel(nw int, n int, f func(i int)) {
	var wg sync.WaitGroup
	ch := make(chan int, n)
	for i := 0; i < n; i++ {
		ch <- i
	}
	close(ch)
	for w := 0; w < nw; w++ {
		wg.Add(1)
		go func() {
			defer wg.Done()
			for i := range ch {
				f(i)
			}
		}()
	}
	wg.Wait()
}

func main() {
	mode := flag.String("mode", "replay", "replay | crash | faults | record")
	in := flag.String("in", "", "behaviours (NDJSON)")
	out := flag.String("out", "", "result file")
	seed := flag.Int64("seed", 1, "seed")
	workers := flag.Int("workers", 6, "parallel behaviours")
	maxChains := flag.Int("chains", 40, "faults: number of distinct chains")
	double := flag.Int("double", 0, "faults: double-fault runs per chain")
	writesOnly := flag.Bool("writes-only", false, "faults: only writes / key-manager calls / commit as fault points")
	runs := flag.Int("runs", 100, "record: number of chains")
	trace := flag.String("trace", "", "record: trace file")
	flag.BoolVar(&listOps, "list-ops", false, "faults: list the operations of every clean run in the notes")
	flag.Parse()
	if err := initMaterial(); err != nil {
		fmt.Fprintln(os.Stderr, "material:", err)
		os.Exit(3)
	}
	a := &agg{res: vh.NewResult()}
	switch *mode {
	case "replay", "crash":
		behs, err := vh.ReadBehaviours(*in)
		if err != nil {
			fmt.Fprintln(os.Stderr, err)
			os.Exit(3)
		}
		parallel(*workers, len(behs), func(i int) {
			if *mode == "replay" {
				replayOne(behs[i], a)
			} else {
				crashOne(behs[i], a)
			}
		})
		a.res.Behaviours = len(behs)
		for i := 0; i < len(behs) && i < 2; i++ {
			a.res.Samples = append(a.res.Samples, chainString(chainOf(behs[len(behs)-1-i])))
		}
	case "faults":
		behs, err := vh.ReadBehaviours(*in)
		if err != nil {
			fmt.Fprintln(os.Stderr, err)
			os.Exit(3)
		}
		seen := map[string]bool{}
		type item struct {
			id    string
			chain []blockT
		}
		var items []item
		rng := rand.New(rand.NewSource(*seed))
		perm := rng.Perm(len(behs))
		// prefer chains with side effects outside the transaction
		for pass := 0; pass < 2; pass++ {
			for _, i := range perm {
				ch := chainOf(behs[i])
				if len(ch) < 2 || (pass == 0 && !nontrivial(ch)) {
					continue
				}
				k := js(ch)
				if seen[k] {
					continue
				}
				seen[k] = true
				if len(items) < *maxChains {
					items = append(items, item{behs[i].ID, ch})
				}
			}
		}
		parallel(*workers, len(items), func(i int) {
			faultsOne(items[i].id, items[i].chain, a, rand.New(rand.NewSource(*seed*7919+int64(i))), *double, *writesOnly)
		})
		a.res.Behaviours = len(items)
		for i := 0; i < len(items) && i < 2; i++ {
			a.res.Samples = append(a.res.Samples, chainString(items[i].chain))
		}
	case "record":
		record(a, *seed, *runs, *trace, *workers)
	default:
		fmt.Fprintln(os.Stderr, "unknown mode")
		os.Exit(3)
	}
	for k, d := range tim {
		a.res.Counters["ms_"+k] = int(d.Milliseconds())
	}
	a.res.Steps = a.res.Counters["steps"] + a.res.Counters["faulty_runs"]
	a.res.Nontrivial = a.res.Counters["nontrivial"]
	sort.Slice(a.res.Violations, func(i, j int) bool { return a.res.Violations[i].Signature < a.res.Violations[j].Signature })
	if err := a.res.Write(*out); err != nil {
		fmt.Fprintln(os.Stderr, err)
		os.Exit(3)
	}
}
