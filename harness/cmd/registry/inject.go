package main

// Fault-injecting wrappers around basedb.Database / basedb.Txn and the key manager (C12).
// Every operation the event handler, the registry storages, the key manager's signer storage and the decided
// store perform on the database passes through an injector, which numbers it. At a chosen index the
// injector either panics (process death: recovered by the driver, the in-memory badger object survives and
// a new node is booted on it) or makes the operation return an error without performing it.

import (
	"bytes"
	"errors"
	"sync"

	"github.com/attestantio/go-eth2-client/spec/phase0"
	"github.com/bloxapp/eth2-key-manager/core"
	spectypes "github.com/bloxapp/ssv-spec/types"
	"github.com/herumi/bls-eth-go-binary/bls"
	ssz "github.com/ferranbt/fastssz"

	"github.com/bloxapp/ssv/ekm"
	"github.com/bloxapp/ssv/storage/basedb"
)

type crashSentinel struct{ at int }

var errInjected = errors.New("verif: injected operation failure")

type opRec struct {
	Kind  string `json:"kind"`  // e.g. txn.Set:recipients, db.Set:wallet, km.AddShare
	Macro string `json:"macro"` // the model's primitive effect this operation corresponds to ("" = inner / read)
	Write bool   `json:"write"`
}

type injector struct {
	mu      sync.Mutex
	active  bool
	n       int // operations seen while active (1-based index of the last one)
	macros  int
	log     []opRec
	keepLog bool
	// fault plan (indexes in the `n` numbering unless byMacro)
	crashAt int // panic BEFORE performing operation crashAt (0 = never)
	failAt  int // operation failAt returns errInjected without being performed
	byMacro bool
	fired   bool
	firedOp opRec
}

func (j *injector) reset(crashAt, failAt int, byMacro bool) {
	j.mu.Lock()
	defer j.mu.Unlock()
	j.n, j.macros, j.crashAt, j.failAt, j.byMacro, j.fired = 0, 0, crashAt, failAt, byMacro, false
	j.log = nil
}

// op registers one operation; returns errInjected if it must fail, panics if the process dies here.
func (j *injector) op(kind, macro string, write bool) error {
	if j == nil {
		return nil
	}
	j.mu.Lock()
	if !j.active {
		j.mu.Unlock()
		return nil
	}
	j.n++
	idx := j.n
	if macro != "" {
		j.macros++
		if j.byMacro {
			idx = j.macros
		}
	} else if j.byMacro {
		idx = -1
	}
	rec := opRec{kind, macro, write}
	if j.keepLog {
		j.log = append(j.log, rec)
	}
	if !j.fired && idx > 0 && idx == j.crashAt {
		j.fired, j.firedOp = true, rec
		j.mu.Unlock()
		panic(crashSentinel{idx})
	}
	if !j.fired && idx > 0 && idx == j.failAt {
		j.fired, j.firedOp = true, rec
		j.mu.Unlock()
		return errInjected
	}
	j.mu.Unlock()
	return nil
}

func prefixClass(prefix, key []byte) string {
	full := append(append([]byte{}, prefix...), key...)
	switch {
	case bytes.HasPrefix(full, []byte("operator/shares")):
		return "shares"
	case bytes.HasPrefix(full, []byte("operator/operators")):
		return "operators"
	case bytes.HasPrefix(full, []byte("operator/recipients")):
		return "recipients"
	case bytes.HasPrefix(full, []byte("operator/syncOffset")):
		return "lastblock"
	case bytes.HasPrefix(full, []byte("operator/")):
		return "operator-misc"
	case bytes.Contains(full, []byte("wallet")):
		return "wallet"
	case bytes.Contains(full, []byte("accounts")):
		return "accounts"
	case bytes.Contains(full, []byte("highest_att")):
		return "highatt"
	case bytes.Contains(full, []byte("highest_prop")):
		return "highprop"
	case bytes.HasPrefix(full, []byte(decidedPrefix)):
		return "decided"
	}
	return "other"
}

func txnMacro(method, class string) string {
	switch method + ":" + class {
	case "Set:operators":
		return "setOp"
	case "Set:recipients":
		return "rcpt"
	case "Set:lastblock":
		return "saveLast"
	case "SetMany:shares":
		return "shares"
	case "Delete:shares":
		return "delShare"
	}
	return ""
}

// ---------------------------------------------------------------------------------------------------------

type wdb struct {
	inner basedb.Database
	inj   *injector
}

func (w *wdb) Get(prefix, key []byte) (basedb.Obj, bool, error) {
	if err := w.inj.op("db.Get:"+prefixClass(prefix, key), "", false); err != nil {
		return basedb.Obj{}, true, err
	}
	return w.inner.Get(prefix, key)
}
func (w *wdb) GetMany(prefix []byte, keys [][]byte, it func(basedb.Obj) error) error {
	var k0 []byte
	if len(keys) > 0 {
		k0 = keys[0]
	}
	if err := w.inj.op("db.GetMany:"+prefixClass(prefix, k0), "", false); err != nil {
		return err
	}
	return w.inner.GetMany(prefix, keys, it)
}
func (w *wdb) GetAll(prefix []byte, h func(int, basedb.Obj) error) error {
	if err := w.inj.op("db.GetAll:"+prefixClass(prefix, nil), "", false); err != nil {
		return err
	}
	return w.inner.GetAll(prefix, h)
}
func (w *wdb) Set(prefix, key, value []byte) error {
	if err := w.inj.op("db.Set:"+prefixClass(prefix, key), "", true); err != nil {
		return err
	}
	return w.inner.Set(prefix, key, value)
}
func (w *wdb) SetMany(prefix []byte, n int, next func(int) (basedb.Obj, error)) error {
	if err := w.inj.op("db.SetMany:"+prefixClass(prefix, nil), "", true); err != nil {
		return err
	}
	return w.inner.SetMany(prefix, n, next)
}
func (w *wdb) Delete(prefix, key []byte) error {
	if err := w.inj.op("db.Delete:"+prefixClass(prefix, key), "", true); err != nil {
		return err
	}
	return w.inner.Delete(prefix, key)
}
func (w *wdb) Begin() basedb.Txn { return &wtxn{inner: w.inner.Begin(), inj: w.inj} }
func (w *wdb) BeginRead() basedb.ReadTxn {
	return w.inner.BeginRead()
}
func (w *wdb) Using(rw basedb.ReadWriter) basedb.ReadWriter {
	if rw == nil {
		return w
	}
	return rw
}
func (w *wdb) UsingReader(r basedb.Reader) basedb.Reader {
	if r == nil {
		return w
	}
	return r
}
func (w *wdb) CountPrefix(prefix []byte) (int64, error) { return w.inner.CountPrefix(prefix) }
func (w *wdb) DeletePrefix(prefix []byte) (int, error) {
	macro := ""
	if bytes.HasPrefix(prefix, []byte(decidedPrefix)) {
		macro = "clean"
	}
	if err := w.inj.op("db.DeletePrefix:"+prefixClass(prefix, nil), macro, true); err != nil {
		return 0, err
	}
	return w.inner.DeletePrefix(prefix)
}
func (w *wdb) DropPrefix(prefix []byte) error { return w.inner.DropPrefix(prefix) }
func (w *wdb) Update(fn func(basedb.Txn) error) error {
	return w.inner.Update(fn)
}
func (w *wdb) Close() error { return nil }

type wtxn struct {
	inner basedb.Txn
	inj   *injector
}

func (t *wtxn) Get(prefix, key []byte) (basedb.Obj, bool, error) {
	if err := t.inj.op("txn.Get:"+prefixClass(prefix, key), "", false); err != nil {
		return basedb.Obj{}, true, err
	}
	return t.inner.Get(prefix, key)
}
func (t *wtxn) GetMany(prefix []byte, keys [][]byte, it func(basedb.Obj) error) error {
	var k0 []byte
	if len(keys) > 0 {
		k0 = keys[0]
	}
	c := prefixClass(prefix, k0)
	macro := ""
	if c == "operators" {
		macro = "validate" // validateOperators -> OperatorsExist
	}
	if err := t.inj.op("txn.GetMany:"+c, macro, false); err != nil {
		return err
	}
	return t.inner.GetMany(prefix, keys, it)
}
func (t *wtxn) GetAll(prefix []byte, h func(int, basedb.Obj) error) error {
	if err := t.inj.op("txn.GetAll:"+prefixClass(prefix, nil), "", false); err != nil {
		return err
	}
	return t.inner.GetAll(prefix, h)
}
func (t *wtxn) Set(prefix, key, value []byte) error {
	c := prefixClass(prefix, key)
	if err := t.inj.op("txn.Set:"+c, txnMacro("Set", c), true); err != nil {
		return err
	}
	return t.inner.Set(prefix, key, value)
}
func (t *wtxn) SetMany(prefix []byte, n int, next func(int) (basedb.Obj, error)) error {
	c := "other"
	if n > 0 {
		if o, err := next(0); err == nil {
			c = prefixClass(prefix, o.Key)
		}
	}
	if err := t.inj.op("txn.SetMany:"+c, txnMacro("SetMany", c), true); err != nil {
		return err
	}
	return t.inner.SetMany(prefix, n, next)
}
func (t *wtxn) Delete(prefix, key []byte) error {
	c := prefixClass(prefix, key)
	if err := t.inj.op("txn.Delete:"+c, txnMacro("Delete", c), true); err != nil {
		return err
	}
	return t.inner.Delete(prefix, key)
}
func (t *wtxn) Commit() error {
	if err := t.inj.op("txn.Commit", "commit", true); err != nil {
		t.inner.Discard()
		return err
	}
	return t.inner.Commit()
}
func (t *wtxn) Discard() { t.inner.Discard() }

// ---------------------------------------------------------------------------------------------------------

type kmFull interface {
	spectypes.KeyManager
	ekm.StorageProvider
}

type wkm struct {
	inner kmFull
	inj   *injector
}

func (k *wkm) SignBeaconObject(obj ssz.HashRoot, domain phase0.Domain, pk []byte, dt phase0.DomainType) (spectypes.Signature, [32]byte, error) {
	return k.inner.SignBeaconObject(obj, domain, pk, dt)
}
func (k *wkm) IsAttestationSlashable(pk []byte, data *phase0.AttestationData) error {
	return k.inner.IsAttestationSlashable(pk, data)
}
func (k *wkm) IsBeaconBlockSlashable(pk []byte, slot phase0.Slot) error {
	return k.inner.IsBeaconBlockSlashable(pk, slot)
}
func (k *wkm) SignRoot(data spectypes.Root, st spectypes.SignatureType, pk []byte) (spectypes.Signature, error) {
	return k.inner.SignRoot(data, st, pk)
}
func (k *wkm) AddShare(sk *bls.SecretKey) error {
	if err := k.inj.op("km.AddShare", "kmAdd", true); err != nil {
		return err
	}
	return k.inner.AddShare(sk)
}
func (k *wkm) RemoveShare(pk string) error {
	if err := k.inj.op("km.RemoveShare", "kmRemove", true); err != nil {
		return err
	}
	return k.inner.RemoveShare(pk)
}
func (k *wkm) ListAccounts() ([]core.ValidatorAccount, error) { return k.inner.ListAccounts() }
func (k *wkm) RetrieveHighestAttestation(pk []byte) (*phase0.AttestationData, bool, error) {
	return k.inner.RetrieveHighestAttestation(pk)
}
func (k *wkm) RetrieveHighestProposal(pk []byte) (phase0.Slot, bool, error) {
	return k.inner.RetrieveHighestProposal(pk)
}
func (k *wkm) BumpSlashingProtection(pk []byte) error {
	if err := k.inj.op("km.BumpSlashingProtection", "kmBump", true); err != nil {
		return err
	}
	return k.inner.BumpSlashingProtection(pk)
}
