// Implementation -> specification direction of C03 (spec/RunnerTrace.tla).
//
//	-mode record  : drives REAL runners of every consensus role (same construction as the replay mode: production
//	                controllers, real validator.Validator) through seeded random executions that are NOT derived from
//	                TLC behaviours, at the grain of ONE public call (Validator.StartDuty / Validator.ProcessMessage with
//	                one message) per event, and records one NDJSON event per call at its return: event name, arguments
//	                as small abstract ids, error flag, the cheap projection of the real state ("obs") and the
//	                validator-key signatures the key-manager spy saw during that call ("sigs").  Executions of the role
//	                family without a pre-consensus phase and of the family with one go to two files (HasPre is a
//	                constant of the spec); executions are concatenated with "Reset" events.
//	-mode retrace : re-runs one recorded call sequence (a slice that starts with its Reset event) on FRESH real runners
//	                and re-evaluates the Go monitor (checkSigs); also compares the recorded projection.
//
// The Go monitor runs in both modes, so a monitor trip during recording is reported like in the random mode.
package main

import (
	"bufio"
	"encoding/json"
	"fmt"
	"math/rand"
	"os"

	"github.com/attestantio/go-eth2-client/spec/phase0"
	specqbft "github.com/bloxapp/ssv-spec/qbft"
	spectypes "github.com/bloxapp/ssv-spec/types"
	tu "github.com/bloxapp/ssv-spec/types/testingutils"

	rk "verif/harness/runnerkit"
	"verif/harness/vh"
)

const traceMaxSlot = 6 // heights / slots used by the recorded executions: 1..traceMaxSlot

type valID struct {
	slot int
	v    string
}

type objID struct {
	k    string // "pre" | "post"
	slot int
	v    string
	idx  int
}

// tworld = the replay driver's world (real kit + Go monitor) + the tables that turn real bytes into small ids
type tworld struct {
	*world
	vals    map[string]valID   // encoded consensus data -> (slot, variant)
	objs    map[string][]objID // object root + domain type -> candidates
	lastVal map[int]string     // generator bias: value of the last proposal sent per height
}

func objKey(root [32]byte, dt phase0.DomainType) string { return fmt.Sprintf("%x/%x", root, dt) }

func newTWorld(role string, n int, res *vh.Result, beh string) *tworld {
	t := &tworld{world: newWorld(role, n, res, beh), vals: map[string]valID{}, objs: map[string][]objID{}, lastVal: map[int]string{}}
	for s := 0; s <= traceMaxSlot+2; s++ {
		for i, o := range t.kit.PreObjects(role, t.kit.DutyFor(role, phase0.Slot(s))) {
			k := objKey(o.ObjRoot, o.DomainType)
			t.objs[k] = append(t.objs[k], objID{"pre", s, "none", i})
		}
		if s == 0 {
			continue
		}
		for _, v := range []string{"valid", "alt", "invalid"} {
			cd := t.kit.ConsensusDataFor(role, phase0.Slot(s), v)
			b, err := cd.Encode()
			if err != nil {
				machinery("encode consensus data: %v", err)
			}
			t.vals[string(b)] = valID{s, v}
			for i, o := range t.kit.DecidedObjects(role, cd) {
				k := objKey(o.ObjRoot, o.DomainType)
				t.objs[k] = append(t.objs[k], objID{"post", s, v, i})
			}
		}
	}
	return t
}

func (t *tworld) valOf(b []byte) string {
	if b == nil {
		return "none"
	}
	if id, ok := t.vals[string(b)]; ok {
		return id.v
	}
	return "unknown"
}

var preDomains = map[phase0.DomainType]bool{spectypes.DomainRandao: true, spectypes.DomainSelectionProof: true, spectypes.DomainSyncCommitteeSelectionProof: true}
var postDomains = map[phase0.DomainType]bool{spectypes.DomainAttester: true, spectypes.DomainProposer: true, spectypes.DomainAggregateAndProof: true,
	spectypes.DomainSyncCommittee: true, spectypes.DomainContributionAndProof: true}

// classify one SignBeaconObject call of the spy. prefer: slot of the StartDuty call in progress (the RANDAO object is bound
// to the epoch, so its root alone does not tell the slot)
func (t *tworld) classify(sc rk.SignCall, prefer int) objID {
	cands := t.objs[objKey(sc.ObjRoot, sc.DomainType)]
	for _, c := range cands {
		if c.k == "pre" && c.slot == prefer {
			return c
		}
	}
	if len(cands) > 0 {
		return cands[0] // lowest slot; "valid" before "invalid" (same objects for most roles)
	}
	switch {
	case preDomains[sc.DomainType]:
		return objID{"pre", 0, "unknown", 0}
	case postDomains[sc.DomainType]:
		return objID{"post", 0, "unknown", 0}
	}
	return objID{"other", 0, "unknown", 0}
}

func (t *tworld) contains(val []byte, sc rk.SignCall) bool {
	if val == nil {
		return false
	}
	cd := &spectypes.ConsensusData{}
	if err := cd.Decode(val); err != nil {
		return false
	}
	ok := false
	func() {
		defer func() { _ = recover() }() // a value of another role has no objects of this role
		ok = inRefs(t.kit.DecidedObjects(t.role, cd), sc)
	}()
	return ok
}

// obs: the cheap projection of the real objects
func (t *tworld) obs() map[string]any {
	b := t.base()
	o := map[string]any{"duty": 0, "runH": 0, "runIn": false, "dec": false, "rval": "none", "dval": "none", "fin": false,
		"ctrlH": int(b.QBFTController.Height)}
	if st := b.State; st != nil {
		o["duty"] = int(st.StartingDuty.Slot)
		o["fin"] = st.Finished
		if ri := st.RunningInstance; ri != nil {
			o["runH"] = int(ri.GetHeight())
			o["runIn"] = b.QBFTController.StoredInstances.FindInstance(ri.GetHeight()) == ri
			if d, v := ri.IsDecided(); d {
				o["dec"] = true
				o["rval"] = t.valOf(v)
			}
		}
		if st.DecidedValue != nil {
			enc, _ := st.DecidedValue.Encode()
			o["dval"] = t.valOf(enc)
		}
	}
	stored := []any{}
	for _, i := range b.QBFTController.StoredInstances {
		if i == nil {
			continue
		}
		stored = append(stored, map[string]any{"h": int(i.GetHeight()), "dec": i.State.Decided})
	}
	o["stored"] = stored
	return o
}

func (t *tworld) ssvQBFT(envRole spectypes.BeaconRole, m *specqbft.SignedMessage) *spectypes.SSVMessage {
	data, err := m.Encode()
	if err != nil {
		machinery("encode qbft message: %v", err)
	}
	return &spectypes.SSVMessage{MsgType: spectypes.SSVConsensusMsgType, MsgID: t.kit.MsgID(envRole), Data: data}
}

// one genuine single-signer QBFT message of round 1 for (height, value)
func (t *tworld) qbftMsg(typ specqbft.MessageType, idRole spectypes.BeaconRole, h int, v string, signer int) *specqbft.SignedMessage {
	cd := t.kit.ConsensusDataFor(t.role, phase0.Slot(h), v)
	t.certify(h, cd)
	full, err := cd.Encode()
	if err != nil {
		machinery("encode: %v", err)
	}
	root, err := specqbft.HashDataRoot(full)
	if err != nil {
		machinery("hash: %v", err)
	}
	id := t.kit.MsgID(idRole)
	m := tu.SignQBFTMsg(t.kit.KS.Shares[spectypes.OperatorID(signer)], spectypes.OperatorID(signer), &specqbft.Message{
		MsgType: typ, Height: specqbft.Height(h), Round: specqbft.FirstRound, Identifier: id[:], Root: root})
	if typ == specqbft.ProposalMsgType {
		m.FullData = full
	}
	return m
}

func evInt(ev map[string]any, k string) int    { return vh.Int(ev, k) }
func evStr(ev map[string]any, k string) string { return vh.Str(ev, k) }

// build the SSV message of a message event
func (t *tworld) buildMsg(ev map[string]any) (*spectypes.SSVMessage, ctx) {
	name := evStr(ev, "event")
	h, v, signer := evInt(ev, "h"), evStr(ev, "v"), evInt(ev, "signer")
	switch name {
	case "Proposal":
		return t.ssvQBFT(t.br, t.qbftMsg(specqbft.ProposalMsgType, t.br, h, v, 1)), ctx{kind: "msg", msgHeight: h, what: fmt.Sprintf("proposal height %d value %s", h, v)}
	case "Prepare":
		return t.ssvQBFT(t.br, t.qbftMsg(specqbft.PrepareMsgType, t.br, h, v, signer)), ctx{kind: "msg", msgHeight: h, what: fmt.Sprintf("prepare height %d value %s signer %d", h, v, signer)}
	case "Commit":
		return t.ssvQBFT(t.br, t.qbftMsg(specqbft.CommitMsgType, t.br, h, v, signer)), ctx{kind: "msg", msgHeight: h, what: fmt.Sprintf("commit height %d value %s signer %d", h, v, signer)}
	case "Decided":
		cd := t.kit.ConsensusDataFor(t.role, phase0.Slot(h), v)
		t.certify(h, cd)
		enc, _ := cd.Encode()
		ids := t.kit.QuorumIDs(evStr(ev, "q"))
		return t.kit.DecidedMsgBy(t.br, t.br, cd, specqbft.Height(h), ids),
			ctx{kind: "msg", msgHeight: h, decided: enc, what: fmt.Sprintf("decided message height %d value %s signers %v", h, v, ids)}
	case "Pre":
		slot, osl := phase0.Slot(evInt(ev, "slot")), phase0.Slot(evInt(ev, "osl"))
		typ, orole := rk.PreType(t.role), t.role
		if !hasPre(t.role) { // a RANDAO partial signature sent to a role without a pre-consensus phase
			typ, orole = spectypes.RandaoPartialSig, rk.Proposer
		}
		objs := t.kit.PreObjects(orole, t.kit.DutyFor(orole, osl))
		return t.kit.GoodPartialSigMsg(t.br, typ, slot, spectypes.OperatorID(signer), objs), ctx{kind: "msg", what: fmt.Sprintf("pre-consensus signer %d slot %d roots of slot %d", signer, slot, osl)}
	case "Post":
		slot := phase0.Slot(evInt(ev, "slot"))
		objs := t.kit.DecidedObjects(t.role, t.kit.ConsensusDataFor(t.role, slot, v))
		return t.kit.GoodPartialSigMsg(t.br, spectypes.PostConsensusPartialSig, slot, spectypes.OperatorID(signer), objs), ctx{kind: "msg", what: fmt.Sprintf("post-consensus signer %d slot %d value %s", signer, slot, v)}
	case "Foreign":
		c, kind := evStr(ev, "c"), evStr(ev, "kind")
		ob := rk.BeaconRole(otherRole(t.role))
		envRole, idRole := t.br, t.br
		switch c {
		case "otherRoleEnv":
			envRole, idRole = ob, ob
		case "otherRoleId":
			idRole = ob
		}
		var m *spectypes.SSVMessage
		cd := t.kit.ConsensusDataFor(t.role, phase0.Slot(h), v)
		switch kind {
		case "decided":
			m = t.kit.DecidedMsg(envRole, idRole, cd, specqbft.Height(h), t.q)
		case "commit":
			m = t.ssvQBFT(envRole, t.qbftMsg(specqbft.CommitMsgType, idRole, h, v, signer))
		case "post":
			m = t.kit.GoodPartialSigMsg(envRole, spectypes.PostConsensusPartialSig, phase0.Slot(h), spectypes.OperatorID(signer), t.kit.DecidedObjects(t.role, cd))
		default:
			machinery("unknown foreign kind %q", kind)
		}
		if c == "otherValidator" {
			m.MsgID = spectypes.NewMsgID(t.kit.Share.DomainType, tu.TestingWrongValidatorPubKey[:], envRole)
		}
		return m, ctx{kind: "msg", foreign: true, msgHeight: h, what: "foreign " + c + " " + kind}
	}
	machinery("unknown event %q", name)
	return nil, ctx{}
}

// exec performs one recorded / generated call on the real runners, runs the Go monitor and returns the error of the call
// and the classified validator-key signatures made during it
func (t *tworld) exec(ev map[string]any) (bool, []any) {
	start := len(t.kit.KM.Calls)
	before := t.snapshot()
	var err error
	var c ctx
	prefer := -1
	var msgVal []byte
	if evStr(ev, "event") == "StartDuty" {
		s := evInt(ev, "s")
		prefer = s
		err = t.kit.StartDuty("StartDuty", t.kit.DutyFor(t.role, phase0.Slot(s)))
		c = ctx{kind: "StartDuty", startSlot: phase0.Slot(s), startOK: err == nil, what: fmt.Sprintf("StartDuty(%d) err=%v", s, err)}
	} else {
		var m *spectypes.SSVMessage
		m, c = t.buildMsg(ev)
		msgVal = c.decided
		err = t.kit.Deliver("msg", m)
	}
	// what the spy saw during this call
	sigs := []any{}
	var runVal []byte
	if st := t.base().State; st != nil && st.RunningInstance != nil {
		if d, v := st.RunningInstance.IsDecided(); d {
			runVal = v
		}
	}
	for _, sc := range t.kit.KM.Calls[start:] {
		if sc.Kind != "SignBeaconObject" {
			continue
		}
		id := t.classify(sc, prefer)
		inDec, inMsg := t.contains(runVal, sc), t.contains(msgVal, sc)
		src := runVal
		if src == nil {
			src = msgVal
		}
		sigs = append(sigs, map[string]any{"k": id.k, "slot": id.slot, "v": id.v, "idx": id.idx,
			"inDec": inDec, "inMsg": inMsg, "valOK": src != nil && t.valChk(src) == nil})
	}
	t.checkSigs(c, before)
	return err != nil, sigs
}

// ---------------------------------------------------------------------------------------------------
// the random schedule (reads the real state only to bias its choices)

type gen struct {
	t   *tworld
	rng *rand.Rand
}

func (g *gen) slotAny() int { return 1 + g.rng.Intn(traceMaxSlot-1) }

func (g *gen) duty() int {
	if st := g.t.base().State; st != nil {
		return int(st.StartingDuty.Slot)
	}
	return 1 + g.rng.Intn(2)
}

func capSlot(s int) int {
	if s < 1 {
		return 1
	}
	if s > traceMaxSlot {
		return traceMaxSlot
	}
	return s
}

func (g *gen) val(pValid, pAlt int) string {
	x := g.rng.Intn(100)
	switch {
	case x < pValid:
		return "valid"
	case x < pValid+pAlt:
		return "alt"
	}
	return "invalid"
}

func (g *gen) signers(k int) []int {
	out := []int{}
	for len(out) < k {
		out = append(out, 1+g.rng.Intn(g.t.n))
	}
	if g.rng.Intn(3) > 0 { // mostly distinct, in random order
		out = g.rng.Perm(g.t.n)[:min(k, g.t.n)]
		for i := range out {
			out[i]++
		}
	}
	return out
}

func min(a, b int) int {
	if a < b {
		return a
	}
	return b
}

// next returns the next burst of events.  The kind is drawn with weights that depend on the stage of the running duty
// (so that decisions, signatures and finished duties are frequent) on top of a base weight for every kind in every stage
// (so that every kind also arrives when it makes no sense).
func (g *gen) next() []map[string]any {
	t := g.t
	o := t.obs()
	ctrlH, d := o["ctrlH"].(int), g.duty()
	hasDuty, fin, runH, dec, dval := o["duty"].(int) != 0, o["fin"].(bool), o["runH"].(int), o["dec"].(bool), o["dval"].(string)
	kinds := []string{"start", "pre", "proposal", "prepare", "commit", "decided", "post", "foreign"}
	wt := map[string]int{"start": 7, "pre": 4, "proposal": 5, "prepare": 4, "commit": 8, "decided": 9, "post": 6, "foreign": 5}
	switch {
	case !hasDuty || fin:
		wt["start"] += 30
	case dval != "none" && dec:
		wt["post"] += 40
	case dval != "none": // signed, but the instance the runner points to never decides (dropped by the controller)
		wt["start"] += 12
		wt["post"] += 6
	case runH != 0 && !dec:
		if _, sent := t.lastVal[runH]; !sent {
			wt["proposal"] += 40
			wt["commit"] += 4
		} else {
			wt["proposal"] += 4
			wt["commit"] += 40
		}
		wt["decided"] += 4
	case hasPre(t.role) && runH == 0:
		wt["pre"] += 40
	}
	if !hasPre(t.role) {
		wt["pre"] = 1
	}
	total := 0
	for _, k := range kinds {
		total += wt[k]
	}
	x, kind := g.rng.Intn(total), ""
	for _, k := range kinds {
		if x < wt[k] {
			kind = k
			break
		}
		x -= wt[k]
	}
	burst := 1 + g.rng.Intn(t.q+1)
	switch kind {
	case "start":
		s := 0
		switch y := g.rng.Intn(100); {
		case y < 50:
			s = ctrlH + 1
		case y < 65:
			s = ctrlH // equal: refused unless nothing was started yet
		case y < 80:
			s = 1 + g.rng.Intn(ctrlH+1) // older
		default:
			s = g.slotAny()
		}
		return []map[string]any{{"event": "StartDuty", "s": min(capSlot(s), traceMaxSlot-1)}}
	case "pre":
		if !hasPre(t.role) {
			return []map[string]any{{"event": "Pre", "signer": 1 + g.rng.Intn(t.n), "slot": d, "osl": d}}
		}
		out := []map[string]any{}
		for _, s := range g.signers(burst) {
			slot, osl := d, d
			switch y := g.rng.Intn(100); {
			case y < 6:
				slot, osl = d+1, d+1
			case y < 11:
				osl = d + 32 // proofs of a slot of another epoch (the RANDAO proof is bound to the epoch only)
			case y < 15:
				slot, osl = capSlot(d-1), capSlot(d-1)
			}
			out = append(out, map[string]any{"event": "Pre", "signer": s, "slot": slot, "osl": osl})
		}
		return out
	case "proposal":
		h := d
		if g.rng.Intn(100) >= 70 {
			h = g.slotAny()
		}
		v := g.val(55, 25)
		if v != "invalid" {
			if _, ok := t.lastVal[h]; !ok || g.rng.Intn(4) == 0 {
				t.lastVal[h] = v
			}
		}
		return []map[string]any{{"event": "Proposal", "h": h, "v": v}}
	case "prepare":
		h, v := g.hv(d)
		out := []map[string]any{}
		for _, s := range g.signers(1 + g.rng.Intn(3)) {
			out = append(out, map[string]any{"event": "Prepare", "h": h, "v": v, "signer": s})
		}
		return out
	case "commit":
		h, v := g.hv(d)
		out := []map[string]any{}
		for _, s := range g.signers(burst) {
			out = append(out, map[string]any{"event": "Commit", "h": h, "v": v, "signer": s})
		}
		return out
	case "decided":
		h := d
		switch y := g.rng.Intn(100); {
		case y < 35:
		case y < 60:
			h = d + 1 + g.rng.Intn(2) // future: bumps the controller, may evict the running instance
		case y < 80:
			h = 1 + g.rng.Intn(d) // past or current
		default:
			h = g.slotAny()
		}
		return []map[string]any{{"event": "Decided", "h": capSlot(h), "v": g.val(50, 30), "q": []string{"q1", "q2", "all"}[g.rng.Intn(3)]}}
	case "post":
		slot := d
		if g.rng.Intn(100) >= 88 {
			slot = g.slotAny()
		}
		v := "valid"
		if dval == "alt" {
			v = "alt"
		}
		if g.rng.Intn(100) >= 80 {
			v = []string{"valid", "alt"}[g.rng.Intn(2)]
		}
		out := []map[string]any{}
		for _, s := range g.signers(burst) {
			out = append(out, map[string]any{"event": "Post", "signer": s, "slot": slot, "v": v})
		}
		return out
	default:
		c := []string{"otherValidator", "otherRoleEnv", "otherRoleId"}[g.rng.Intn(3)]
		kind := []string{"decided", "decided", "commit", "post"}[g.rng.Intn(4)]
		if c == "otherRoleId" && kind == "post" {
			kind = "decided" // a partial-signature message has no identifier of its own
		}
		h := d
		if g.rng.Intn(2) == 0 {
			h = g.slotAny()
		}
		return []map[string]any{{"event": "Foreign", "c": c, "kind": kind, "h": h, "v": g.val(70, 30), "signer": 1 + g.rng.Intn(t.n)}}
	}
}

// (height, value) of prepare / commit traffic: mostly what a proposal was sent for
func (g *gen) hv(d int) (int, string) {
	h := d
	if g.rng.Intn(100) >= 70 {
		h = g.slotAny()
	}
	if v, ok := g.t.lastVal[h]; ok && g.rng.Intn(100) < 85 {
		return h, v
	}
	return h, g.val(60, 30)
}

// the eviction prelude (every third run): the duty's instance, decided or not, is pushed out of the 2-slot container by
// decided messages of two higher heights, then its own decided message is replayed
func (g *gen) prelude() []map[string]any {
	t := g.t
	s := 1 + g.rng.Intn(2)
	out := []map[string]any{{"event": "StartDuty", "s": s}}
	if hasPre(t.role) {
		for i := 1; i <= t.q; i++ {
			out = append(out, map[string]any{"event": "Pre", "signer": i, "slot": s, "osl": s})
		}
	}
	v := g.val(60, 40)
	qs := []string{"q1", "q2", "all"}
	switch g.rng.Intn(3) {
	case 0:
		out = append(out, map[string]any{"event": "Proposal", "h": s, "v": v})
		for _, i := range g.rng.Perm(t.n)[:t.q] {
			out = append(out, map[string]any{"event": "Commit", "h": s, "v": v, "signer": i + 1})
		}
	case 1:
		out = append(out, map[string]any{"event": "Decided", "h": s, "v": v, "q": qs[g.rng.Intn(3)]})
	}
	hs := []int{s + 1, s + 2}
	if g.rng.Intn(2) == 0 {
		hs = []int{s + 2, s + 1}
	}
	for _, h := range hs {
		out = append(out, map[string]any{"event": "Decided", "h": h, "v": g.val(60, 40), "q": qs[g.rng.Intn(3)]})
	}
	for j := 0; j < 2+g.rng.Intn(2); j++ {
		out = append(out, map[string]any{"event": "Decided", "h": s, "v": v, "q": qs[g.rng.Intn(3)]})
	}
	return out
}

func recordRuns(seed int64, runs int, trNoPre, trPre string, res *vh.Result) {
	rng := rand.New(rand.NewSource(seed*7919 + 17))
	wn, err := vh.NewTraceWriter(trNoPre)
	if err != nil {
		machinery("%v", err)
	}
	wp, err := vh.NewTraceWriter(trPre)
	if err != nil {
		machinery("%v", err)
	}
	perRole := map[string]int{}
	for k := 0; k < runs; k++ {
		role := rk.ConsensusRoles[(k+int(seed))%len(rk.ConsensusRoles)]
		n := []int{4, 4, 4, 7}[rng.Intn(4)]
		t := newTWorld(role, n, res, fmt.Sprintf("rec-%d@%s/n%d", k, role, n))
		tw := wn
		if hasPre(role) {
			tw = wp
		}
		tw.Emit(map[string]any{"event": "Reset", "run": k, "role": role, "pre": hasPre(role), "n": n, "q": t.q})
		g := &gen{t: t, rng: rng}
		target := 18 + rng.Intn(24)
		count := 0
		emit := func(evs []map[string]any) {
			for _, ev := range evs {
				t.step = count
				isErr, sigs := t.exec(ev)
				ev["err"] = isErr
				ev["obs"] = t.obs()
				ev["sigs"] = sigs
				tw.Emit(ev)
				count++
				if len(sigs) > 0 {
					res.Counters["record_calls_with_signatures"]++
				}
			}
		}
		if k%3 == 0 {
			emit(g.prelude())
		}
		for count < target {
			emit(g.next())
		}
		res.Behaviours++
		res.Steps += count
		perRole[role]++
		if t.nontrivial {
			res.Nontrivial++
		}
		t.kit.Close()
	}
	for r, c := range perRole {
		res.Counters["record_runs_"+r] = c
	}
	res.Counters["record_events_nopre"] = wn.N
	res.Counters["record_events_pre"] = wp.N
	if err := wn.Close(); err != nil {
		machinery("%v", err)
	}
	if err := wp.Close(); err != nil {
		machinery("%v", err)
	}
}

// retrace: a recorded slice (Reset first) on fresh real runners, Go monitor + comparison of the recorded projection
func retrace(path, reOut string, res *vh.Result) {
	f, err := os.Open(path)
	if err != nil {
		machinery("%v", err)
	}
	defer f.Close()
	var tw *vh.TraceWriter
	if reOut != "" {
		if tw, err = vh.NewTraceWriter(reOut); err != nil {
			machinery("%v", err)
		}
		defer tw.Close()
	}
	sc := bufio.NewScanner(f)
	sc.Buffer(make([]byte, 1<<20), 1<<26)
	var t *tworld
	line := 0
	for sc.Scan() {
		if len(sc.Bytes()) == 0 {
			continue
		}
		line++
		ev := map[string]any{}
		if err := json.Unmarshal(sc.Bytes(), &ev); err != nil {
			machinery("bad trace line %d: %v", line, err)
		}
		if evStr(ev, "event") == "Reset" {
			if t != nil {
				t.kit.Close()
			}
			t = newTWorld(evStr(ev, "role"), evInt(ev, "n"), res, fmt.Sprintf("retrace-%d@%s/n%d", evInt(ev, "run"), evStr(ev, "role"), evInt(ev, "n")))
			res.Behaviours++
			if tw != nil {
				tw.Emit(ev)
			}
			continue
		}
		if t == nil {
			machinery("trace slice does not start with a Reset event")
		}
		t.step = line
		wantErr, wantObs, wantSigs := vh.Bool(ev, "err"), vh.Map(ev, "obs"), vh.List(ev, "sigs")
		isErr, sigs := t.exec(ev)
		res.Steps++
		if len(sigs) > 0 {
			res.Counters["retrace_calls_with_signatures"]++
		}
		if tw != nil {
			ev["err"], ev["obs"], ev["sigs"] = isErr, t.obs(), sigs
			tw.Emit(ev)
		}
		if isErr != wantErr {
			res.Diverge(t.beh, line, "err", wantErr, isErr)
		}
		if wantObs != nil {
			got, _ := json.Marshal(t.obs())
			want, _ := json.Marshal(wantObs)
			var a, b any
			_ = json.Unmarshal(got, &a)
			_ = json.Unmarshal(want, &b)
			ga, _ := json.Marshal(a)
			wb, _ := json.Marshal(b)
			if string(ga) != string(wb) {
				res.Diverge(t.beh, line, "obs", string(wb), string(ga))
			}
		}
		if wantSigs != nil && len(wantSigs) != len(sigs) {
			res.Diverge(t.beh, line, "len(sigs)", len(wantSigs), len(sigs))
		}
	}
	if t != nil {
		if t.nontrivial {
			res.Nontrivial++
		}
		t.kit.Close()
	}
}
