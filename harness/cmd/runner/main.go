// Driver for spec/Runner.tla (property C03): replays TLC behaviours on REAL duty runners of the five consensus
// roles (attester, proposer full/blinded, aggregator, sync committee, sync-committee contribution) built around a real
// QBFT controller, routed through a real validator.Validator.ProcessMessage, and watches the key manager.
//
// MONITOR (from the KeyManager spy only): every SignBeaconObject call must be either
//
//	(a) a pre-consensus proof (RANDAO reveal / selection proofs) for the slot of the duty being started, made inside
//	    Validator.StartDuty, or
//	(b) over an object contained in the value the runner's RUNNING instance decided, the instance's height being the
//	    duty's slot, the value passing the role's value check (evaluated by the harness with the reference value
//	    check), caused by a message for this validator and role while the duty was running, at most once per
//	    decided object.
//
// The controllers are built with the PRODUCTION constructor (StoredInstances capacity 2). When the controller pushed the
// running instance out of its container BEFORE that instance decided, "the value decided for the duty's slot" is the
// value of the (harness-certified) decided message of that height; a second signature over it is classified
// signed-twice-evicted-undecided (C03 finding), a second signature in every other situation signed-twice.
//
// Signatures: signed-undecided-object, signed-before-decision, signed-invalid-value, signed-twice,
// signed-twice-evicted-undecided, signed-for-foreign-message, signed-after-finished, signed-wrong-slot.
package main

import (
	"bytes"
	"flag"
	"fmt"
	"math/rand"
	"os"
	"strings"

	"github.com/attestantio/go-eth2-client/spec/phase0"
	specqbft "github.com/bloxapp/ssv-spec/qbft"
	specssv "github.com/bloxapp/ssv-spec/ssv"
	spectypes "github.com/bloxapp/ssv-spec/types"
	tu "github.com/bloxapp/ssv-spec/types/testingutils"

	"github.com/bloxapp/ssv/protocol/v2/ssv/runner"

	rk "verif/harness/runnerkit"
	"verif/harness/vh"
)

func machinery(format string, a ...any) {
	fmt.Fprintf(os.Stderr, "harness failure: "+format+"\n", a...)
	os.Exit(4)
}

func hasPre(role string) bool {
	return role == rk.Proposer || role == rk.ProposerBlinded || role == rk.Aggregator || role == rk.Contribution
}

// the reference value check of a role (ssv-spec), on the harness's own key manager: independent of the runner's copy
func refValueCheck(kit *rk.Kit, role string) specqbft.ProposedValueCheckF {
	km := tu.NewTestingKeyManager()
	vpk := rk.ValidatorPK(kit.KS)
	switch role {
	case rk.Attester:
		return specssv.AttesterValueCheckF(km, spectypes.BeaconTestNetwork, vpk, tu.TestingValidatorIndex, nil)
	case rk.Proposer, rk.ProposerBlinded:
		return specssv.ProposerValueCheckF(km, spectypes.BeaconTestNetwork, vpk, tu.TestingValidatorIndex, nil)
	case rk.Aggregator:
		return specssv.AggregatorValueCheckF(km, spectypes.BeaconTestNetwork, vpk, tu.TestingValidatorIndex)
	case rk.SyncCommittee:
		return specssv.SyncCommitteeValueCheckF(km, spectypes.BeaconTestNetwork, vpk, tu.TestingValidatorIndex)
	case rk.Contribution:
		return specssv.SyncCommitteeContributionValueCheckF(km, spectypes.BeaconTestNetwork, vpk, tu.TestingValidatorIndex)
	}
	panic("no value check for " + role)
}

type world struct {
	kit    *rk.Kit
	role   string
	br     spectypes.BeaconRole
	q, n   int
	res    *vh.Result
	beh    string
	step   int
	valChk specqbft.ProposedValueCheckF
	// harness bookkeeping
	seenCalls  int
	signed     map[string]int  // (instance height, object root, domain) -> times signed
	certified  map[string]bool // (height, value hash) for which the harness delivered a quorum-backed decision
	reported   map[string]bool
	sigEntries int // harness calls in which at least one SignBeaconObject happened (pre-consensus proofs: once per slot)
	preSlots   map[phase0.Slot]bool
	nontrivial bool
}

func newWorld(role string, n int, res *vh.Result, beh string) *world {
	kit := rk.New(rk.Options{N: n, Blinded: role == rk.ProposerBlinded, NContrib: 2})
	w := &world{kit: kit, role: role, br: rk.BeaconRole(role), q: int(kit.Share.Quorum), n: n, res: res, beh: beh,
		signed: map[string]int{}, certified: map[string]bool{}, reported: map[string]bool{}, preSlots: map[phase0.Slot]bool{}}
	w.valChk = refValueCheck(kit, role)
	return w
}

func (w *world) violate(sig, desc string) {
	if w.reported[sig] {
		return
	}
	w.reported[sig] = true
	if sig != "signed-twice-evicted-undecided" {
		w.res.Counters["cap"]++ // the recorded finding must not stop the replay of the remaining behaviours
	}
	w.res.Violate(sig, fmt.Sprintf("[%s] %s", w.role, desc), w.beh, w.step)
}

func (w *world) base() *runner.BaseRunner { return w.kit.Runner(w.role).GetBaseRunner() }

type snap struct {
	hasState bool
	finished bool
	duty     phase0.Slot
}

func (w *world) snapshot() snap {
	st := w.base().State
	if st == nil {
		return snap{}
	}
	return snap{hasState: true, finished: st.Finished, duty: st.StartingDuty.Slot}
}

// ctx describes the harness call during which signatures are looked for
type ctx struct {
	kind      string // "StartDuty" | "msg"
	startSlot phase0.Slot
	startOK   bool
	foreign   bool
	msgHeight int // height of the consensus message (0: not a consensus message)
	decided   []byte // the message is a decided message (aggregated quorum of commits) carrying this value
	what      string
}

func key(h uint64, root [32]byte, dt phase0.DomainType) string {
	return fmt.Sprintf("%d/%x/%x", h, root, dt)
}

func inRefs(refs []rk.ObjRef, c rk.SignCall) bool {
	for _, o := range refs {
		if o.ObjRoot == c.ObjRoot && o.DomainType == c.DomainType {
			return true
		}
	}
	return false
}

// checkSigs runs the C03 monitor on the SignBeaconObject calls made during one harness call.
func (w *world) checkSigs(c ctx, before snap) {
	calls := w.kit.KM.Calls
	any := false
	for ; w.seenCalls < len(calls); w.seenCalls++ {
		sc := calls[w.seenCalls]
		if sc.Kind != "SignBeaconObject" {
			continue
		}
		any = true
		w.nontrivial = true
		if c.kind == "StartDuty" {
			duty := w.kit.DutyFor(w.role, c.startSlot)
			switch {
			case !c.startOK:
				w.violate("signed-wrong-slot", fmt.Sprintf("StartDuty(slot %d) was refused and still made a validator-key signature (%s)", c.startSlot, c.what))
			case inRefs(w.kit.PreObjects(w.role, duty), sc):
			default:
				other := false
				for s := phase0.Slot(0); s <= c.startSlot+40; s++ {
					if s != c.startSlot && inRefs(w.kit.PreObjects(w.role, w.kit.DutyFor(w.role, s)), sc) {
						other = true
					}
				}
				if other {
					w.violate("signed-wrong-slot", fmt.Sprintf("StartDuty(slot %d) signed a pre-consensus proof of another slot", c.startSlot))
				} else {
					w.violate("signed-undecided-object", fmt.Sprintf("StartDuty(slot %d) made a validator-key signature that is not the pre-consensus proof of that slot (object %x)", c.startSlot, sc.ObjRoot[:6]))
				}
			}
			continue
		}
		// signatures caused by a message
		if c.foreign {
			w.violate("signed-for-foreign-message", "a message addressed to another validator / role caused a validator-key signature ("+c.what+")")
			continue
		}
		if before.hasState && before.finished {
			w.violate("signed-after-finished", "a message delivered after the duty finished caused a validator-key signature ("+c.what+")")
			continue
		}
		st := w.base().State
		if !before.hasState || st == nil || st.RunningInstance == nil {
			w.violate("signed-before-decision", "validator-key signature while the runner has no running consensus instance ("+c.what+")")
			continue
		}
		decided, val := st.RunningInstance.IsDecided()
		h := uint64(st.RunningInstance.GetHeight())
		// the controller dropped the running instance from its (2-slot) container before it decided: no message reaches it any more
		detached := !decided && w.base().QBFTController.StoredInstances.FindInstance(specqbft.Height(h)) != st.RunningInstance
		if !decided {
			if !(detached && c.decided != nil && uint64(c.msgHeight) == h) {
				w.violate("signed-before-decision", fmt.Sprintf("validator-key signature although the running instance (height %d) has not decided (%s)", h, c.what))
				continue
			}
			val = c.decided // the decision of the duty's height is the certified decided message itself
		}
		if phase0.Slot(h) != st.StartingDuty.Slot {
			w.violate("signed-wrong-slot", fmt.Sprintf("running instance height %d is not the duty's slot %d", h, st.StartingDuty.Slot))
			continue
		}
		if c.msgHeight != 0 && uint64(c.msgHeight) != h {
			w.violate("signed-undecided-object", fmt.Sprintf("a consensus message for height %d caused a validator-key signature of the duty at height %d (%s)", c.msgHeight, h, c.what))
			continue
		}
		cd := &spectypes.ConsensusData{}
		if err := cd.Decode(val); err != nil {
			w.violate("signed-undecided-object", "the decided value of the running instance is no consensus data and something was signed")
			continue
		}
		if !w.certified[fmt.Sprintf("%d/%x", h, val)] {
			w.violate("signed-undecided-object", fmt.Sprintf("the running instance reports a decided value for height %d that no delivered quorum certified", h))
			continue
		}
		if err := w.valChk(val); err != nil {
			w.violate("signed-invalid-value", fmt.Sprintf("signed an object of a decided value that fails the duty's value check (%v) (%s)", err, c.what))
			continue
		}
		if !inRefs(w.kit.DecidedObjects(w.role, cd), sc) {
			w.violate("signed-undecided-object", fmt.Sprintf("signed object %x is not contained in the value the running instance decided at height %d (%s)", sc.ObjRoot[:6], h, c.what))
			continue
		}
		k := key(h, sc.ObjRoot, sc.DomainType)
		w.signed[k]++
		if w.signed[k] > 1 {
			if detached {
				w.violate("signed-twice-evicted-undecided", fmt.Sprintf("decided object %x of height %d was signed %d times: the controller dropped the running instance before it decided and reports every decided message of its height as new (%s)", sc.ObjRoot[:6], h, w.signed[k], c.what))
			} else {
				w.violate("signed-twice", fmt.Sprintf("decided object %x of height %d was signed %d times (%s)", sc.ObjRoot[:6], h, w.signed[k], c.what))
			}
		}
	}
	if any {
		// spec bookkeeping: the pre-consensus proof of a slot is one entry however often the slot is started
		if c.kind == "StartDuty" {
			if !w.preSlots[c.startSlot] {
				w.preSlots[c.startSlot] = true
				w.sigEntries++
			}
		} else {
			w.sigEntries++
		}
	}
}

func (w *world) deliver(c ctx, msgs ...*spectypes.SSVMessage) {
	for _, m := range msgs {
		before := w.snapshot()
		_ = w.kit.Deliver("msg", m) // refusals are expected
		w.checkSigs(c, before)
	}
}

func (w *world) certify(h int, cd *spectypes.ConsensusData) {
	b, err := cd.Encode()
	if err != nil {
		panic(err)
	}
	w.certified[fmt.Sprintf("%d/%x", h, b)] = true
}

func (w *world) startDuty(s int) bool {
	d := w.kit.DutyFor(w.role, phase0.Slot(s))
	before := w.snapshot()
	err := w.kit.StartDuty("StartDuty", d)
	w.checkSigs(ctx{kind: "StartDuty", startSlot: phase0.Slot(s), startOK: err == nil, what: fmt.Sprintf("StartDuty(%d) err=%v", s, err)}, before)
	return err == nil
}

func (w *world) curDutySlot() phase0.Slot {
	if st := w.base().State; st != nil {
		return st.StartingDuty.Slot
	}
	return 1
}

func (w *world) recvPre(c string) {
	slot := w.curDutySlot()
	objSlot := slot
	if c == "wrongSlot" {
		objSlot = slot + 1
	}
	objs := w.kit.PreObjects(w.role, w.kit.DutyFor(w.role, objSlot))
	cx := ctx{kind: "msg", what: "pre-consensus " + c}
	switch c {
	case "quorum":
		for s := 1; s <= w.q; s++ {
			w.deliver(cx, w.kit.GoodPartialSigMsg(w.br, rk.PreType(w.role), slot, spectypes.OperatorID(s), objs))
		}
	case "one":
		w.deliver(cx, w.kit.GoodPartialSigMsg(w.br, rk.PreType(w.role), slot, spectypes.OperatorID(w.n), objs))
	case "wrongSlot":
		w.deliver(cx, w.kit.GoodPartialSigMsg(w.br, rk.PreType(w.role), objSlot, 2, objs))
	}
}

func (w *world) recvSeq(h int, v string) {
	cd := w.kit.ConsensusDataFor(w.role, phase0.Slot(h), v)
	w.certify(h, cd)
	w.deliver(ctx{kind: "msg", msgHeight: h, what: fmt.Sprintf("deciding sequence height %d value %s", h, v)},
		w.kit.DecidingMsgs(w.br, w.br, cd, specqbft.Height(h))...)
}

func (w *world) recvDecided(h int, v string, q string) {
	cd := w.kit.ConsensusDataFor(w.role, phase0.Slot(h), v)
	w.certify(h, cd)
	enc, _ := cd.Encode()
	ids := w.kit.QuorumIDs(q)
	w.deliver(ctx{kind: "msg", msgHeight: h, decided: enc, what: fmt.Sprintf("decided message height %d value %s signers %v", h, v, ids)},
		w.kit.DecidedMsgBy(w.br, w.br, cd, specqbft.Height(h), ids))
}

func otherRole(role string) string {
	if role == rk.Attester {
		return rk.Aggregator
	}
	return rk.Attester
}

func (w *world) recvForeign(c string, h int, v string) {
	cd := w.kit.ConsensusDataFor(w.role, phase0.Slot(h), v)
	cx := ctx{kind: "msg", foreign: true, msgHeight: h, what: "foreign " + c}
	switch c {
	case "otherValidator":
		// envelope of another validator, content a decided message that is valid for this validator and role
		m := w.kit.DecidedMsg(w.br, w.br, cd, specqbft.Height(h), w.q)
		m.MsgID = spectypes.NewMsgID(w.kit.Share.DomainType, tu.TestingWrongValidatorPubKey[:], w.br)
		w.deliver(cx, m)
	case "otherRole":
		ob := rk.BeaconRole(otherRole(w.role))
		// (1) envelope and identifier of another role, our value; (2) our envelope, identifier of another role
		w.deliver(cx, w.kit.DecidedMsg(ob, ob, cd, specqbft.Height(h), w.q), w.kit.DecidedMsg(w.br, ob, cd, specqbft.Height(h), w.q))
	}
}

// dvalOf classifies State.DecidedValue against the harness's values
func (w *world) dvalOf() string {
	st := w.base().State
	if st == nil || st.DecidedValue == nil {
		return "none"
	}
	got, _ := st.DecidedValue.Encode()
	for _, v := range []string{"valid", "alt", "invalid"} {
		for h := 1; h <= 4; h++ {
			b, _ := w.kit.ConsensusDataFor(w.role, phase0.Slot(h), v).Encode()
			if bytes.Equal(b, got) {
				return v
			}
		}
	}
	return "unknown"
}

func (w *world) recvPost(c string) {
	st := w.base().State
	slot := w.curDutySlot()
	v := "valid"
	if st != nil && st.DecidedValue != nil {
		slot = st.DecidedValue.Duty.Slot
		if dv := w.dvalOf(); dv == "alt" {
			v = dv
		}
	}
	objs := w.kit.DecidedObjects(w.role, w.kit.ConsensusDataFor(w.role, slot, v))
	cx := ctx{kind: "msg", what: "post-consensus " + c}
	switch c {
	case "quorum":
		for s := 1; s <= w.q; s++ {
			w.deliver(cx, w.kit.GoodPartialSigMsg(w.br, spectypes.PostConsensusPartialSig, slot, spectypes.OperatorID(s), objs))
		}
	case "one":
		w.deliver(cx, w.kit.GoodPartialSigMsg(w.br, spectypes.PostConsensusPartialSig, slot, spectypes.OperatorID(w.n), objs))
	}
}

// projection of the real objects on the spec's variables
func (w *world) project() map[string]any {
	b := w.base()
	out := map[string]any{"duty": 0, "runH": 0, "runIn": false, "dval": "none", "finished": false, "ctrlH": int(b.QBFTController.Height)}
	if st := b.State; st != nil {
		out["duty"] = int(st.StartingDuty.Slot)
		out["finished"] = st.Finished
		if ri := st.RunningInstance; ri != nil {
			out["runH"] = int(ri.GetHeight())
			out["runIn"] = b.QBFTController.StoredInstances.FindInstance(ri.GetHeight()) == ri
		}
		out["dval"] = w.dvalOf()
	}
	stored := []string{}
	for _, i := range b.QBFTController.StoredInstances {
		if i == nil {
			continue
		}
		st := "live"
		if i.State.Decided {
			st = "dec"
		}
		stored = append(stored, fmt.Sprintf("%d:%s", i.GetHeight(), st))
	}
	out["stored"] = stored
	out["sigs"] = w.sigEntries
	return out
}

func (w *world) conform(b string, i int, spec map[string]any, maxSig int) {
	if spec == nil {
		return
	}
	real := w.project()
	for _, f := range []string{"duty", "runH", "ctrlH"} {
		if sv, ok := spec[f].(float64); ok && int(sv) != real[f].(int) {
			w.res.Diverge(b, i, f, int(sv), real[f])
		}
	}
	if sv, ok := spec["dval"].(string); ok && sv != real["dval"].(string) {
		w.res.Diverge(b, i, "dval", sv, real["dval"])
	}
	for _, f := range []string{"finished", "runIn"} {
		if sv, ok := spec[f].(bool); ok && sv != real[f].(bool) {
			w.res.Diverge(b, i, f, sv, real[f])
		}
	}
	if sl, ok := spec["stored"].([]any); ok {
		want := []string{}
		for _, x := range sl {
			m, _ := x.(map[string]any)
			st := vh.Str(m, "st")
			if st == "run" || st == "stopped" {
				st = "live"
			}
			want = append(want, fmt.Sprintf("%d:%s", vh.Int(m, "h"), st))
		}
		if strings.Join(want, ",") != strings.Join(real["stored"].([]string), ",") {
			w.res.Diverge(b, i, "stored", want, real["stored"])
		}
	}
	if sl, ok := spec["sigLog"].([]any); ok && len(sl) < maxSig && len(sl) != w.sigEntries {
		w.res.Diverge(b, i, "len(sigLog)", len(sl), w.sigEntries)
	}
}

func replay(b vh.Behaviour, role string, n, maxSig int, res *vh.Result) {
	w := newWorld(role, n, res, b.ID+"@"+role)
	defer w.kit.Close()
	for i, st := range b.Steps {
		w.step = i
		a := st.Act
		switch name := vh.Str(a, "name"); name {
		case "init":
		case "StartDuty":
			ok := w.startDuty(vh.Int(a, "s"))
			if ok != vh.Bool(a, "ok") {
				res.Diverge(w.beh, i, "StartDuty.ok", vh.Bool(a, "ok"), ok)
			}
		case "RecvPre":
			w.recvPre(vh.Str(a, "c"))
		case "RecvSeq":
			w.recvSeq(vh.Int(a, "h"), vh.Str(a, "v"))
		case "RecvDecided":
			w.recvDecided(vh.Int(a, "h"), vh.Str(a, "v"), vh.Str(a, "q"))
		case "RecvForeign":
			w.recvForeign(vh.Str(a, "c"), vh.Int(a, "h"), vh.Str(a, "v"))
		case "RecvPost":
			w.recvPost(vh.Str(a, "c"))
		default:
			machinery("unknown action %q", name)
		}
		w.conform(w.beh, i, st.State, maxSig)
	}
	res.Behaviours++
	res.Steps += len(b.Steps)
	if w.nontrivial {
		res.Nontrivial++
	}
}

// random executions at the grain of single messages (the spec's macro steps are split and interleaved), monitors only
func randomRuns(seed int64, runs int, roles []string, res *vh.Result) {
	rng := rand.New(rand.NewSource(seed))
	vals := []string{"valid", "alt", "invalid"}
	quorums := []string{"q1", "q2", "all"}
	for k := 0; k < runs; k++ {
		role := roles[rng.Intn(len(roles))]
		n := []int{4, 4, 4, 7}[rng.Intn(4)]
		w := newWorld(role, n, res, fmt.Sprintf("own-%d@%s/n%d", k, role, n))
		// pending single consensus messages of deciding sequences, delivered in order per sequence but interleaved
		type seq struct {
			h    int
			msgs []*spectypes.SSVMessage
		}
		var pending []*seq
		steps := 14 + rng.Intn(14)
		// every third run starts with the eviction history: the duty's instance (decided or not) is pushed out of the
		// controller's 2-slot container by decided messages of two higher heights, then its own decided message is
		// replayed with the same and with other signer quorums
		if k%3 == 0 {
			s := 1 + rng.Intn(2)
			w.startDuty(s)
			if hasPre(role) {
				w.recvPre("quorum")
			}
			v := vals[rng.Intn(2)]
			switch rng.Intn(3) {
			case 0:
				w.recvSeq(s, v)
			case 1:
				w.recvDecided(s, v, quorums[rng.Intn(3)])
			}
			if rng.Intn(4) == 0 {
				w.recvPost("one")
			}
			hs := []int{s + 1, s + 2}
			if rng.Intn(2) == 0 {
				hs = []int{s + 2, s + 1}
			}
			for _, h := range hs {
				w.recvDecided(h, vals[rng.Intn(2)], quorums[rng.Intn(3)])
			}
			for j := 0; j < 2+rng.Intn(3); j++ {
				w.recvDecided(s, v, quorums[rng.Intn(3)])
			}
		}
		for i := 0; i < steps; i++ {
			w.step = i
			switch x := rng.Intn(12); {
			case x < 2:
				w.startDuty(1 + rng.Intn(3))
			case x < 4 && hasPre(role):
				w.recvPre([]string{"quorum", "one", "wrongSlot"}[rng.Intn(3)])
			case x < 6:
				h, v := 1+rng.Intn(3), vals[rng.Intn(3)]
				cd := w.kit.ConsensusDataFor(role, phase0.Slot(h), v)
				w.certify(h, cd)
				pending = append(pending, &seq{h: h, msgs: w.kit.DecidingMsgs(w.br, w.br, cd, specqbft.Height(h))})
			case x < 9 && len(pending) > 0:
				p := pending[rng.Intn(len(pending))]
				cnt := 1 + rng.Intn(4)
				for j := 0; j < cnt && len(p.msgs) > 0; j++ {
					w.deliver(ctx{kind: "msg", msgHeight: p.h, what: fmt.Sprintf("single consensus message height %d", p.h)}, p.msgs[0])
					p.msgs = p.msgs[1:]
				}
			case x < 10:
				w.recvDecided(1+rng.Intn(3), vals[rng.Intn(3)], quorums[rng.Intn(3)])
			case x < 11:
				w.recvForeign([]string{"otherValidator", "otherRole"}[rng.Intn(2)], 1+rng.Intn(3), "valid")
			default:
				w.recvPost([]string{"quorum", "one"}[rng.Intn(2)])
			}
		}
		res.Behaviours++
		res.Steps += steps
		if w.nontrivial {
			res.Nontrivial++
		}
		w.kit.Close()
	}
}

func main() {
	mode := flag.String("mode", "replay", "replay | random | record | retrace")
	trNoPre := flag.String("trace-nopre", "", "record: NDJSON trace of the roles without a pre-consensus phase")
	trPre := flag.String("trace-pre", "", "record: NDJSON trace of the roles with a pre-consensus phase")
	reOut := flag.String("retrace-out", "", "retrace: NDJSON trace recorded again while the call sequence is re-run")
	in := flag.String("in", "", "behaviours NDJSON")
	out := flag.String("out", "", "result JSON")
	rolesF := flag.String("roles", "", "comma separated roles the behaviours are replayed on")
	all := flag.Bool("allroles", false, "replay every behaviour on every listed role (default: rotate)")
	maxSig := flag.Int("maxsig", 4, "MaxSig of the spec config (sigLog stops growing there)")
	seed := flag.Int64("seed", 1, "seed")
	runs := flag.Int("runs", 100, "own random executions")
	flag.Parse()
	res := vh.NewResult()
	roles := rk.ConsensusRoles
	if *rolesF != "" {
		roles = strings.Split(*rolesF, ",")
	}
	switch *mode {
	case "replay":
		behs, err := vh.ReadBehaviours(*in)
		if err != nil {
			fmt.Fprintln(os.Stderr, err)
			os.Exit(3)
		}
		for i, b := range behs {
			if *all || strings.HasPrefix(b.Kind, "attack") {
				for _, role := range roles {
					replay(b, role, 4, *maxSig, res)
				}
				continue
			}
			if res.Counters["cap"] > 40 {
				continue // enough evidence on a broken tree; attack traces are still replayed
			}
			replay(b, roles[(i+int(*seed))%len(roles)], 4, *maxSig, res)
		}
		if len(behs) > 0 {
			res.Samples = append(res.Samples, behs[len(behs)/2])
		}
	case "random":
		randomRuns(*seed, *runs, roles, res)
	case "record":
		recordRuns(*seed, *runs, *trNoPre, *trPre, res)
	case "retrace":
		retrace(*in, *reOut, res)
	default:
		machinery("unknown mode %q", *mode)
	}
	if err := res.Write(*out); err != nil {
		fmt.Fprintln(os.Stderr, err)
		os.Exit(3)
	}
}
