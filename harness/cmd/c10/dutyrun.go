// Replay of spec/PartialTimely.tla behaviours on the duty world (duty.go) + the C10 monitor for partial-signature
// messages (and for the consensus messages the real runners emit with real consensus data).
//
// Actions of the spec and what the driver does for them:
//
//	StartDuty(op)         Validator.StartDuty(duty) of that operator (pre-consensus roles broadcast their proofs)
//	RecvPre(to, from)     from's pre-consensus message -> Validator.ProcessMessage of `to` (on quorum: consensus starts)
//	BeginConsensus        the clock enters round 1
//	FailRound(round)      round `round` fails (leader silent, or its proposal is late for everybody): the armed round
//	                      timers of all correct operators fire, every round-change is delivered to every operator, the
//	                      next leader proposes; the clock enters round+1
//	Decide(op, round)     (first in a round: the round's proposal and every prepare go to every operator) the commits
//	                      go to `op`: it decides and broadcasts its post-consensus message
//	RecvPost(to, from)    from's post-consensus message -> `to`
//	RecvPreAll(to) / RecvPostAll(to)   quorum grain: the messages of all correct operators, in signer order
//	Tick                  the clock moves to the next position inside the current round / pre-consensus interval
//
// Every broadcast is validated, when it appears, by the gate of every other correct peer at the clock's time
// (in emission order), and a second time by a second set of gates in REVERSE emission order at the end of each
// clock position (only `reject` is asserted there).
package main

import (
	"fmt"
	"sort"
	"time"

	"github.com/attestantio/go-eth2-client/spec/phase0"
	specqbft "github.com/bloxapp/ssv-spec/qbft"
	spectypes "github.com/bloxapp/ssv-spec/types"

	"github.com/bloxapp/ssv/protocol/v2/qbft/roundtimer"

	kit "verif/harness/qbftkit"
	rk "verif/harness/runnerkit"
	"verif/harness/valkit"
	"verif/harness/vh"
)

var dutyRoles = map[string]string{
	"attester": rk.Attester, "aggregator": rk.Aggregator, "proposer": rk.Proposer, "proposer_blinded": rk.ProposerBlinded,
	"sync": rk.SyncCommittee, "contribution": rk.Contribution, "registration": rk.Registration, "exit": rk.Exit,
}

const slotDur = 12 * time.Second

// roundStart / roundEnd: the real round-timer arithmetic (roundtimer.RoundTimer.RoundTimeout): round r of a duty ends
// base + r*quick after the slot start (r <= threshold), base + threshold*quick + (r-threshold)*slow after it.
// For the proposer the timer is anchored at the instance start; the earliest possible start (slot start) is used, which
// is the tightest case for the gate's estimated round.
func roundEnd(role spectypes.BeaconRole, r int) time.Duration {
	th := int(roundtimer.QuickTimeoutThreshold)
	if r <= th {
		return baseDelay(role) + time.Duration(r)*roundtimer.QuickTimeout
	}
	return baseDelay(role) + time.Duration(th)*roundtimer.QuickTimeout + time.Duration(r-th)*roundtimer.SlowTimeout
}

func roundStart(role spectypes.BeaconRole, r int) time.Duration {
	if r <= 1 {
		return baseDelay(role)
	}
	return roundEnd(role, r-1)
}

// lateSlots[role]: the number of whole slots after the duty's slot during which the gate does not call a consensus
// message of that role late - PROBED on the real validator (probeWindows), so that the clock positions used for
// validation stay inside the window the unchanged or changed tree really has.
var lateSlots = map[spectypes.BeaconRole]int{}

// probeWindow asks fresh real validators up to which slot after the duty's slot a correct round-1 proposal of the role
// is not classified "late message" (once per role and process).
func probeWindow(env *valkit.Env, role spectypes.BeaconRole) {
	if _, ok := lateSlots[role]; ok {
		return
	}
	switch role {
	case spectypes.BNRoleValidatorRegistration, spectypes.BNRoleVoluntaryExit:
		return // no consensus messages
	}
	height := uint64(89600)
	w := newPooledWorld(4, []int{2, 3, 4}, height, map[int]string{1: "a", 2: "b", 3: "b", 4: "b"}, role)
	defer releaseWorlds()
	if err := w.Start(1); err != nil || len(w.Pool) == 0 {
		panic(fmt.Sprintf("probeWindow: no round-1 proposal: %v", err))
	}
	prop := w.Pool[0].Raw
	n := 0
	for k := 1; k <= 40; k++ {
		p := env.NewPeer(farFork)
		out := p.ValidateSSV(prop, phase0.Slot(height+uint64(k)), 6*time.Second, false)
		if out.Rule == "late message" {
			break
		}
		n = k
	}
	lateSlots[role] = n
}

// windowEnd: the last instant (relative to the slot start) at which a consensus message of the role is inside its slot
// window, minus a margin of 1.5 s.
func windowEnd(role spectypes.BeaconRole) time.Duration {
	n, ok := lateSlots[role]
	if !ok {
		return 1 << 60
	}
	return time.Duration(n+1)*slotDur - 1500*time.Millisecond
}

// clockTime: the virtual time of clock position (gr, pos). gr = 0 is the pre-consensus interval [slot start, start of
// round 1); gr >= 1 is consensus round gr. pos: 0 just after the start, 1 middle, 2 just before the end.
// ok = false: the position is outside the role's slot window (nothing is validated there).
func clockTime(role spectypes.BeaconRole, gr, pos int) (d time.Duration, ok bool) {
	var start, end time.Duration
	if gr == 0 {
		start, end = 0, baseDelay(role)
		if end < 3*time.Second {
			end = 3 * time.Second // proposer: the pre-consensus interval overlaps round 1
		}
	} else {
		start, end = roundStart(role, gr), roundEnd(role, gr)
	}
	we := windowEnd(role)
	if start+150*time.Millisecond > we {
		return 0, false
	}
	if end > we {
		end = we
	}
	switch pos {
	case 0:
		d = start + 150*time.Millisecond
	case 1:
		d = start + (end-start)/2
	default:
		d = end - 150*time.Millisecond
	}
	return d, true
}

type dutyRun struct {
	w        *dutyWorld
	env      *valkit.Env
	peers    map[kit.OpID]*valkit.Peer
	peersRev map[kit.OpID]*valkit.Peer
	res      *vh.Result
	b        vh.Behaviour
	step     int
	gr, pos  int
	seen     int
	pending  []*dBroadcast // validated in reverse order at the end of the clock position
	sync     bool
	ranRound map[int]bool
	maxRound int
	roleName string // the role's name in the specs ("sync", "contribution", ...)
}

func newDutyRun(b vh.Behaviour, res *vh.Result, env *valkit.Env) *dutyRun {
	p := b.Params
	n := toInt(p["N"])
	if n == 0 {
		n = 4
	}
	var silent []int
	for _, x := range vh.List(p, "Silent") {
		silent = append(silent, toInt(x))
	}
	var indices []uint64
	for _, x := range vh.List(p, "Indices") {
		indices = append(indices, uint64(toInt(x)))
	}
	role, ok := dutyRoles[vh.Str(p, "role")]
	if !ok {
		panic("unknown duty role " + vh.Str(p, "role"))
	}
	slot := uint64(89600 + toInt(p["LeaderOffset"]))
	r := &dutyRun{res: res, b: b, env: env, peers: map[kit.OpID]*valkit.Peer{}, peersRev: map[kit.OpID]*valkit.Peer{},
		sync: vh.Bool(p, "sync"), ranRound: map[int]bool{}, roleName: vh.Str(p, "role")}
	r.w = newDutyWorld(n, silent, role, slot, indices)
	probeWindow(env, r.w.BR)
	for _, h := range r.w.Honest {
		r.peers[h] = env.NewPeer(farFork)
		r.peersRev[h] = env.NewPeer(farFork)
	}
	return r
}

func kindOf(b *dBroadcast) string {
	switch {
	case b.Partial != nil:
		return fmt.Sprintf("partial-signature message type %d with %d signatures (slot %d)", b.Partial.Message.Type, len(b.Partial.Message.Messages), b.Partial.Message.Slot)
	case b.QBFT != nil:
		return fmt.Sprintf("consensus message type %d/%d signers (round %d)", b.QBFT.Message.MsgType, len(b.QBFT.Signers), b.QBFT.Message.Round)
	}
	return "message"
}

func (r *dutyRun) monitor(b *dBroadcast, p kit.OpID, out valkit.Outcome, inOrder bool) {
	r.res.Counters["validations"]++
	r.res.Counters["class:"+out.Class]++
	tag := "consensus"
	if b.Partial != nil {
		tag = "partial"
		r.res.Counters["partial_validations"]++
		r.res.Counters[fmt.Sprintf("partial:%s:type%d:n%d:%s", r.roleName, b.Partial.Message.Type, r.w.N, out.Class)]++
	}
	// a validation call that was descheduled for longer than the timing margin did not happen at the intended virtual
	// time: a time-dependent ignore (slot / round window) is then not evidence of anything
	if !out.TimeOK && out.Class == "ignore" && timeDependent(out.Rule) {
		r.res.Counters["timing_uncertain"]++
		return
	}
	where := fmt.Sprintf("peer %d, %s of correct operator %d, %s duty, committee %d, clock round %d position %d", p, kindOf(b), b.From, r.w.Role, r.w.N, r.gr, r.pos)
	switch {
	case out.Class == "panic" || out.Class == "hang":
		r.res.Violate("C10:validator-"+out.Class, where, r.b.ID, r.step)
	case out.Class == "reject" && b.Partial != nil && r.dupSubcommitteeFinding(b, out):
		// recorded finding: the contribution runner signs one selection proof per sync-committee POSITION; two positions of
		// the validator in one subcommittee give the same signing root twice and the gate rejects the message
		r.res.Violate("C10:honest-partial-sig-rejected:duplicated-roots-same-subcommittee", "REJECTED ("+out.Rule+"): "+where+
			fmt.Sprintf("; the duty's sync-committee positions %v share a subcommittee", r.w.Duty.ValidatorSyncCommitteeIndices), r.b.ID, r.step)
	case out.Class == "reject" && b.Partial != nil:
		r.res.Violate("C10:honest-partial-sig-rejected:"+out.Rule, "REJECTED: "+where+": "+out.Err, r.b.ID, r.step)
	case out.Class == "reject":
		r.res.Violate("C10:honest-message-rejected:"+out.Rule, "REJECTED: "+where+": "+out.Err, r.b.ID, r.step)
	case inOrder && r.sync && out.Class != "accept" && b.Partial != nil:
		r.res.Violate("C10:fault-free-partial-sig-not-accepted:"+out.Rule, "fault-free in-order run, not accepted: "+where+": "+out.Err, r.b.ID, r.step)
	case inOrder && r.sync && out.Class != "accept":
		r.res.Violate("C10:honest-message-not-accepted-in-sync-run:"+out.Rule, "fault-free in-order run, not accepted: "+where+": "+out.Err, r.b.ID, r.step)
	case out.Class == "ignore":
		r.res.Counters["ignored:"+tag+":"+out.Rule]++
	}
}

// timeDependent: the gate's rules whose outcome depends on the reception time.
func timeDependent(rule string) bool {
	switch rule {
	case "late message", "early message", "message round is too far from estimated":
		return true
	}
	return false
}

// dupSubcommitteeFinding recognises exactly the recorded finding: a ContributionProofs message of a contribution duty
// whose sync-committee positions share a subcommittee, rejected as "duplicated partial signature message".
func (r *dutyRun) dupSubcommitteeFinding(b *dBroadcast, out valkit.Outcome) bool {
	if r.w.Role != rk.Contribution || b.Partial.Message.Type != spectypes.ContributionProofs || out.Rule != "duplicated partial signature message" {
		return false
	}
	seen := map[uint64]bool{}
	shared := false
	for _, idx := range r.w.Duty.ValidatorSyncCommitteeIndices {
		sn := idx / (syncCommitteeSize / syncCommitteeSubnetCount)
		if seen[sn] {
			shared = true
		}
		seen[sn] = true
	}
	return shared && len(b.Partial.Message.Messages) == len(r.w.Duty.ValidatorSyncCommitteeIndices)
}

// validateNew: every not yet seen broadcast goes to the gates of all other correct peers, at the clock's time.
func (r *dutyRun) validateNew() {
	for ; r.seen < len(r.w.Pool); r.seen++ {
		b := r.w.Pool[r.seen]
		gr := r.gr
		// never behind the round stamped on a single-signer consensus message (a round-change for round r+1 is emitted
		// at the deadline of round r = the start of round r+1)
		if b.QBFT != nil && len(b.QBFT.Signers) == 1 && int(b.QBFT.Message.Round) > gr {
			gr = int(b.QBFT.Message.Round)
		}
		d, ok := clockTime(r.w.BR, gr, r.pos)
		if !ok {
			r.res.Counters["outside_slot_window"]++
			continue
		}
		slot, off := slotAndOffset(uint64(r.w.Slot), d)
		for _, p := range r.w.Honest {
			if p == b.From {
				continue
			}
			r.monitor(b, p, r.peers[p].ValidateSSV(b.Msg, slot, off, false), true)
		}
		r.pending = append(r.pending, b)
	}
}

// flushReverse: the broadcasts of the clock position that ends now are validated by the second set of gates in reverse
// emission order, at the last position of the current round.
func (r *dutyRun) flushReverse() {
	for k := len(r.pending) - 1; k >= 0; k-- {
		b := r.pending[k]
		gr := r.gr
		if b.QBFT != nil && len(b.QBFT.Signers) == 1 && int(b.QBFT.Message.Round) > gr {
			gr = int(b.QBFT.Message.Round)
		}
		d, ok := clockTime(r.w.BR, gr, 2)
		if !ok {
			continue
		}
		slot, off := slotAndOffset(uint64(r.w.Slot), d)
		for _, p := range r.w.Honest {
			if p == b.From {
				continue
			}
			r.monitor(b, p, r.peersRev[p].ValidateSSV(b.Msg, slot, off, false), false)
		}
	}
	r.pending = nil
}

func (r *dutyRun) diverge(field string, spec, real any) {
	r.res.Diverge(r.b.ID, r.step, field, spec, real)
}

func (r *dutyRun) deliverAll(bs []*dBroadcast, to []kit.OpID, what string) {
	for _, b := range bs {
		for _, t := range to {
			if err := r.w.Deliver(t, b); err != nil {
				r.res.Counters["refused:"+what]++
			}
			r.validateNew()
		}
	}
}

// inConsensus: the correct operators that have a consensus instance for the duty.
func (r *dutyRun) inConsensus() []kit.OpID {
	var out []kit.OpID
	for _, h := range r.w.Honest {
		if r.w.Instance(h) != nil {
			out = append(out, h)
		}
	}
	return out
}

func (r *dutyRun) failRound(round int) {
	ops := r.inConsensus()
	// the deadline of `round` passes: the clock enters round+1, the due timers fire
	r.flushReverse()
	r.gr = round + 1
	r.pos = 0
	for _, h := range ops {
		inst := r.w.Instance(h)
		if inst.State.Decided || int(inst.State.Round) != round {
			continue
		}
		if err := r.w.Timeout(h); err != nil {
			r.diverge("timeout", "ok", err.Error())
		}
		r.validateNew()
	}
	r.deliverAll(r.w.qbftOf(specqbft.RoundChangeMsgType, round+1), ops, "round-change")
}

func (r *dutyRun) runRound(round int) {
	if r.ranRound[round] {
		return
	}
	r.ranRound[round] = true
	ops := r.inConsensus()
	props := r.w.qbftOf(specqbft.ProposalMsgType, round)
	if len(props) == 0 {
		r.diverge("proposal", fmt.Sprintf("a proposal for round %d (leader %d)", round, r.w.Leader(round)), "none broadcast")
		return
	}
	r.deliverAll(props[:1], ops, "proposal")
	r.deliverAll(r.w.qbftOf(specqbft.PrepareMsgType, round), ops, "prepare")
}

func (r *dutyRun) apply(a map[string]any) {
	w := r.w
	name := vh.Str(a, "name")
	to := kit.OpID(vh.Int(a, "to"))
	from := kit.OpID(vh.Int(a, "from"))
	switch name {
	case "init":
	case "StartDuty":
		if err := w.StartDuty(to); err != nil {
			r.diverge("startDuty", "ok", err.Error())
		}
		r.validateNew()
	case "RecvPre", "RecvPost":
		b := w.partialOf(from, name == "RecvPost")
		if b == nil {
			r.diverge(name+".message", fmt.Sprintf("a partial-signature message of operator %d", from), "not broadcast")
			return
		}
		if err := w.Deliver(to, b); err != nil {
			r.diverge(name+".accepted", true, err.Error())
		}
		r.validateNew()
	case "RecvPreAll", "RecvPostAll":
		// quorum grain: the messages of all correct operators, in signer order
		for _, h := range w.Honest {
			b := w.partialOf(h, name == "RecvPostAll")
			if b == nil {
				r.diverge(name+".message", fmt.Sprintf("a partial-signature message of operator %d", h), "not broadcast")
				continue
			}
			if err := w.Deliver(to, b); err != nil {
				// after the quorum the duty is finished (post-consensus) and later messages are refused: expected
				r.res.Counters["refused:partial-after-quorum"]++
			}
			r.validateNew()
		}
	case "Tick":
		r.flushReverse()
		r.pos++
	case "BeginConsensus":
		r.flushReverse()
		r.gr, r.pos = 1, 0
	case "FailRound":
		r.failRound(vh.Int(a, "round"))
	case "Decide":
		round := vh.Int(a, "round")
		r.runRound(round)
		before := len(w.Pool)
		for _, c := range w.qbftOf(specqbft.CommitMsgType, round) {
			if err := w.Deliver(to, c); err != nil {
				r.res.Counters["refused:commit"]++
			}
			r.validateNew()
		}
		if inst := w.Instance(to); inst == nil || !inst.State.Decided {
			r.diverge("decided", true, false)
		}
		post := false
		for _, b := range w.Pool[before:] {
			if b.From == to && b.Partial != nil && b.Partial.Message.Type == spectypes.PostConsensusPartialSig {
				post = true
			}
		}
		if !post {
			r.diverge("post-consensus broadcast", true, false)
		}
		if round > r.maxRound {
			r.maxRound = round
		}
	default:
		panic("unknown duty action " + name)
	}
}

func replayDuty(b vh.Behaviour, res *vh.Result, env *valkit.Env) {
	r := newDutyRun(b, res, env)
	defer r.w.Close()
	for i, st := range b.Steps {
		r.step = i
		r.apply(st.Act)
		r.compare(st.State)
	}
	r.flushReverse()
	res.Behaviours++
	res.Steps += len(b.Steps)
	if r.seen > 0 {
		res.Nontrivial++
	}
	np := 0
	for _, x := range r.w.Pool {
		if x.Partial != nil {
			np++
		}
	}
	res.Counters["duty_behaviours"]++
	res.Counters["broadcasts"] += len(r.w.Pool)
	res.Counters["partial_broadcasts"] += np
	res.Counters[fmt.Sprintf("duty_max_round:%s:n%d:%02d", r.roleName, r.w.N, r.maxRound)]++
}

// compare: the spec's prediction of what has been emitted so far (psent: signer, kind, type, slot, number of roots)
// against the real broadcasts. A mismatch is a divergence, never a verdict.
func (r *dutyRun) compare(state map[string]any) {
	ps, ok := state["psent"].([]any)
	if !ok {
		return
	}
	var want, got []string
	for _, x := range ps {
		m, _ := x.(map[string]any)
		want = append(want, fmt.Sprintf("%d/%s/%d/%d", vh.Int(m, "signer"), vh.Str(m, "type"), vh.Int(m, "slot"), len(vh.List(m, "roots"))))
	}
	for _, b := range r.w.Pool {
		if b.Partial != nil {
			got = append(got, fmt.Sprintf("%d/%s/%d/%d", b.Partial.Signer, partialTypeName(b.Partial.Message.Type), int(uint64(b.Partial.Message.Slot)-uint64(r.w.Slot)), len(b.Partial.Message.Messages)))
		}
	}
	sort.Strings(want)
	sort.Strings(got)
	if fmt.Sprint(want) != fmt.Sprint(got) {
		r.diverge("psent", want, got)
	}
	r.res.Counters["state_comparisons"]++
}

func partialTypeName(t spectypes.PartialSigMsgType) string {
	switch t {
	case spectypes.PostConsensusPartialSig:
		return "post"
	case spectypes.RandaoPartialSig:
		return "randao"
	case spectypes.SelectionProofPartialSig:
		return "selection"
	case spectypes.ContributionProofs:
		return "contribution"
	case spectypes.ValidatorRegistrationPartialSig:
		return "registration"
	case spectypes.VoluntaryExitPartialSig:
		return "exit"
	}
	return fmt.Sprintf("type%d", t)
}
