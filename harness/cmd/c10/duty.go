// Duty world of the C10 driver (spec/PartialTimely.tla): N operators, each a REAL validator.Validator around the REAL
// duty runners of all seven roles and REAL QBFT controllers (production constructor), wired to one capturing network.
// A duty is run the way the node runs it - Validator.StartDuty, every message through Validator.ProcessMessage,
// timeouts as event messages - and EVERY broadcast of a correct operator (pre-consensus partial signatures, consensus
// messages with the real ConsensusData, decided messages, post-consensus partial signatures) is handed to the real
// message validator of every other correct peer at a virtual time inside the message's window.
package main

import (
	"context"
	"encoding/json"
	"fmt"
	"sort"

	"github.com/attestantio/go-eth2-client/spec"
	"github.com/attestantio/go-eth2-client/spec/phase0"
	specqbft "github.com/bloxapp/ssv-spec/qbft"
	specssv "github.com/bloxapp/ssv-spec/ssv"
	spectypes "github.com/bloxapp/ssv-spec/types"
	tu "github.com/bloxapp/ssv-spec/types/testingutils"
	"github.com/dgraph-io/badger/v4"
	ssz "github.com/ferranbt/fastssz"
	"go.uber.org/zap"

	qbftstorage "github.com/bloxapp/ssv/ibft/storage"
	"github.com/bloxapp/ssv/networkconfig"
	ssvmessage "github.com/bloxapp/ssv/protocol/v2/message"
	"github.com/bloxapp/ssv/protocol/v2/qbft"
	"github.com/bloxapp/ssv/protocol/v2/qbft/controller"
	"github.com/bloxapp/ssv/protocol/v2/qbft/instance"
	"github.com/bloxapp/ssv/protocol/v2/qbft/roundtimer"
	"github.com/bloxapp/ssv/protocol/v2/ssv/queue"
	"github.com/bloxapp/ssv/protocol/v2/ssv/runner"
	"github.com/bloxapp/ssv/protocol/v2/ssv/validator"
	ssvtypes "github.com/bloxapp/ssv/protocol/v2/types"
	"github.com/bloxapp/ssv/storage/basedb"
	"github.com/bloxapp/ssv/storage/kv"

	kit "verif/harness/qbftkit"
	rk "verif/harness/runnerkit"
)

// the sync-committee constants of the beacon client the node runs with (beacon/goclient/types.go)
const (
	syncCommitteeSize        = 512
	syncCommitteeSubnetCount = 4
)

// bnode is the beacon node of one operator: the spied testing node of runnerkit (slot dependent duty data) with the
// two sync-committee calls answered the way the node's real client answers them (beacon/goclient/
// sync_committee_contribution.go): subnet = index / (512 / 4); one contribution per requested subnet, carrying the
// selection proof it was requested with.
type bnode struct {
	*rk.BNSpy
}

func (b *bnode) SyncCommitteeSubnetID(index phase0.CommitteeIndex) (uint64, error) {
	return uint64(index) / (syncCommitteeSize / syncCommitteeSubnetCount), nil
}

func (b *bnode) GetSyncCommitteeContribution(slot phase0.Slot, selectionProofs []phase0.BLSSignature, subnetIDs []uint64) (ssz.Marshaler, spec.DataVersion, error) {
	if len(selectionProofs) != len(subnetIDs) {
		return nil, spec.DataVersionPhase0, fmt.Errorf("mismatching number of selection proofs and subnet IDs")
	}
	out := spectypes.Contributions{}
	for i, sn := range subnetIDs {
		c := *tu.TestingSyncCommitteeContributions[int(sn)%len(tu.TestingSyncCommitteeContributions)]
		c.Slot = slot
		c.SubcommitteeIndex = sn
		out = append(out, &spectypes.Contribution{SelectionProofSig: selectionProofs[i], Contribution: c})
	}
	return &out, spec.DataVersionBellatrix, nil
}

var _ specssv.BeaconNode = (*bnode)(nil)

// dBroadcast is one captured broadcast.
type dBroadcast struct {
	From    kit.OpID
	Msg     *spectypes.SSVMessage
	Seq     int
	Partial *spectypes.SignedPartialSignatureMessage // set for partial-signature messages
	QBFT    *specqbft.SignedMessage                  // set for consensus messages
}

type dNet struct {
	w    *dutyWorld
	from kit.OpID
}

func (n *dNet) Broadcast(m *spectypes.SSVMessage) error {
	b := &dBroadcast{From: n.from, Msg: m, Seq: len(n.w.Pool)}
	switch m.MsgType {
	case spectypes.SSVPartialSignatureMsgType:
		p := &spectypes.SignedPartialSignatureMessage{}
		if err := p.Decode(m.Data); err != nil {
			return err
		}
		b.Partial = p
	case spectypes.SSVConsensusMsgType:
		q := &specqbft.SignedMessage{}
		if err := q.Decode(m.Data); err != nil {
			return err
		}
		b.QBFT = q
	}
	n.w.Pool = append(n.w.Pool, b)
	return nil
}

type dOp struct {
	id      kit.OpID
	share   *spectypes.Share
	v       *validator.Validator
	runners runner.DutyRunners
	db      *kv.BadgerDB
	cancel  context.CancelFunc
}

// dutyWorld: one validator, one committee, one duty.
type dutyWorld struct {
	N      int
	KS     *tu.TestKeySet
	Ops    map[kit.OpID]*dOp
	Honest []kit.OpID
	Silent map[kit.OpID]bool
	Pool   []*dBroadcast
	Helper *rk.Kit
	Role   string
	BR     spectypes.BeaconRole
	Slot   phase0.Slot
	Duty   *spectypes.Duty
	log    *zap.Logger
}

var helperKits = map[int]*rk.Kit{}

func helperKit(n int) *rk.Kit {
	if k, ok := helperKits[n]; ok {
		return k
	}
	k := rk.New(rk.Options{N: n, NContrib: 3})
	helperKits[n] = k
	return k
}

func newDutyWorld(n int, silent []int, role string, slot uint64, indices []uint64) *dutyWorld {
	h := helperKit(n)
	w := &dutyWorld{N: n, KS: h.KS, Ops: map[kit.OpID]*dOp{}, Silent: map[kit.OpID]bool{}, Helper: h, Role: role,
		BR: rk.BeaconRole(role), Slot: phase0.Slot(slot), log: zap.NewNop()}
	for _, s := range silent {
		w.Silent[kit.OpID(s)] = true
	}
	w.Duty = h.DutyFor(role, w.Slot)
	if len(indices) > 0 && (role == rk.Contribution || role == rk.SyncCommittee) {
		w.Duty.ValidatorSyncCommitteeIndices = append([]uint64{}, indices...)
	}
	vpk := rk.ValidatorPK(w.KS)
	for i := 1; i <= n; i++ {
		id := kit.OpID(i)
		if w.Silent[id] {
			continue
		}
		w.Honest = append(w.Honest, id)
		share := &spectypes.Share{OperatorID: id, ValidatorPubKey: vpk, SharePubKey: w.KS.Shares[id].GetPublicKey().Serialize(),
			DomainType: kit.Domain, Quorum: w.KS.Threshold, PartialQuorum: w.KS.PartialThreshold, Committee: w.KS.Committee(),
			FeeRecipientAddress: h.Share.FeeRecipientAddress, Graffiti: h.Share.Graffiti}
		db := pooledDB(len(w.Honest) - 1)
		op := &dOp{id: id, share: share, db: db, runners: runner.DutyRunners{}}
		net := &dNet{w: w, from: id}
		bn := &bnode{BNSpy: h.BN}
		km := tu.NewTestingKeyManager()
		stores := qbftstorage.NewStoresFromRoles(db, spectypes.BNRoleAttester, spectypes.BNRoleProposer, spectypes.BNRoleAggregator,
			spectypes.BNRoleSyncCommittee, spectypes.BNRoleSyncCommitteeContribution, spectypes.BNRoleValidatorRegistration, spectypes.BNRoleVoluntaryExit)
		for _, br := range []spectypes.BeaconRole{spectypes.BNRoleAttester, spectypes.BNRoleProposer, spectypes.BNRoleAggregator,
			spectypes.BNRoleSyncCommittee, spectypes.BNRoleSyncCommitteeContribution, spectypes.BNRoleValidatorRegistration, spectypes.BNRoleVoluntaryExit} {
			var valCheck specqbft.ProposedValueCheckF
			switch br {
			case spectypes.BNRoleAttester:
				valCheck = specssv.AttesterValueCheckF(km, spectypes.BeaconTestNetwork, vpk, tu.TestingValidatorIndex, nil)
			case spectypes.BNRoleProposer:
				valCheck = specssv.ProposerValueCheckF(km, spectypes.BeaconTestNetwork, vpk, tu.TestingValidatorIndex, nil)
			case spectypes.BNRoleAggregator:
				valCheck = specssv.AggregatorValueCheckF(km, spectypes.BeaconTestNetwork, vpk, tu.TestingValidatorIndex)
			case spectypes.BNRoleSyncCommittee:
				valCheck = specssv.SyncCommitteeValueCheckF(km, spectypes.BeaconTestNetwork, vpk, tu.TestingValidatorIndex)
			case spectypes.BNRoleSyncCommitteeContribution:
				valCheck = specssv.SyncCommitteeContributionValueCheckF(km, spectypes.BeaconTestNetwork, vpk, tu.TestingValidatorIndex)
			}
			identifier := spectypes.NewMsgID(kit.Domain, vpk, br)
			var contr *controller.Controller
			if br != spectypes.BNRoleVoluntaryExit {
				cfg := &qbft.Config{
					Signer:                km,
					SigningPK:             share.SharePubKey,
					Domain:                kit.Domain,
					ValueCheckF:           valCheck,
					ProposerF:             specqbft.RoundRobinProposer,
					Storage:               stores.Get(br),
					Network:               net,
					Timer:                 roundtimer.NewTestingTimer(),
					SignatureVerification: true,
				}
				if valCheck == nil {
					cfg.ValueCheckF = func([]byte) error { return nil }
				}
				contr = controller.NewController(identifier[:], share, cfg, false)
			}
			switch br {
			case spectypes.BNRoleAttester:
				op.runners[br] = runner.NewAttesterRunnner(spectypes.BeaconTestNetwork, share, contr, bn, net, km, valCheck, 0)
			case spectypes.BNRoleAggregator:
				op.runners[br] = runner.NewAggregatorRunner(spectypes.BeaconTestNetwork, share, contr, bn, net, km, valCheck, 0)
			case spectypes.BNRoleProposer:
				op.runners[br] = runner.NewProposerRunner(spectypes.BeaconTestNetwork, share, contr, bn, net, km, valCheck, 0)
			case spectypes.BNRoleSyncCommittee:
				op.runners[br] = runner.NewSyncCommitteeRunner(spectypes.BeaconTestNetwork, share, contr, bn, net, km, valCheck, 0)
			case spectypes.BNRoleSyncCommitteeContribution:
				op.runners[br] = runner.NewSyncCommitteeAggregatorRunner(spectypes.BeaconTestNetwork, share, contr, bn, net, km, valCheck, 0)
			case spectypes.BNRoleValidatorRegistration:
				op.runners[br] = runner.NewValidatorRegistrationRunner(spectypes.BeaconTestNetwork, share, contr, bn, net, km)
			case spectypes.BNRoleVoluntaryExit:
				op.runners[br] = runner.NewVoluntaryExitRunner(spectypes.BeaconTestNetwork, share, bn, net, km)
			}
		}
		ctx, cancel := context.WithCancel(context.Background())
		op.cancel = cancel
		op.v = validator.NewValidator(ctx, cancel, validator.Options{
			Network:       net,
			Beacon:        bn,
			BeaconNetwork: networkconfig.TestNetwork.Beacon,
			Storage:       stores,
			SSVShare:      &ssvtypes.SSVShare{Share: *share},
			Signer:        km,
			DutyRunners:   op.runners,
		})
		w.Ops[id] = op
	}
	return w
}

// Close stops the validators and wipes the (pooled) databases.
func (w *dutyWorld) Close() {
	for _, op := range w.Ops {
		op.cancel()
		wipeDB(op.db)
	}
}

// Opening an in-memory badger costs 0.1-0.3 s (it allocates and clears its memtable arena), far more than a whole
// duty: the k-th correct operator of every duty world gets the k-th database of a pool, emptied after each world.
var dbPool []*kv.BadgerDB

func pooledDB(k int) *kv.BadgerDB {
	for len(dbPool) <= k {
		db, err := kv.NewInMemory(zap.NewNop(), basedb.Options{Ctx: context.Background()})
		if err != nil {
			panic(err)
		}
		dbPool = append(dbPool, db)
	}
	return dbPool[k]
}

func wipeDB(db *kv.BadgerDB) {
	err := db.Badger().Update(func(txn *badger.Txn) error {
		opt := badger.DefaultIteratorOptions
		opt.PrefetchValues = false
		it := txn.NewIterator(opt)
		var keys [][]byte
		for it.Rewind(); it.Valid(); it.Next() {
			keys = append(keys, it.Item().KeyCopy(nil))
		}
		it.Close()
		for _, k := range keys {
			if err := txn.Delete(k); err != nil {
				return err
			}
		}
		return nil
	})
	if err != nil {
		panic(fmt.Sprintf("harness: cannot empty a pooled database: %v", err))
	}
}

func (w *dutyWorld) base(i kit.OpID) *runner.BaseRunner {
	return w.Ops[i].runners[w.BR].GetBaseRunner()
}

// Instance returns operator i's consensus instance of the duty (nil if none).
func (w *dutyWorld) Instance(i kit.OpID) *instance.Instance {
	c := w.base(i).QBFTController
	if c == nil {
		return nil
	}
	return c.StoredInstances.FindInstance(specqbft.Height(w.Slot))
}

func (w *dutyWorld) Leader(round int) kit.OpID {
	return kit.OpID((int(uint64(w.Slot)%uint64(w.N))+round-1)%w.N + 1)
}

func (w *dutyWorld) StartDuty(i kit.OpID) error {
	d := *w.Duty
	if w.Role == rk.Registration {
		w.Helper.RegistrationSlot = w.Slot
	}
	return w.Ops[i].v.StartDuty(w.log, &d)
}

// Deliver hands a re-decoded copy of a broadcast to operator `to` through Validator.ProcessMessage.
func (w *dutyWorld) Deliver(to kit.OpID, b *dBroadcast) error {
	enc, err := b.Msg.Encode()
	if err != nil {
		return err
	}
	cp := &spectypes.SSVMessage{}
	if err := cp.Decode(enc); err != nil {
		return err
	}
	dec, err := queue.DecodeSSVMessage(cp)
	if err != nil {
		return err
	}
	return w.Ops[to].v.ProcessMessage(w.log, dec)
}

// Timeout delivers the round-timeout event of the round operator i's (testing) timer was last armed for, the way
// Validator.onTimeout does: an event message through ProcessMessage.
func (w *dutyWorld) Timeout(i kit.OpID) error {
	c := w.base(i).QBFTController
	if c == nil {
		return fmt.Errorf("role without consensus")
	}
	t, ok := c.GetConfig().GetTimer().(*roundtimer.TestQBFTTimer)
	if !ok || t.State.Timeouts == 0 {
		return fmt.Errorf("operator %d: round timer was never armed", i)
	}
	data, _ := json.Marshal(&ssvtypes.TimeoutData{Height: specqbft.Height(w.Slot), Round: t.State.Round})
	ev := &ssvtypes.EventMsg{Type: ssvtypes.Timeout, Data: data}
	evData, err := ev.Encode()
	if err != nil {
		return err
	}
	m := &spectypes.SSVMessage{MsgType: ssvmessage.SSVEventMsgType, MsgID: spectypes.NewMsgID(kit.Domain, rk.ValidatorPK(w.KS), w.BR), Data: evData}
	dec, err := queue.DecodeSSVMessage(m)
	if err != nil {
		return err
	}
	return w.Ops[i].v.ProcessMessage(w.log, dec)
}

// find returns the broadcasts matching pred, oldest first.
func (w *dutyWorld) find(pred func(b *dBroadcast) bool) []*dBroadcast {
	var out []*dBroadcast
	for _, b := range w.Pool {
		if pred(b) {
			out = append(out, b)
		}
	}
	return out
}

func (w *dutyWorld) partialOf(from kit.OpID, post bool) *dBroadcast {
	bs := w.find(func(b *dBroadcast) bool {
		return b.From == from && b.Partial != nil && (b.Partial.Message.Type == spectypes.PostConsensusPartialSig) == post
	})
	if len(bs) == 0 {
		return nil
	}
	return bs[0]
}

func (w *dutyWorld) qbftOf(typ specqbft.MessageType, round int) []*dBroadcast {
	bs := w.find(func(b *dBroadcast) bool {
		return b.QBFT != nil && len(b.QBFT.Signers) == 1 && b.QBFT.Message.MsgType == typ && int(b.QBFT.Message.Round) == round
	})
	sort.SliceStable(bs, func(a, c int) bool { return bs[a].From < bs[c].From })
	return bs
}
