// Driver for C10 (spec/QBFTTimely.tla, spec/PartialTimely.tla): replays timely multi-operator executions on real code
// and feeds EVERY message a correct operator broadcasts to the real message validator of every other correct peer, at a
// virtual time inside the message's window. A verdict of class `reject` for such a message is a violation; in
// fault-free in-order runs anything but `accept` is.
//
//   - consensus world (this file, worldpool.go): real QBFT controllers of committees 4 and 7 (qbftkit) - proposals,
//     prepares, commits, round-changes, the aggregated decided messages of Controller.broadcastDecided; rounds are timed
//     by the real round-timer arithmetic (dutyrun.go: clockTime), up to the highest round the gate admits for the role;
//   - duty world (duty.go, dutyrun.go; behaviours with params.mode = "duty"): real validators with the real duty
//     runners of all seven roles - pre-consensus and post-consensus partial-signature messages, consensus messages with
//     real consensus data.
package main

import (
	"flag"
	"fmt"
	"os"
	"runtime/pprof"
	"sort"
	"strings"
	"time"

	"github.com/attestantio/go-eth2-client/spec/phase0"
	specqbft "github.com/bloxapp/ssv-spec/qbft"
	spectypes "github.com/bloxapp/ssv-spec/types"

	kit "verif/harness/qbftkit"
	"verif/harness/valkit"
	"verif/harness/vh"
)

const farFork = phase0.Epoch(1) << 40 // signed envelopes not yet active: the gate sees the bare SSV message

var roles = map[string]spectypes.BeaconRole{
	"attester": spectypes.BNRoleAttester, "aggregator": spectypes.BNRoleAggregator, "proposer": spectypes.BNRoleProposer,
	"sync": spectypes.BNRoleSyncCommittee, "contribution": spectypes.BNRoleSyncCommitteeContribution,
}

func baseDelay(role spectypes.BeaconRole) time.Duration {
	switch role {
	case spectypes.BNRoleAttester, spectypes.BNRoleSyncCommittee:
		return 4 * time.Second
	case spectypes.BNRoleAggregator, spectypes.BNRoleSyncCommitteeContribution:
		return 8 * time.Second
	}
	return 0
}

// (slot, offset) for a duration since the start of slot `height`, keeping the offset inside [1.2 s, 11.5 s]
func slotAndOffset(height uint64, d time.Duration) (phase0.Slot, time.Duration) {
	slot := height + uint64(d/(12*time.Second))
	off := d % (12 * time.Second)
	if off < 1200*time.Millisecond {
		off = 1200 * time.Millisecond
	}
	if off > 11500*time.Millisecond {
		off = 11500 * time.Millisecond
	}
	return phase0.Slot(slot), off
}

type run struct {
	w      *kit.World
	env    *valkit.Env
	peers  map[kit.OpID]*valkit.Peer
	res    *vh.Result
	b      vh.Behaviour
	step   int
	gr     int
	pos    int
	seen   int // pool entries already validated
	sync   bool
	role   spectypes.BeaconRole
	height uint64
	// highest clock round at which a broadcast was validated
	maxRound int
	roleName string
}

func toInt(v any) int {
	if f, ok := v.(float64); ok {
		return int(f)
	}
	return 0
}

func newRun(b vh.Behaviour, res *vh.Result, env *valkit.Env) *run {
	p := b.Params
	n := toInt(p["N"])
	if n == 0 {
		n = 4
	}
	var byz []int
	for _, x := range vh.List(p, "Byz") {
		byz = append(byz, toInt(x))
	}
	sv := map[int]string{}
	for i := 1; i <= n; i++ {
		sv[i] = "b"
		if i == 1 || vh.Str(p, "StartValue") == "same" {
			sv[i] = "a"
		}
	}
	role := roles[vh.Str(p, "role")]
	if vh.Str(p, "role") == "" {
		role = spectypes.BNRoleAttester
	}
	// height = slot of the duty; leader rotation = height mod N
	height := uint64(89600 + toInt(p["LeaderOffset"]))
	r := &run{res: res, b: b, env: env, peers: map[kit.OpID]*valkit.Peer{}, gr: 1, pos: toInt(p["pos"]), sync: vh.Bool(p, "sync"), role: role, height: height,
		roleName: vh.Str(p, "role")}
	probeWindow(env, role)
	r.w = newPooledWorld(n, byz, height, sv, role)
	for _, h := range r.w.Honest {
		r.peers[h] = env.NewPeer(farFork)
	}
	return r
}

// validateNew hands every not yet seen broadcast of a correct operator to the gates of all other correct peers.
func (r *run) validateNew() {
	for ; r.seen < len(r.w.Pool); r.seen++ {
		e := r.w.Pool[r.seen]
		// the clock: the global round of the schedule, and never behind the round the sender itself is in
		// (behaviours without EndRound steps are timed by the senders' rounds)
		gr := r.gr
		if inst := r.w.Instance(e.From); inst != nil && int(inst.State.Round) > gr && !inst.State.Decided {
			gr = int(inst.State.Round)
		}
		if mr := int(e.Msg.Message.Round); mr > gr && len(e.Msg.Signers) == 1 {
			gr = mr
		}
		if gr > r.maxRound {
			r.maxRound = gr
		}
		d, inWindow := clockTime(r.role, gr, r.pos)
		if !inWindow {
			// beyond the role's slot window (e.g. the last slow rounds of an attester duty): outside the property's premise
			r.res.Counters["outside_slot_window"]++
			continue
		}
		slot, off := slotAndOffset(r.height, d)
		for _, p := range r.w.Honest {
			if p == e.From {
				continue
			}
			out := r.peers[p].ValidateSSV(e.Raw, slot, off, false)
			r.res.Counters["validations"]++
			r.res.Counters["class:"+out.Class]++
			kind := fmt.Sprintf("type%d/%dsigners", e.Msg.Message.MsgType, len(e.Msg.Signers))
			switch {
			case out.Class == "panic" || out.Class == "hang":
				r.res.Violate("C10:validator-"+out.Class, fmt.Sprintf("validating %s of operator %d", kind, e.From), r.b.ID, r.step)
			case out.Class == "reject" && r.staleRoundProposal(e):
				// recorded finding: the sender adopted a decided certificate of an earlier round (UponDecided moves its
				// State.Round back), then completed a round-change quorum for a later round it leads and stamped the
				// proposal with the stale State.Round
				r.res.Violate("C10:stale-round-proposal-after-adopted-certificate", fmt.Sprintf("peer %d REJECTED (%s) the proposal stamped round %d that decided operator %d broadcast after a round-change quorum for a later round",
					p, out.Rule, e.Msg.Message.Round, e.From), r.b.ID, r.step)
			case out.Class == "reject":
				r.res.Violate("C10:honest-message-rejected:"+out.Rule, fmt.Sprintf("peer %d REJECTED the %s (round %d) that correct operator %d broadcast in global round %d: %s",
					p, kind, e.Msg.Message.Round, e.From, r.gr, out.Err), r.b.ID, r.step)
			case !out.TimeOK && out.Class == "ignore" && timeDependent(out.Rule):
				// the call was descheduled beyond the timing margin: not the intended virtual time
				r.res.Counters["timing_uncertain"]++
			case r.sync && out.Class != "accept":
				r.res.Violate("C10:honest-message-not-accepted-in-sync-run:"+out.Rule, fmt.Sprintf("fault-free in-order run: peer %d did not accept the %s (round %d) of operator %d: %s",
					p, kind, e.Msg.Message.Round, e.From, out.Err), r.b.ID, r.step)
			case out.Class == "ignore":
				r.res.Counters["ignored:"+out.Rule]++
			}
		}
	}
}

// staleRoundProposal recognises exactly the recorded finding: a proposal of an operator that is DECIDED (it adopted
// a decided certificate), stamped with a round lower than a round for which the same operator already broadcast a
// round-change.
func (r *run) staleRoundProposal(e *kit.Emitted) bool {
	if e.Msg.Message.MsgType != specqbft.ProposalMsgType || len(e.Msg.Signers) != 1 {
		return false
	}
	inst := r.w.Instance(e.From)
	if inst == nil || !inst.State.Decided {
		return false
	}
	for _, x := range r.w.Pool[:e.Seq] {
		if x.From == e.From && x.Msg.Message.MsgType == specqbft.RoundChangeMsgType && x.Msg.Message.Round > e.Msg.Message.Round {
			return true
		}
	}
	return false
}

func sortedIDs(xs []int) []kit.OpID {
	sort.Ints(xs)
	out := make([]kit.OpID, len(xs))
	for i, x := range xs {
		out[i] = kit.OpID(x)
	}
	return out
}

func (r *run) deliver(to kit.OpID, m *specqbft.SignedMessage, what string) {
	if m == nil {
		r.res.Diverge(r.b.ID, r.step, what+".message", "emitted by a correct operator (spec)", "not found among real broadcasts")
		return
	}
	if _, err := r.w.Deliver(to, m); err != nil && !strings.HasPrefix(r.b.Kind, "attack") {
		r.res.Diverge(r.b.ID, r.step, what+".accepted", true, err.Error())
	}
	r.validateNew()
}

func (r *run) apply(a map[string]any) {
	w := r.w
	name := vh.Str(a, "name")
	to := kit.OpID(vh.Int(a, "to"))
	from := kit.OpID(vh.Int(a, "from"))
	round := vh.Int(a, "round")
	value := vh.Str(a, "value")
	switch name {
	case "init", "StaleTimer":
	case "EndRound":
		r.gr++
	case "Start":
		if err := w.Start(to); err != nil {
			r.res.Diverge(r.b.ID, r.step, "start", "ok", err.Error())
		}
		r.validateNew()
	case "RecvProposal":
		r.deliver(to, w.FindProposal(from, round, value), name)
	case "RecvPrepare":
		r.deliver(to, w.FindSimple(specqbft.PrepareMsgType, from, round, value), name)
	case "RecvCommit":
		r.deliver(to, w.FindSimple(specqbft.CommitMsgType, from, round, value), name)
	case "PrepareQuorum", "CommitQuorum":
		typ := specqbft.PrepareMsgType
		if name == "CommitQuorum" {
			typ = specqbft.CommitMsgType
		}
		for _, s := range sortedIDs(vh.Ints(a, "signers")) {
			if w.Byz[s] {
				if typ == specqbft.PrepareMsgType {
					r.deliver(to, w.ByzPrepare(s, round, value), name)
				} else {
					r.deliver(to, w.ByzCommit(s, round, value), name)
				}
			} else {
				r.deliver(to, w.FindSimple(typ, s, round, value), name)
			}
		}
	case "RecvRC":
		r.deliver(to, w.FindRC(from, round, vh.Int(a, "pr"), vh.Str(a, "pv")), name)
	case "RecvByzProposal":
		if m, err := w.ByzProposal(from, round, value); err == nil {
			r.deliver(to, m, name)
		} else {
			r.res.Diverge(r.b.ID, r.step, "byzProposal", "justifiable", err.Error())
		}
	case "RecvByzRC":
		if m, err := w.ByzRC(from, round, vh.Int(a, "pr"), vh.Str(a, "pv")); err == nil {
			r.deliver(to, m, name)
		} else {
			r.res.Diverge(r.b.ID, r.step, "byzRC", "constructible", err.Error())
		}
	case "Timeout":
		if err := w.TimeoutArmed(to); err != nil {
			r.res.Diverge(r.b.ID, r.step, "timeout", "ok", err.Error())
		}
		r.validateNew()
	case "RecvDecided":
		// prefer the decided message a correct controller really broadcast; else aggregate the real commits
		signers := sortedIDs(vh.Ints(a, "signers"))
		var m *specqbft.SignedMessage
		for _, e := range w.Pool {
			if len(e.Msg.Signers) == len(signers) && len(signers) > 1 && int(e.Msg.Message.Round) == round && e.Msg.Message.Root == kit.Root(value) {
				same := true
				for k, s := range e.Msg.Signers {
					if s != signers[k] {
						same = false
					}
				}
				if same {
					m = e.Msg
				}
			}
		}
		if m == nil {
			m = w.Cert(signers, round, value)
		}
		r.deliver(to, m, name)
	default:
		panic("unknown action " + name)
	}
}

func replay(b vh.Behaviour, res *vh.Result, env *valkit.Env) {
	r := newRun(b, res, env)
	for i, st := range b.Steps {
		r.step = i
		r.apply(st.Act)
	}
	res.Behaviours++
	res.Steps += len(b.Steps)
	if r.seen > 0 {
		res.Nontrivial++
	}
	res.Counters["broadcasts"] += r.seen
	// one flag per (role, committee size, highest clock round with a validated broadcast): the maximum is taken by C10.py
	// (counters of parallel shards are added up)
	res.Counters[fmt.Sprintf("qbft_max_round:%s:n%d:%02d", r.roleName, r.w.N, r.maxRound)]++
}

func main() {
	in := flag.String("in", "", "behaviours NDJSON")
	out := flag.String("out", "", "result JSON")
	prof := flag.String("cpuprofile", "", "write a CPU profile (debugging)")
	flag.Parse()
	if *prof != "" {
		f, err := os.Create(*prof)
		if err == nil {
			_ = pprof.StartCPUProfile(f)
			defer pprof.StopCPUProfile()
		}
	}
	res := vh.NewResult()
	behs, err := vh.ReadBehaviours(*in)
	if err != nil {
		fmt.Fprintln(os.Stderr, err)
		os.Exit(3)
	}
	envs := map[int]*valkit.Env{}
	envFor := func(n int) *valkit.Env {
		if n == 0 {
			n = 4
		}
		if e, ok := envs[n]; ok {
			return e
		}
		e, err := valkit.NewEnv(n)
		if err != nil {
			fmt.Fprintln(os.Stderr, err)
			os.Exit(3)
		}
		envs[n] = e
		return e
	}
	kit.Domain = envFor(4).Domain
	for _, b := range behs {
		env := envFor(toInt(b.Params["N"]))
		if vh.Str(b.Params, "mode") == "duty" {
			replayDuty(b, res, env)
		} else {
			replay(b, res, env)
		}
		releaseWorlds()
		kit.CloseAll()
	}
	for r, n := range lateSlots {
		res.Notes = append(res.Notes, fmt.Sprintf("probed slot window of role %s: a consensus message is not late until %d slots after its slot", r.String(), n))
	}
	if len(behs) > 0 {
		res.Samples = append(res.Samples, behs[len(behs)/2])
	}
	if err := res.Write(*out); err != nil {
		fmt.Fprintln(os.Stderr, err)
		os.Exit(3)
	}
}
