// A qbftkit.World whose controllers store into POOLED in-memory databases. qbftkit.NewWorld opens one in-memory badger
// per correct operator; opening it (allocating and clearing its memtable arena) costs 0.1-0.3 s, more than replaying a
// whole behaviour, and C10 replays hundreds of behaviours with up to seven operators. The construction below is
// qbftkit.NewWorld's, field by field, except for where the database comes from; the databases are emptied after each
// behaviour (wipeDB), so every world starts from empty storage exactly as before.
package main

import (
	"fmt"

	specqbft "github.com/bloxapp/ssv-spec/qbft"
	spectypes "github.com/bloxapp/ssv-spec/types"
	tu "github.com/bloxapp/ssv-spec/types/testingutils"
	"go.uber.org/zap"

	qbftstorage "github.com/bloxapp/ssv/ibft/storage"
	"github.com/bloxapp/ssv/protocol/v2/qbft"
	"github.com/bloxapp/ssv/protocol/v2/qbft/controller"
	"github.com/bloxapp/ssv/protocol/v2/qbft/roundtimer"
	"github.com/bloxapp/ssv/storage/kv"

	kit "verif/harness/qbftkit"
)

// poolNet captures every broadcast of one operator into the world's pool (qbftkit's capturing network).
type poolNet struct {
	w    *kit.World
	from kit.OpID
}

func (n *poolNet) Broadcast(m *spectypes.SSVMessage) error {
	sm := &specqbft.SignedMessage{}
	if err := sm.Decode(m.Data); err != nil {
		return err
	}
	n.w.Pool = append(n.w.Pool, &kit.Emitted{From: n.from, Msg: sm, Raw: m, Seq: len(n.w.Pool)})
	if n.w.FailBroadcast != nil && n.w.FailBroadcast(n.from, sm) {
		return fmt.Errorf("injected broadcast error")
	}
	return nil
}

var usedDBs []*kv.BadgerDB

func newPooledWorld(n int, byz []int, height uint64, startVals map[int]string, role spectypes.BeaconRole) *kit.World {
	ks := kit.KeySet(n)
	w := &kit.World{KS: ks, N: n, F: (n - 1) / 3, Byz: map[kit.OpID]bool{}, Ctrl: map[kit.OpID]*controller.Controller{},
		Cfg: map[kit.OpID]*qbft.Config{}, Height: specqbft.Height(height), Role: role, StartVal: map[kit.OpID]string{},
		Reports: map[kit.OpID][]*specqbft.SignedMessage{}, Log: zap.NewNop()}
	for _, b := range byz {
		w.Byz[kit.OpID(b)] = true
	}
	mid := spectypes.NewMsgID(kit.Domain, ks.ValidatorPK.Serialize(), role)
	w.ID = mid[:]
	for i := 1; i <= n; i++ {
		id := kit.OpID(i)
		w.StartVal[id] = startVals[i]
		if w.Byz[id] {
			continue
		}
		w.Honest = append(w.Honest, id)
		share := w.Share(id)
		db := pooledDB(len(w.Honest) - 1)
		usedDBs = append(usedDBs, db)
		cfg := &qbft.Config{
			Signer:                tu.NewTestingKeyManager(),
			SigningPK:             share.SharePubKey,
			Domain:                kit.Domain,
			ValueCheckF:           kit.ValueCheck,
			ProposerF:             specqbft.RoundRobinProposer,
			Storage:               qbftstorage.NewStoresFromRoles(db, role).Get(role),
			Network:               &poolNet{w: w, from: id},
			Timer:                 roundtimer.NewTestingTimer(),
			SignatureVerification: true,
		}
		w.Cfg[id] = cfg
		w.Ctrl[id] = controller.NewController(w.ID, share, cfg, w.FullNode)
	}
	return w
}

// releaseWorlds empties the databases used since the last call.
func releaseWorlds() {
	for _, db := range usedDBs {
		wipeDB(db)
	}
	usedDBs = nil
}
