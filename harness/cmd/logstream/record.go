// record mode: the implementation -> specification direction of C13.
//
// The REAL ExecutionClient.StreamLogs (behind the real EventSyncer.SyncOngoing) runs freely - nothing is single-stepped,
// no TLC behaviour is involved - against the fake execution node under a seeded random environment: the head advances
// in bursts (also by more than one block, also re-announced), logs are spread over the blocks (empty blocks, many logs
// in one block, removed logs), batch size, follow distance and start block are random (start > head included),
// eth_getLogs / eth_subscribe fail with an error answer or with the connection cut under them, connections are cut and
// the subscription's error channel is fired (an undecodable notification) at random moments, the consumer is sometimes
// slow, and the client is shut down at random moments.  The syncer loop mirrors cli/operator/node.go + eth/eventsyncer:
// SyncOngoing(from) until the stream closes (Fatal after three consecutive failures, or a shutdown), then a new client
// and SyncOngoing(last processed block + 1).
//
// Everything observable at the node's RPC boundary and at the consumer is recorded as one NDJSON event; the events of an
// execution are ordered by a sequence number taken under ONE mutex (recorder.mu), which also serialises the node's
// decisions with the things they are about (the connection table, the live subscription, the head), so that "logged
// before" means "happened before" for everything the trace specification relies on.  No wall-clock merging.
// spec/LogStreamTrace.tla validates the concatenated executions.
package main

import (
	"context"
	"fmt"
	"math/big"
	"math/rand"
	"net"
	"os"
	"sync"
	"sync/atomic"
	"time"

	ethtypes "github.com/ethereum/go-ethereum/core/types"
	"github.com/ethereum/go-ethereum/eth/filters"
	"github.com/ethereum/go-ethereum/rpc"

	"github.com/bloxapp/ssv/eth/executionclient"

	"verif/harness/vh"
)

type recorder struct {
	mu     sync.Mutex
	seq    int
	evs    []map[string]any
	closed bool
}

// emitL appends an event; recorder.mu is held by the caller
func (r *recorder) emitL(ev string, kv map[string]any) {
	if r.closed {
		return
	}
	r.seq++
	if kv == nil {
		kv = map[string]any{}
	}
	kv["event"] = ev
	kv["seq"] = r.seq
	r.evs = append(r.evs, kv)
}

func (r *recorder) emit(ev string, kv map[string]any) {
	r.mu.Lock()
	r.emitL(ev, kv)
	r.mu.Unlock()
}

type recWorld struct {
	w   *world
	rec *recorder

	// guarded by rec.mu
	rng       *rand.Rand // decisions taken inside the RPC handlers
	connID    map[string]int
	nextConn  int
	cutUpto   int // connections <= cutUpto were closed by the node
	oldConn   int // connections <= oldConn belong to clients of earlier StreamLogs calls
	subCount  int
	pFail     float64 // probability that a request is failed
	pCutIn    float64 // share of those failures that cut the connection under the request
	latency   int     // max answer latency of the node in microseconds
	quiet     bool
	faults    int
	maxFaults int
	cuts      int
	poisons   int
	delivered int
	withLogs  int
	reached   bool
	sentinel  uint64
	slow      int // max consumer delay per entry in microseconds

	activity    int32 // atomic: RPC requests + deliveries
	closePanics int32 // atomic
	subOK       chan struct{}

	// the syncer loop and the shutdowns
	ecMu        sync.Mutex
	callRunning bool
	ending      bool
	kills       int
	restarts    int
	fatals      int
	loopDone    chan struct{}
	loopErr     string
	crng        *rand.Rand // consumer goroutine only
}

func (rw *recWorld) install(w *world) {
	rw.w = w
	w.f.rec = rw
	w.tl.onAccept = func(c net.Conn) {
		rw.rec.mu.Lock()
		w.tl.track(c)
		rw.nextConn++
		rw.connID[c.RemoteAddr().String()] = rw.nextConn
		rw.rec.emitL("Conn", map[string]any{"c": rw.nextConn})
		rw.rec.mu.Unlock()
	}
	w.onEntry = rw.onEntry
}

// decideL: fail this request? cut the connection under it?  (rec.mu held)
func (rw *recWorld) decideL() (fail, cut bool) {
	if rw.quiet || rw.faults >= rw.maxFaults || rw.rng.Float64() >= rw.pFail {
		return false, false
	}
	rw.faults++
	return true, rw.rng.Float64() < rw.pCutIn
}

// cutL closes every connection accepted so far (rec.mu held: an RPC event logged after the Cut event belongs to a
// request whose answer can no longer be written)
func (rw *recWorld) cutL() {
	rw.rec.emitL("Cut", map[string]any{"upto": rw.nextConn})
	rw.cutUpto = rw.nextConn
	rw.w.tl.dropAll()
	rw.cuts++
}

func (rw *recWorld) delay() {
	rw.rec.mu.Lock()
	d := 0
	if rw.latency > 0 {
		d = rw.rng.Intn(rw.latency)
	}
	rw.rec.mu.Unlock()
	if d > 0 {
		time.Sleep(time.Duration(d) * time.Microsecond)
	}
}

func (rw *recWorld) getLogs(ctx context.Context, crit filters.FilterCriteria, from, to uint64) ([]*ethtypes.Log, error) {
	atomic.AddInt32(&rw.activity, 1)
	addr := rpc.PeerInfoFromContext(ctx).RemoteAddr
	rw.delay()
	want := false
	for _, a := range crit.Addresses {
		if a == contract {
			want = true
		}
	}
	rw.rec.mu.Lock()
	defer rw.rec.mu.Unlock()
	c := rw.connID[addr]
	fail, cut := rw.decideL()
	if cut {
		rw.cutL()
	}
	if fail {
		rw.rec.emitL("GetLogs", map[string]any{"c": c, "a": from, "b": to, "res": "err", "n": 0})
		return nil, errInjected
	}
	out := []*ethtypes.Log{}
	head := rw.w.f.Head()
	for b := from; want && b <= to && b <= head; b++ {
		out = append(out, rw.w.f.ch.logs(b)...)
	}
	rw.rec.emitL("GetLogs", map[string]any{"c": c, "a": from, "b": to, "res": "ok", "n": len(out)})
	return out, nil
}

func (rw *recWorld) newHeads(ctx context.Context, notifier *rpc.Notifier) (*rpc.Subscription, error) {
	atomic.AddInt32(&rw.activity, 1)
	addr := rpc.PeerInfoFromContext(ctx).RemoteAddr
	rw.delay()
	rw.rec.mu.Lock()
	c := rw.connID[addr]
	fail, cut := rw.decideL()
	if cut {
		rw.cutL()
	}
	if fail {
		rw.rec.emitL("Subscribe", map[string]any{"c": c, "res": "err", "s": 0})
		rw.rec.mu.Unlock()
		return nil, errInjected
	}
	rw.rec.mu.Unlock()
	sub := notifier.CreateSubscription()
	f := rw.w.f
	rw.rec.mu.Lock()
	rw.subCount++
	ls := &liveSub{n: notifier, id: sub.ID, no: rw.subCount}
	if c > rw.cutUpto && c > rw.oldConn { // (a late answer to a dead client must not displace the live subscription)
		f.mu.Lock()
		f.live = ls
		f.mu.Unlock()
	}
	rw.rec.emitL("Subscribe", map[string]any{"c": c, "res": "ok", "s": ls.no})
	rw.rec.mu.Unlock()
	select {
	case rw.subOK <- struct{}{}:
	default:
	}
	go func() {
		select {
		case <-sub.Err():
		case <-f.done:
		}
		f.mu.Lock()
		if f.live == ls {
			f.live = nil
		}
		f.mu.Unlock()
	}()
	return sub, nil
}

// pushHead: the node's head becomes h (>= the current head); the live subscription is notified.  Only the environment
// goroutine pushes, so notifications leave in the order of their events.
func (rw *recWorld) pushHead(h uint64) {
	f := rw.w.f
	rw.rec.mu.Lock()
	f.mu.Lock()
	if h > f.head {
		f.head = h
	}
	ls := f.live
	f.mu.Unlock()
	s := 0
	if ls != nil {
		s = ls.no
	}
	rw.rec.emitL("Head", map[string]any{"h": h, "s": s})
	rw.rec.mu.Unlock()
	if ls != nil {
		_ = ls.n.Notify(ls.id, &ethtypes.Header{Number: new(big.Int).SetUint64(h), Difficulty: big.NewInt(0)})
	}
}

func (rw *recWorld) cutAsync() {
	rw.rec.mu.Lock()
	if !rw.quiet && rw.faults < rw.maxFaults {
		rw.faults++
		rw.cutL()
	}
	rw.rec.mu.Unlock()
}

// poison fires the error channel of the client's subscription without touching the connection: a notification that
// does not decode into a header makes go-ethereum's ClientSubscription.forward return the decoding error.
func (rw *recWorld) poison() {
	f := rw.w.f
	rw.rec.mu.Lock()
	var ls *liveSub
	if !rw.quiet && rw.faults < rw.maxFaults {
		f.mu.Lock()
		ls = f.live
		f.mu.Unlock()
	}
	if ls != nil {
		rw.faults++
		rw.poisons++
		rw.rec.emitL("Poison", map[string]any{"s": ls.no})
	}
	rw.rec.mu.Unlock()
	if ls != nil {
		_ = ls.n.Notify(ls.id, "not a header")
	}
}

// kill shuts the client of the running StreamLogs call down (executionclient.Close)
func (rw *recWorld) kill() {
	rw.ecMu.Lock()
	if !rw.callRunning || rw.w.ec == nil { // (w.ec is written by the syncer loop between two calls only)
		rw.ecMu.Unlock()
		return
	}
	ec := rw.w.ec
	rw.w.ec = nil
	rw.kills++
	rw.rec.emit("Kill", nil)
	rw.ecMu.Unlock()
	rw.closeClient(ec)
}

// closeClient: ExecutionClient.Close.  If the client's last dial failed (a cut hit the reconnect), connect() has left
// ec.client nil and Close dereferences it after closing ec.closed - the shutdown has taken effect, the panic is noted.
func (rw *recWorld) closeClient(ec *executionclient.ExecutionClient) {
	defer func() {
		if r := recover(); r != nil {
			atomic.AddInt32(&rw.closePanics, 1)
		}
	}()
	_ = ec.Close()
}

func (rw *recWorld) onEntry(bl executionclient.BlockLogs) {
	atomic.AddInt32(&rw.activity, 1)
	ids := []uint{}
	for _, l := range bl.Logs {
		ids = append(ids, l.Index)
	}
	rw.rec.mu.Lock()
	rw.rec.emitL("Deliver", map[string]any{"b": bl.BlockNumber, "ids": ids})
	rw.delivered++
	if len(ids) > 0 {
		rw.withLogs++
	}
	if bl.BlockNumber >= rw.sentinel {
		rw.reached = true
	}
	rw.rec.mu.Unlock()
	if rw.slow > 0 {
		time.Sleep(time.Duration(rw.crng.Intn(rw.slow)) * time.Microsecond)
	}
}

// syncLoop is what cli/operator/node.go and eth/eventsyncer do with the ongoing stream over the life of a node:
// SyncOngoing(from) until the stream closes, then (the process restarts) a new client and the stream resumes after the
// last block the handler processed.
func (rw *recWorld) syncLoop(start uint64, maxRestarts int) {
	defer close(rw.loopDone)
	from := start
	for {
		rw.ecMu.Lock()
		if rw.ending {
			rw.ecMu.Unlock()
			return
		}
		es := rw.w.es
		rw.callRunning = true
		rw.rec.emit("Call", map[string]any{"from": from})
		rw.ecMu.Unlock()

		_ = es.SyncOngoing(rw.w.ctx, from) // StreamLogs + HandleBlockEventsStream; returns when the stream is closed

		last := atomic.LoadUint64(&rw.w.lastRet)
		fatal := atomic.SwapInt32(&rw.w.fatal, 0) != 0
		rw.ecMu.Lock()
		rw.callRunning = false
		rw.rec.mu.Lock()
		rw.rec.emitL("StreamEnd", map[string]any{"last": last, "fatal": fatal})
		rw.oldConn = rw.nextConn
		rw.rec.mu.Unlock()
		ending := rw.ending
		if fatal {
			rw.fatals++
		}
		rw.restarts++
		tooMany := rw.restarts >= maxRestarts
		rw.ecMu.Unlock()
		if last > 0 {
			from = last + 1 // node.go: lastProcessedBlock + 1
		}
		if ending {
			return
		}
		if tooMany {
			rw.rec.mu.Lock()
			rw.quiet = true
			rw.rec.mu.Unlock()
		}
		var err error
		for try := 0; try < 8; try++ { // (a cut can hit the dial itself; the supervisor starts the node again)
			if err = rw.w.newClient(); err == nil {
				break
			}
			time.Sleep(2 * time.Millisecond)
		}
		if err != nil {
			rw.loopErr = "restart: " + err.Error()
			return
		}
	}
}

func randomChain(rng *rand.Rand, upto, sentinel uint64) *chain {
	ch := &chain{kinds: map[uint64][]logSpec{}}
	dens := []float64{0.15, 0.5, 0.85}[rng.Intn(3)]
	prem := []float64{0, 0, 0.15, 0.4}[rng.Intn(4)]
	for b := uint64(1); b <= upto; b++ {
		var ls []logSpec
		switch {
		case b == sentinel:
			ls = []logSpec{{0, false}}
		case b > sentinel || rng.Float64() >= dens:
		default:
			n := 1
			switch r := rng.Intn(20); {
			case r < 12:
			case r < 17:
				n = 2 + rng.Intn(2)
			default:
				n = 5 + rng.Intn(8)
			}
			tx := uint(rng.Intn(3))
			for i := 0; i < n; i++ {
				if i > 0 && rng.Intn(2) == 0 {
					tx += uint(1 + rng.Intn(2))
				}
				ls = append(ls, logSpec{tx: tx, removed: rng.Float64() < prem})
			}
		}
		ch.kinds[b] = ls
	}
	return ch
}

func recordOne(seed int64, id string, withKills bool) (out behOut, evs []map[string]any) {
	out = behOut{id: id, counters: map[string]int{}}
	rng := rand.New(rand.NewSource(seed))
	var vmu sync.Mutex
	var viols []vh.Violation
	rec := &recorder{}
	viol := func(sig, desc string) {
		rec.mu.Lock()
		step := rec.seq
		rec.mu.Unlock()
		vmu.Lock()
		viols = append(viols, vh.Violation{Signature: sig, Description: desc, Behaviour: id, Step: step})
		vmu.Unlock()
	}

	// ---- the environment of this execution
	start := uint64(1 + rng.Intn(6))
	batch := []uint64{1, 1, 2, 2, 3, 4, 5, 8, 50}[rng.Intn(9)]
	follow := uint64(rng.Intn(5))
	var head0 uint64
	if rng.Intn(5) == 0 { // the requested start is ahead of the chain
		head0 = start - 1 - uint64(rng.Intn(int(start)))
	} else {
		head0 = start + uint64(rng.Intn(9))
	}
	base := head0
	if start > base {
		base = start
	}
	maxHead := base + follow + uint64(4+rng.Intn(14))
	sentinel := maxHead + 1
	final := sentinel + follow
	ch := randomChain(rng, final+2, sentinel)

	rw := &recWorld{rec: rec, rng: rand.New(rand.NewSource(seed ^ 0x5eed)), crng: rand.New(rand.NewSource(seed ^ 0xc0ffee)),
		connID: map[string]int{}, subOK: make(chan struct{}, 1), loopDone: make(chan struct{}), sentinel: sentinel}
	profile := rng.Intn(10)
	wCut, wPoison, wKill := 0.0, 0.0, 0.0
	switch {
	case profile == 0: // calm: one healthy subscription
	case profile <= 2: // error answers only
		rw.pFail = 0.10 + 0.25*rng.Float64()
	case profile <= 4: // cuts and subscription errors at random moments
		wCut, wPoison = 0.12, 0.08
	case profile <= 7: // mixed
		rw.pFail, rw.pCutIn = 0.05+0.25*rng.Float64(), 0.5
		wCut, wPoison, wKill = 0.07, 0.05, 0.04
	default: // heavy: Fatal and restarts are likely
		rw.pFail, rw.pCutIn = 0.35+0.3*rng.Float64(), 0.3
		wCut, wPoison, wKill = 0.08, 0.05, 0.05
	}
	if !withKills { // (-kills=false: ExecutionClient.Close races with its own reconnect; the race-detector run leaves it out)
		wKill = 0
	}
	rw.maxFaults = 4 + rng.Intn(12)
	if rng.Intn(3) == 0 {
		rw.latency = 50 + rng.Intn(1500)
	}
	switch rng.Intn(10) {
	case 0, 1, 2:
		rw.slow = 300
	case 3:
		rw.slow = 2000
	}
	chainJSON := make([][]int, 0, final+2)
	for b := uint64(1); b <= final+2; b++ {
		row := []int{}
		for _, ls := range ch.kinds[b] {
			if ls.removed {
				row = append(row, 1)
			} else {
				row = append(row, 0)
			}
		}
		chainJSON = append(chainJSON, row)
	}
	rec.emit("Reset", map[string]any{"x": id, "start": start, "head0": head0, "batch": batch, "follow": follow, "chain": chainJSON})

	w, err := newWorld(ch, head0, start, batch, follow, viol, rw.install)
	if err != nil {
		out.err = "world: " + err.Error()
		return
	}
	go rw.syncLoop(start, 5)

	// ---- the random schedule
	head := head0
	nSteps := 8 + rng.Intn(26)
	if rng.Intn(10) < 6 { // usually the node's life starts with an established subscription
		select {
		case <-rw.subOK:
		case <-time.After(time.Second):
		}
	}
	for i := 0; i < nSteps; i++ {
		if rng.Intn(10) >= 3 {
			time.Sleep(time.Duration(rng.Intn(4000)) * time.Microsecond)
		}
		if rng.Intn(10) < 3 { // let the client make a move first (bounded)
			a0 := atomic.LoadInt32(&rw.activity)
			for k := 0; k < 20 && atomic.LoadInt32(&rw.activity) == a0; k++ {
				time.Sleep(500 * time.Microsecond)
			}
		}
		r := rng.Float64()
		switch {
		case r < wCut:
			rw.cutAsync()
		case r < wCut+wPoison:
			rw.poison()
		case r < wCut+wPoison+wKill:
			rw.kill()
		case r < wCut+wPoison+wKill+0.07: // the head does not advance
			time.Sleep(time.Duration(2000+rng.Intn(4000)) * time.Microsecond)
		case r < wCut+wPoison+wKill+0.13: // the same height is announced again
			rw.pushHead(head)
		default: // a burst of new heads
			for k := 1 + rng.Intn(4); k > 0 && head < maxHead; k-- {
				inc := uint64(1)
				if rng.Intn(6) == 0 {
					inc = uint64(2 + rng.Intn(3))
				}
				head += inc
				if head > maxHead {
					head = maxHead
				}
				rw.pushHead(head)
			}
		}
	}

	// ---- finale: no more injected failures; the chain grows to a final block with one log at head - followDistance.
	// When that block arrives the stream has caught up (the quiescent point of the completeness check).
	rec.mu.Lock()
	rw.quiet = true
	rec.mu.Unlock()
	rw.pushHead(final)
	stalled := false
	lastSeen, lastAct, lastPush := atomic.LoadInt32(&rw.activity), time.Now(), time.Now()
	tick := time.NewTicker(100 * time.Millisecond)
	defer tick.Stop()
	loopDead := false
finale:
	for {
		rec.mu.Lock()
		reached := rw.reached
		rec.mu.Unlock()
		if reached {
			break
		}
		select {
		case <-rw.subOK: // a subscription made after the last head needs a head to start fetching
			rw.pushHead(final)
			lastPush = time.Now()
		case <-w.notify:
		case <-rw.loopDone:
			loopDead = true
			break finale
		case <-tick.C:
			if a := atomic.LoadInt32(&rw.activity); a != lastSeen {
				lastSeen, lastAct = a, time.Now()
			} else if time.Since(lastAct) > hangTimeout+time.Second {
				stalled = true
				break finale
			}
			if time.Since(lastPush) > time.Second {
				rw.pushHead(final)
				lastPush = time.Now()
			}
		}
	}
	rec.mu.Lock()
	reached, cuts := rw.reached, rw.cuts
	rec.mu.Unlock()
	rw.ecMu.Lock()
	kills := rw.kills
	rw.ecMu.Unlock()
	hung := stalled && (cuts > 0 || kills > 0)

	// ---- shutdown
	joined := false
	if hung {
		// go-ethereum's rpc client can stay blocked after a cut (see hangTimeout): given up without a verdict
		rec.mu.Lock()
		rec.emitL("End", map[string]any{"complete": false, "joined": false})
		rec.closed = true
		rec.mu.Unlock()
		out.counters["abandoned_client_hang_after_cut"]++
	}
	rw.ecMu.Lock()
	rw.ending = true
	rw.ecMu.Unlock()
	if !loopDead {
		rw.kill()
		select {
		case <-rw.loopDone:
			joined = true
		case <-time.After(2 * time.Second):
			w.cancel()
			select {
			case <-rw.loopDone:
				joined = true
			case <-time.After(waitTimeout):
			}
		}
	}
	rec.mu.Lock()
	rec.emitL("End", map[string]any{"complete": reached, "joined": joined || loopDead})
	rec.closed = true
	evs = rec.evs
	nEvents := len(evs)
	faults, poisons, delivered, withLogs := rw.faults, rw.poisons, rw.delivered, rw.withLogs
	rec.mu.Unlock()
	rw.ecMu.Lock()
	if rw.w.ec != nil {
		rw.closeClient(rw.w.ec)
		rw.w.ec = nil
	}
	restarts, fatals := rw.restarts, rw.fatals
	rw.ecMu.Unlock()
	w.cancel()
	close(w.f.done)
	w.tl.dropAll()
	w.rs.Stop()
	w.tl.dropAll()
	w.srv.Close()

	if !joined && !loopDead && !hung {
		out.counters["stream_not_closed_on_close"]++
	}
	if loopDead && rw.loopErr != "" {
		out.err = rw.loopErr
	}
	if stalled && !hung {
		out.counters["finale_stalled"]++
		out.counters["divergences"]++
	}
	if reached {
		out.counters["complete"]++
	}
	vmu.Lock()
	out.viol = append(out.viol, viols...)
	vmu.Unlock()
	out.steps = nEvents
	out.nontrivial = faults > 0 && withLogs > 0
	out.counters["faults"] = faults
	out.counters["cuts"] = cuts
	out.counters["poisons"] = poisons
	out.counters["kills"] = kills
	out.counters["restarts"] = restarts - 1
	out.counters["fatals"] = fatals
	if n := int(atomic.LoadInt32(&rw.closePanics)); n > 0 {
		out.counters["close_panics_nil_client"] = n
	}
	out.counters["entries"] = delivered
	out.counters["recorded_events"] = nEvents
	if head0 < start {
		out.counters["start_beyond_head"]++
	}
	out.sample = map[string]any{"id": id, "start": start, "batch": batch, "follow": follow, "head0": head0, "events": nEvents,
		"faults": faults, "restarts": restarts - 1, "real_stream": w.snapshot()}
	return
}

func record(seed int64, runs, workers, maxViol int, tracePath string, kills bool, res *vh.Result) error {
	if tracePath == "" {
		return fmt.Errorf("record: -trace is required")
	}
	outs := make([]behOut, runs)
	evs := make([][]map[string]any, runs)
	var wg sync.WaitGroup
	idx := int32(-1)
	var tripped int32
	for k := 0; k < workers; k++ {
		wg.Add(1)
		go func() {
			defer wg.Done()
			for {
				i := int(atomic.AddInt32(&idx, 1))
				if i >= runs {
					return
				}
				id := fmt.Sprintf("rec-%d-%d", seed, i)
				if int(atomic.LoadInt32(&tripped)) >= maxViol {
					outs[i] = behOut{id: id, counters: map[string]int{"skipped_after_violations": 1}}
					continue
				}
				outs[i], evs[i] = recordOne(seed*1000003+int64(i)*7919+17, id, kills)
				if len(outs[i].viol) > 0 {
					atomic.AddInt32(&tripped, 1)
				}
			}
		}()
	}
	wg.Wait()
	tw, err := vh.NewTraceWriter(tracePath)
	if err != nil {
		return err
	}
	var firstViol, some map[string]any
	for i, o := range outs {
		merge(res, o)
		if o.err == "" {
			for _, e := range evs[i] {
				tw.Emit(e)
			}
		}
		if len(o.viol) > 0 && firstViol == nil {
			firstViol = o.sample
		}
		if o.nontrivial && some == nil {
			some = o.sample
		}
	}
	if err := tw.Close(); err != nil {
		return err
	}
	for _, s := range []map[string]any{firstViol, some} {
		if s != nil {
			res.Samples = append(res.Samples, s)
		}
	}
	if debug {
		fmt.Fprintf(os.Stderr, "record: %d executions, %d events\n", runs, tw.N)
	}
	return nil
}
