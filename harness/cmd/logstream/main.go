// Driver for spec/LogStream.tla (property C13): replays TLC behaviours on the REAL execution client
// (eth/executionclient.ExecutionClient behind the real eth/eventsyncer.EventSyncer) against an in-process
// go-ethereum rpc.Server with a fake `eth` namespace served over a loopback WebSocket.  Every RPC of the client
// (eth_subscribe, eth_getLogs) is gated: it blocks in the fake node until the schedule decides its fate (answer,
// JSON-RPC error, connection closed under the call), so a replay is deterministic and needs no sleeps.  The
// property monitor looks only at the BlockLogs the real event syncer hands to its event handler.
//
// modes: replay (NDJSON behaviours), stress (free-running seeded fault injection, monitors only),
//
//	packlogs (PackLogs grouping/order on seeded canonical log lists),
//	record (record.go: free-running executions under a seeded random environment, recorded as NDJSON events at the
//	node's RPC boundary and at the consumer for spec/LogStreamTrace.tla).
package main

import (
	"context"
	"encoding/json"
	"errors"
	"flag"
	"fmt"
	"io"
	"math/big"
	"math/rand"
	"net"
	"net/http/httptest"
	"os"
	"runtime"
	"sort"
	"strings"
	"sync"
	"sync/atomic"
	"time"

	"github.com/ethereum/go-ethereum/common"
	"github.com/ethereum/go-ethereum/common/hexutil"
	ethtypes "github.com/ethereum/go-ethereum/core/types"
	"github.com/ethereum/go-ethereum/eth/filters"
	"github.com/ethereum/go-ethereum/rpc"
	"go.uber.org/zap"
	"go.uber.org/zap/zapcore"

	"github.com/bloxapp/ssv/eth/eventsyncer"
	"github.com/bloxapp/ssv/eth/executionclient"

	"verif/harness/vh"
)

var contract = common.HexToAddress("0x00000000000000000000000000000000005511aa")
var topic0 = common.HexToHash("0xc13c13c13c13c13c13c13c13c13c13c13c13c13c13c13c13c13c13c13c13c13c1")

const waitTimeout = 10 * time.Second

// once an execution has left the spec's prediction, later waits are short
const divergedTimeout = 1500 * time.Millisecond

// After the harness cuts a connection, go-ethereum's rpc.Client (v1.13.5) can leave the call whose write has just
// completed (or a subscription whose confirmation is just being dispatched) waiting forever: Client.dispatch excludes
// `lastOp` from cancelAllRequests when the read error overtakes sendDone.  That is a liveness matter of the RPC
// library, outside this property; an execution in which the client shows no sign of life for hangTimeout after a cut
// is given up without a conformance verdict.
const hangTimeout = 5 * time.Second

var debug = os.Getenv("LOGSTREAM_DEBUG") != ""

func dbg(format string, a ...any) {
	if debug {
		fmt.Fprintf(os.Stderr, time.Now().Format("15:04:05.000")+" "+format+"\n", a...)
	}
}

// ---------------------------------------------------------------------------------------------------
// the fake chain

type logSpec struct {
	tx      uint
	removed bool
}

var kindLogs = map[string][]logSpec{
	"none": {},
	"one":  {{0, false}},
	"two":  {{0, false}, {0, false}},
	"rm":   {{0, true}},
	"mix":  {{0, false}, {0, true}, {1, false}},
}

type chain struct {
	kinds map[uint64][]logSpec // block -> logs (blocks not listed have none)
}

func blockHash(b uint64) common.Hash { return common.BigToHash(new(big.Int).SetUint64(0xb10c0000 + b)) }
func txHash(b uint64, tx uint) common.Hash {
	return common.BigToHash(new(big.Int).SetUint64(0x7a000000 + b*1000 + uint64(tx)))
}

// all logs of block b in canonical order (what eth_getLogs returns)
func (c *chain) logs(b uint64) []*ethtypes.Log {
	var out []*ethtypes.Log
	for i, ls := range c.kinds[b] {
		out = append(out, &ethtypes.Log{Address: contract, Topics: []common.Hash{topic0}, Data: []byte{byte(b), byte(i)},
			BlockNumber: b, TxHash: txHash(b, ls.tx), TxIndex: ls.tx, BlockHash: blockHash(b), Index: uint(i), Removed: ls.removed})
	}
	return out
}

// indices of the non-removed logs of block b, in order
func (c *chain) valid(b uint64) []uint {
	var out []uint
	for i, ls := range c.kinds[b] {
		if !ls.removed {
			out = append(out, uint(i))
		}
	}
	return out
}

// ---------------------------------------------------------------------------------------------------
// the fake execution node

type decision struct {
	fail bool
}

type request struct {
	typ      string // "subscribe" | "getLogs"
	from, to uint64
	reply    chan decision
	ack      chan struct{} // subscribe: closed once the subscription is registered
}

type liveSub struct {
	n  *rpc.Notifier
	id rpc.ID
	no int // record mode: running number of the subscription
}

type fakeEth struct {
	mu          sync.Mutex
	head        uint64
	ch          *chain
	reqs        chan *request
	live        *liveSub
	done        chan struct{}
	failBlockNo int32
	nGetLogs    int32
	nSubscribe  int32
	// stress mode: decide immediately instead of gating
	auto func(r *request) decision
	// record mode (record.go): the handlers decide, log and answer under the recorder's mutex
	rec *recWorld
}

var errInjected = errors.New("injected failure")

func (f *fakeEth) Head() uint64 { f.mu.Lock(); defer f.mu.Unlock(); return f.head }

func (f *fakeEth) BlockNumber() (hexutil.Uint64, error) {
	if atomic.LoadInt32(&f.failBlockNo) > 0 {
		atomic.AddInt32(&f.failBlockNo, -1)
		return 0, errInjected
	}
	return hexutil.Uint64(f.Head()), nil
}

func (f *fakeEth) gate(ctx context.Context, r *request) (decision, error) {
	if f.auto != nil {
		return f.auto(r), nil
	}
	select {
	case f.reqs <- r:
	case <-f.done:
		return decision{}, errors.New("shutdown")
	}
	select {
	case d := <-r.reply:
		return d, nil
	case <-f.done:
		return decision{}, errors.New("shutdown")
	}
}

func (f *fakeEth) GetLogs(ctx context.Context, crit filters.FilterCriteria) ([]*ethtypes.Log, error) {
	atomic.AddInt32(&f.nGetLogs, 1)
	if crit.FromBlock == nil || crit.ToBlock == nil {
		return nil, errors.New("fake node: open block range")
	}
	from, to := crit.FromBlock.Uint64(), crit.ToBlock.Uint64()
	if f.rec != nil {
		return f.rec.getLogs(ctx, crit, from, to)
	}
	d, err := f.gate(ctx, &request{typ: "getLogs", from: from, to: to, reply: make(chan decision, 1)})
	if err != nil {
		return nil, err
	}
	if d.fail {
		return nil, errInjected
	}
	want := false
	for _, a := range crit.Addresses {
		if a == contract {
			want = true
		}
	}
	out := []*ethtypes.Log{}
	head := f.Head()
	for b := from; want && b <= to && b <= head; b++ {
		out = append(out, f.ch.logs(b)...)
	}
	return out, nil
}

func (f *fakeEth) NewHeads(ctx context.Context) (*rpc.Subscription, error) {
	atomic.AddInt32(&f.nSubscribe, 1)
	notifier, ok := rpc.NotifierFromContext(ctx)
	if !ok {
		return nil, rpc.ErrNotificationsUnsupported
	}
	if f.rec != nil {
		return f.rec.newHeads(ctx, notifier)
	}
	r := &request{typ: "subscribe", reply: make(chan decision, 1), ack: make(chan struct{})}
	d, err := f.gate(ctx, r)
	if err != nil {
		return nil, err
	}
	if d.fail {
		close(r.ack)
		return nil, errInjected
	}
	sub := notifier.CreateSubscription()
	ls := &liveSub{n: notifier, id: sub.ID}
	f.mu.Lock()
	f.live = ls
	f.mu.Unlock()
	close(r.ack)
	go func() {
		select {
		case <-sub.Err():
		case <-f.done:
		}
		f.mu.Lock()
		if f.live == ls {
			f.live = nil
		}
		f.mu.Unlock()
	}()
	return sub, nil
}

// setHead advances the chain; notify sends the head to the live subscription (if any)
func (f *fakeEth) setHead(h uint64, notify bool) bool {
	f.mu.Lock()
	if h > f.head {
		f.head = h
	}
	ls := f.live
	f.mu.Unlock()
	if !notify || ls == nil {
		return false
	}
	hdr := &ethtypes.Header{Number: new(big.Int).SetUint64(h), Difficulty: big.NewInt(0)}
	return ls.n.Notify(ls.id, hdr) == nil
}

// listener that remembers every accepted connection so that the harness can cut them
type trackListener struct {
	net.Listener
	mu    sync.Mutex
	conns []net.Conn
	// record mode: called with the accepted connection before it is served (numbers and logs it)
	onAccept func(c net.Conn)
}

func (l *trackListener) track(c net.Conn) {
	l.mu.Lock()
	l.conns = append(l.conns, c)
	l.mu.Unlock()
}

func (l *trackListener) Accept() (net.Conn, error) {
	c, err := l.Listener.Accept()
	if err == nil {
		if l.onAccept != nil {
			l.onAccept(c)
		} else {
			l.track(c)
		}
	}
	return c, err
}

func (l *trackListener) dropAll() int {
	l.mu.Lock()
	cs := l.conns
	l.conns = nil
	l.mu.Unlock()
	for _, c := range cs {
		_ = c.Close()
	}
	return len(cs)
}

// ---------------------------------------------------------------------------------------------------
// the property monitor: real BlockLogs handed to the event handler, nothing else

type entry struct {
	B    uint64 `json:"b"`
	Logs []uint `json:"logs"`
}

type monitor struct {
	ch      *chain
	start   uint64
	follow  uint64
	have    bool
	prevMax uint64
	withLog map[uint64]bool
	viol    func(sig, desc string)
}

func (m *monitor) onEntry(bl executionclient.BlockLogs, headNow uint64) {
	b := bl.BlockNumber
	marker := len(bl.Logs) == 0
	switch {
	case !marker && m.withLog[b]:
		m.viol("stream-duplicate", fmt.Sprintf("logs of block %d handed to the event handler a second time", b))
	case b < m.start:
		m.viol("stream-rewind", fmt.Sprintf("entry for block %d although the stream was requested from block %d", b, m.start))
	case m.have && b <= m.prevMax:
		m.viol("stream-not-increasing", fmt.Sprintf("entry for block %d after an entry for block %d", b, m.prevMax))
	default:
		lo := m.start
		if m.have && m.prevMax+1 > lo {
			lo = m.prevMax + 1
		}
		hi := b // exclusive for an entry with logs, inclusive for a marker ("advanced to this block")
		if marker {
			hi = b + 1
		}
		for x := lo; x < hi; x++ {
			if len(m.ch.valid(x)) > 0 {
				m.viol("stream-gap", fmt.Sprintf("block %d emitted registry logs but the stream moved on to block %d without delivering them (requested start %d)", x, b, m.start))
				break
			}
		}
	}
	if !marker {
		want := m.ch.valid(b)
		ok := len(want) == len(bl.Logs)
		for i := 0; ok && i < len(want); i++ {
			l := bl.Logs[i]
			ok = l.BlockNumber == b && l.Index == want[i] && !l.Removed && l.BlockHash == blockHash(b) &&
				len(l.Data) == 2 && l.Data[0] == byte(b) && l.Data[1] == byte(want[i])
		}
		if !ok {
			got := []string{}
			for _, l := range bl.Logs {
				got = append(got, fmt.Sprintf("%d/%d%s", l.BlockNumber, l.Index, map[bool]string{true: "(removed)", false: ""}[l.Removed]))
			}
			m.viol("block-incomplete", fmt.Sprintf("entry for block %d carries logs %v, the block's non-removed logs in order are indices %v", b, got, want))
		}
		m.withLog[b] = true
	}
	if b+m.follow > headNow {
		m.viol("stream-beyond-follow-distance", fmt.Sprintf("entry for block %d delivered while the head is %d and the follow distance %d", b, headNow, m.follow))
	}
	if !m.have || b > m.prevMax {
		m.prevMax = b
	}
	m.have = true
}

// ---------------------------------------------------------------------------------------------------
// one world = one fake node + one real client + one real event syncer with a recording handler

type fatalHook struct{ fired *int32 }

func (h fatalHook) OnWrite(*zapcore.CheckedEntry, []zapcore.Field) {
	atomic.StoreInt32(h.fired, 1)
	runtime.Goexit()
}

type world struct {
	f       *fakeEth
	tl      *trackListener
	srv     *httptest.Server
	rs      *rpc.Server
	ec      *executionclient.ExecutionClient
	es      *eventsyncer.EventSyncer
	ctx     context.Context
	cancel  context.CancelFunc
	fatal   int32
	mu      sync.Mutex
	got     []entry
	notify  chan struct{}
	mon     *monitor
	ongoing chan struct{} // closed when SyncOngoing has returned
	started bool
	url     string
	logger  *zap.Logger
	batch   uint64
	follow  uint64
	// record mode
	onEntry func(bl executionclient.BlockLogs) // called by the handler for every entry it receives
	lastRet uint64                             // what the handler returned last (atomic)
}

// HandleBlockEventsStream is the recording stand-in for eventhandler.EventHandler (same contract: consume the
// stream, return the number of the last entry).
func (w *world) HandleBlockEventsStream(logs <-chan executionclient.BlockLogs, executeTasks bool) (uint64, error) {
	var last uint64
	for bl := range logs {
		if w.onEntry != nil {
			w.onEntry(bl)
		}
		head := w.f.Head()
		w.mu.Lock()
		w.mon.onEntry(bl, head)
		e := entry{B: bl.BlockNumber, Logs: []uint{}}
		for _, l := range bl.Logs {
			e.Logs = append(e.Logs, l.Index)
		}
		w.got = append(w.got, e)
		w.mu.Unlock()
		select {
		case w.notify <- struct{}{}:
		default:
		}
		last = bl.BlockNumber
	}
	atomic.StoreUint64(&w.lastRet, last)
	return last, nil
}

func newWorld(ch *chain, head0, start, batch, follow uint64, viol func(sig, desc string), prep ...func(w *world)) (*world, error) {
	w := &world{notify: make(chan struct{}, 1), ongoing: make(chan struct{}), batch: batch, follow: follow}
	w.f = &fakeEth{head: head0, ch: ch, reqs: make(chan *request, 64), done: make(chan struct{})}
	w.mon = &monitor{ch: ch, start: start, follow: follow, withLog: map[uint64]bool{}, viol: viol}
	w.rs = rpc.NewServer()
	if err := w.rs.RegisterName("eth", w.f); err != nil {
		return nil, err
	}
	w.srv = httptest.NewUnstartedServer(w.rs.WebsocketHandler([]string{"*"}))
	w.tl = &trackListener{Listener: w.srv.Listener}
	w.srv.Listener = w.tl
	for _, p := range prep { // record mode installs its hooks before the first connection
		p(w)
	}
	w.srv.Start()
	w.url = "ws:" + strings.TrimPrefix(w.srv.URL, "http:")
	core := zapcore.NewCore(zapcore.NewJSONEncoder(zap.NewProductionEncoderConfig()), zapcore.AddSync(io.Discard), zapcore.ErrorLevel)
	w.logger = zap.New(core, zap.WithFatalHook(fatalHook{&w.fatal}))
	w.ctx, w.cancel = context.WithCancel(context.Background())
	if err := w.newClient(); err != nil {
		w.close()
		return nil, err
	}
	return w, nil
}

// newClient builds the real ExecutionClient + EventSyncer pair (again after a simulated node restart)
func (w *world) newClient() error {
	if w.ec != nil {
		_ = w.ec.Close()
		w.ec = nil
	}
	ec, err := executionclient.New(w.ctx, w.url, contract,
		executionclient.WithLogger(w.logger),
		executionclient.WithFollowDistance(w.follow),
		executionclient.WithLogBatchSize(w.batch),
		executionclient.WithReconnectionInitialInterval(2*time.Millisecond),
		executionclient.WithReconnectionMaxInterval(2*time.Second),
		executionclient.WithConnectionTimeout(10*time.Second))
	if err != nil {
		return err
	}
	w.ec = ec
	w.es = eventsyncer.New(nil, ec, w, eventsyncer.WithLogger(w.logger))
	return nil
}

func (w *world) startOngoing(from uint64) {
	w.started = true
	es := w.es
	go func() {
		// SyncOngoing runs HandleBlockEventsStream on this goroutine; a Fatal (hook: Goexit) ends the StreamLogs
		// goroutine, whose deferred close(logs) ends the handler loop and thereby this call.
		defer close(w.ongoing)
		_ = es.SyncOngoing(w.ctx, from)
	}()
}

func (w *world) close() bool {
	if w.ec != nil {
		_ = w.ec.Close()
		w.ec = nil
	}
	w.cancel()
	select {
	case <-w.f.done:
	default:
		close(w.f.done)
	}
	w.tl.dropAll()
	joined := true
	if w.started {
		select {
		case <-w.ongoing:
		case <-time.After(waitTimeout):
			joined = false
		}
	}
	w.rs.Stop()
	w.tl.dropAll()
	w.srv.Close()
	return joined
}

func (w *world) snapshot() []entry {
	w.mu.Lock()
	defer w.mu.Unlock()
	return append([]entry{}, w.got...)
}

// waitEntries waits until at least n entries were handed to the handler
func (w *world) waitEntries(n int, d time.Duration) bool {
	deadline := time.NewTimer(d)
	defer deadline.Stop()
	for {
		w.mu.Lock()
		l := len(w.got)
		w.mu.Unlock()
		if l >= n {
			return true
		}
		select {
		case <-w.notify:
		case <-deadline.C:
			return false
		}
	}
}

func (w *world) waitReq(d time.Duration) *request {
	select {
	case r := <-w.f.reqs:
		return r
	case <-time.After(d):
		return nil
	}
}

// ---------------------------------------------------------------------------------------------------
// replay of one spec behaviour

type behOut struct {
	id         string
	steps      int
	nontrivial bool
	viol       []vh.Violation
	div        []vh.Divergence
	counters   map[string]int
	sample     map[string]any
	err        string
}

func specEntries(st map[string]any) []entry {
	var out []entry
	for _, x := range vh.List(st, "delivered") {
		m, _ := x.(map[string]any)
		e := entry{B: uint64(vh.Int(m, "b")), Logs: []uint{}}
		for _, i := range vh.Ints(m, "logs") {
			e.Logs = append(e.Logs, uint(i))
		}
		out = append(out, e)
	}
	return out
}

func sameEntries(a, b []entry) bool {
	if len(a) != len(b) {
		return false
	}
	for i := range a {
		if a[i].B != b[i].B || len(a[i].Logs) != len(b[i].Logs) {
			return false
		}
		for j := range a[i].Logs {
			if a[i].Logs[j] != b[i].Logs[j] {
				return false
			}
		}
	}
	return true
}

func replayOne(b vh.Behaviour) (out behOut) {
	out = behOut{id: b.ID, counters: map[string]int{}}
	if len(b.Steps) == 0 {
		out.err = "empty behaviour"
		return
	}
	step := 0
	var curStep int32 // read by the handler goroutine
	var vmu sync.Mutex
	var viols []vh.Violation
	viol := func(sig, desc string) {
		vmu.Lock()
		viols = append(viols, vh.Violation{Signature: sig, Description: desc, Behaviour: b.ID, Step: int(atomic.LoadInt32(&curStep))})
		vmu.Unlock()
	}
	attack := strings.HasPrefix(b.Kind, "attack")
	diverged := false
	div := func(field string, spec, real any) {
		if attack {
			out.counters["attack_steps_refused"]++
		} else {
			out.counters["divergences"]++
			if len(out.div) < 3 {
				out.div = append(out.div, vh.Divergence{Behaviour: b.ID, Step: step, Field: field, Spec: spec, Real: real})
			}
		}
		diverged = true
	}

	init := b.Steps[0]
	env := vh.Map(init.State, "env")
	kindsRaw := vh.List(env, "kind")
	batch, follow := uint64(vh.Int(env, "batch")), uint64(vh.Int(env, "follow"))
	start, head0 := uint64(vh.Int(init.Act, "start")), uint64(vh.Int(init.Act, "head0"))
	if batch == 0 || start == 0 || len(kindsRaw) == 0 {
		out.err = "behaviour without env/init parameters"
		return
	}
	ch := &chain{kinds: map[uint64][]logSpec{}}
	maxHead := uint64(len(kindsRaw))
	for i, k := range kindsRaw {
		ks, _ := k.(string)
		ls, ok := kindLogs[ks]
		if !ok {
			out.err = "unknown block kind " + ks
			return
		}
		ch.kinds[uint64(i+1)] = ls
	}
	sentinel := maxHead + 1
	ch.kinds[sentinel] = kindLogs["one"]

	w, err := newWorld(ch, head0, start, batch, follow, viol)
	if err != nil {
		out.err = "world: " + err.Error()
		return
	}
	closed := false
	defer func() {
		if !closed {
			w.close()
		}
	}()

	realFrom := start // the harness's own idea of the next start block, from real results only
	var pending *request
	var stash *request
	type histRes struct {
		last uint64
		err  error
	}
	var histCh chan histRes
	broken := ""
	faults := 0
	expectFatal := false
	cut := false  // a connection was cut and the client has not been heard of since
	hung := false // ... and stayed silent for hangTimeout

	wt := func() time.Duration {
		switch {
		case cut:
			return hangTimeout
		case diverged:
			return divergedTimeout
		}
		return waitTimeout
	}
	needReq := func(typ string) *request {
		var r *request
		if stash != nil {
			r, stash = stash, nil
		} else {
			r = w.waitReq(wt())
		}
		if r == nil {
			if cut {
				hung = true
				broken = "client silent after a cut connection"
				return nil
			}
			div("request", typ, "none within timeout")
			broken = "no " + typ + " request"
			return nil
		}
		cut = false
		if r.typ != typ {
			div("request", typ, r.typ)
			broken = "unexpected " + r.typ + " request"
			stash = r
			return nil
		}
		return r
	}
	checkRange := func(r *request, act map[string]any) {
		if r.from != uint64(vh.Int(act, "a")) || r.to != uint64(vh.Int(act, "b")) {
			div("getLogs.range", []int{vh.Int(act, "a"), vh.Int(act, "b")}, []uint64{r.from, r.to})
		}
	}
	checkDelivered := func(st map[string]any) {
		want := specEntries(st)
		if !w.waitEntries(len(want), wt()) {
			div("delivered.len", len(want), len(w.snapshot()))
			return
		}
		got := w.snapshot()
		if !diverged && !sameEntries(want, got) {
			div("delivered", want, got)
		}
	}
	waitHist := func() (histRes, bool) {
		d := wt()
		select {
		case r := <-histCh:
			histCh = nil
			cut = false
			return r, true
		case <-time.After(d):
			broken = "SyncHistory did not return"
			if cut {
				hung = true
			} else {
				div("SyncHistory", "returns", "still running")
			}
			return histRes{}, false
		}
	}
	cutNow := func() {
		time.Sleep(2 * time.Millisecond) // let the client's dispatch loop see its completed write first
		w.tl.dropAll()
		cut = true
	}
	lastReal := func() (uint64, bool) {
		g := w.snapshot()
		if len(g) == 0 {
			return 0, false
		}
		return g[len(g)-1].B, true
	}
	afterFailure := func(st map[string]any) {
		faults++
		if vh.Str(st, "pc") == "fatal" {
			expectFatal = true
			d := wt()
			select {
			case <-w.ongoing:
				if atomic.LoadInt32(&w.fatal) == 0 {
					div("fatal", true, "stream closed without Fatal")
				}
			case <-time.After(d):
				broken = "expected Fatal did not happen"
				if cut {
					hung = true
				} else {
					div("fatal", true, false)
				}
			}
		}
	}

	for step = 1; step < len(b.Steps) && broken == ""; step++ {
		s := b.Steps[step]
		name := vh.Str(s.Act, "name")
		out.steps++
		atomic.StoreInt32(&curStep, int32(step))
		if debug {
			fmt.Fprintf(os.Stderr, "%s %s step %d %s\n", time.Now().Format("15:04:05.000"), b.ID, step, name)
		}
		if atomic.LoadInt32(&w.fatal) != 0 && !expectFatal {
			div("fatal", false, true)
			broken = "unexpected Fatal"
			break
		}
		switch name {
		case "NewBlock":
			sent := w.f.setHead(uint64(vh.Int(s.Act, "h")), vh.Bool(s.Act, "notified"))
			if vh.Bool(s.Act, "notified") && !sent {
				div("notify", true, false)
			}
		case "HistCall":
			if realFrom != uint64(vh.Int(s.Act, "from")) {
				div("from", vh.Int(s.Act, "from"), realFrom)
			}
			histCh = make(chan histRes, 1)
			go func(from uint64, c chan histRes) {
				last, err := w.es.SyncHistory(w.ctx, from)
				c <- histRes{last, err}
			}(realFrom, histCh)
			if vh.Bool(s.Act, "nothing") {
				if r, ok := waitHist(); ok && !errors.Is(r.err, executionclient.ErrNothingToSync) {
					div("SyncHistory.err", "ErrNothingToSync", fmt.Sprint(r.err))
				}
			} else {
				pending = needReq("getLogs")
			}
		case "HistCallErr":
			atomic.StoreInt32(&w.f.failBlockNo, 1)
			faults++
			histCh = make(chan histRes, 1)
			go func(from uint64, c chan histRes) {
				last, err := w.es.SyncHistory(w.ctx, from)
				c <- histRes{last, err}
			}(realFrom, histCh)
			if r, ok := waitHist(); ok && (r.err == nil || errors.Is(r.err, executionclient.ErrNothingToSync)) {
				div("SyncHistory.err", "error", fmt.Sprint(r.err))
			}
			atomic.StoreInt32(&w.f.failBlockNo, 0)
			if err := w.newClient(); err != nil { // node.go: Fatal, the node restarts
				out.err = "restart: " + err.Error()
				return
			}
		case "HistBatchOK", "BatchOK":
			if pending == nil {
				pending = needReq("getLogs")
			}
			if pending == nil {
				break
			}
			checkRange(pending, s.Act)
			pending.reply <- decision{}
			pending = nil
			checkDelivered(s.State)
			if !vh.Bool(s.Act, "done") {
				pending = needReq("getLogs")
			} else if name == "HistBatchOK" {
				if r, ok := waitHist(); ok {
					if r.err != nil {
						div("SyncHistory.err", nil, fmt.Sprint(r.err))
						if l, ok := lastReal(); ok {
							realFrom = l + 1
						}
					} else {
						realFrom = r.last + 1
					}
					if realFrom != uint64(vh.Int(s.State, "from")) {
						div("from", vh.Int(s.State, "from"), realFrom)
					}
				}
			}
		case "HistBatchErr", "BatchErr":
			if pending == nil {
				pending = needReq("getLogs")
			}
			if pending == nil {
				break
			}
			checkRange(pending, s.Act)
			if vh.Str(s.Act, "kind") == "drop" {
				cutNow()
			}
			pending.reply <- decision{fail: true}
			pending = nil
			if name == "HistBatchErr" {
				faults++
				if r, ok := waitHist(); ok && r.err == nil {
					div("SyncHistory.err", "error", nil)
				}
				if l, ok := lastReal(); ok { // the node restarts after the last block its handler processed
					realFrom = l + 1
				}
				if realFrom != uint64(vh.Int(s.State, "from")) {
					div("from", vh.Int(s.State, "from"), realFrom)
				}
				if err := w.newClient(); err != nil { // node.go: Fatal, the node restarts
					out.err = "restart: " + err.Error()
					return
				}
			} else {
				afterFailure(s.State)
			}
		case "SubscribeOK", "SubscribeFail":
			if !w.started {
				if realFrom != uint64(vh.Int(s.Act, "from")) && !diverged {
					div("from", vh.Int(s.Act, "from"), realFrom)
				}
				w.startOngoing(realFrom)
			}
			r := needReq("subscribe")
			if r == nil {
				break
			}
			if name == "SubscribeOK" {
				r.reply <- decision{}
				<-r.ack
			} else {
				if vh.Str(s.Act, "kind") == "drop" {
					cutNow()
				}
				r.reply <- decision{fail: true}
				afterFailure(s.State)
			}
		case "TakeHead":
			if vh.Bool(s.Act, "fetch") {
				pending = needReq("getLogs")
			}
		case "SubError":
			cutNow()
			afterFailure(s.State)
		default:
			out.err = "unknown action " + name
			return
		}
	}
	out.counters["faults"] = faults
	if broken != "" {
		out.counters["aborted_schedules"]++
	}

	// finale (harness-made, no failures): let the client catch up to a sentinel block with one log beyond the
	// spec's chain, so that every block the schedule left behind shows up as a gap on the real stream.
	finaleOK := true
	dbg("%s schedule done broken=%q", b.ID, broken)
	if !hung && !expectFatal && atomic.LoadInt32(&w.fatal) == 0 {
		step = len(b.Steps)
		atomic.StoreInt32(&curStep, int32(step))
		idle := hangTimeout + time.Second // no request, entry or return for this long: stalled
		if diverged && !cut {
			idle = 2 * divergedTimeout
		}
		if stash != nil {
			w.f.reqs <- stash
			stash = nil
		}
		if pending != nil {
			pending.reply <- decision{}
			pending = nil
		}
		for histCh != nil && finaleOK { // a history sync is still running: answer it, then continue as node.go does
			select {
			case r := <-histCh:
				histCh = nil
				cut = false
				if r.err == nil {
					realFrom = r.last + 1
				} else if l, ok := lastReal(); ok {
					realFrom = l + 1
				}
			case r := <-w.f.reqs:
				cut = false
				r.reply <- decision{}
			case <-w.notify:
			case <-time.After(idle):
				finaleOK = false // never run two syncs into one handler: the execution ends here
			}
		}
		if finaleOK {
			if !w.started {
				w.startOngoing(realFrom)
			}
			target := sentinel + follow
			w.f.setHead(target, true)
			reached := func() bool {
				w.mu.Lock()
				defer w.mu.Unlock()
				return w.mon.have && w.mon.prevMax >= sentinel
			}
		finale:
			for !reached() {
				select {
				case r := <-w.f.reqs:
					cut = false
					r.reply <- decision{}
					if r.typ == "subscribe" {
						<-r.ack
						w.f.setHead(target, true)
					}
				case <-w.notify:
				case <-w.ongoing:
					finaleOK = false
					break finale
				case <-time.After(idle):
					finaleOK = false
					break finale
				}
			}
		}
		if !finaleOK {
			if cut {
				hung = true
			} else {
				out.counters["finale_stalled"]++
				if !attack {
					out.counters["divergences"]++
					if len(out.div) < 3 {
						out.div = append(out.div, vh.Divergence{Behaviour: b.ID, Step: step, Field: "finale", Spec: "sentinel block delivered", Real: w.snapshot()})
					}
				}
			}
		}
	}
	if hung {
		out.counters["abandoned_client_hang_after_cut"]++
	}
	dbg("%s finale done ok=%v", b.ID, finaleOK)
	closed = true
	if !w.close() {
		out.counters["stream_not_closed_on_close"]++
	}
	dbg("%s closed", b.ID)
	got := w.snapshot()
	vmu.Lock()
	out.viol = append(out.viol, viols...)
	vmu.Unlock()
	for _, e := range got {
		if len(e.Logs) > 0 && faults > 0 {
			out.nontrivial = true
		}
	}
	out.counters["entries"] = len(got)
	out.counters["getLogs_calls"] = int(atomic.LoadInt32(&w.f.nGetLogs))
	out.counters["subscribe_calls"] = int(atomic.LoadInt32(&w.f.nSubscribe))
	if atomic.LoadInt32(&w.fatal) != 0 {
		out.counters["fatal_observed"]++
	}
	acts := []any{}
	for _, s := range b.Steps {
		acts = append(acts, s.Act)
	}
	out.sample = map[string]any{"id": b.ID, "env": env, "acts": acts, "real_stream": got}
	return
}

// ---------------------------------------------------------------------------------------------------
// stress: free-running client, seeded fault injection without gating, monitors only

func stressOne(seed int64, id string) (out behOut) {
	out = behOut{id: id, counters: map[string]int{}}
	rng := rand.New(rand.NewSource(seed))
	var curStep int32
	var vmu sync.Mutex
	var viols []vh.Violation
	viol := func(sig, desc string) {
		vmu.Lock()
		viols = append(viols, vh.Violation{Signature: sig, Description: desc, Behaviour: id, Step: int(atomic.LoadInt32(&curStep))})
		vmu.Unlock()
	}
	kindNames := []string{"none", "none", "one", "two", "rm", "mix"}
	start := uint64(1 + rng.Intn(4))
	batch := uint64(1 + rng.Intn(4))
	follow := uint64(rng.Intn(3))
	head0 := start + uint64(rng.Intn(8))
	nHeads := 6 + rng.Intn(10)
	maxHead := head0 + uint64(nHeads)
	ch := &chain{kinds: map[uint64][]logSpec{}}
	kinds := []string{}
	for b := uint64(1); b <= maxHead; b++ {
		k := kindNames[rng.Intn(len(kindNames))]
		kinds = append(kinds, k)
		ch.kinds[b] = kindLogs[k]
	}
	sentinel := maxHead + 1
	ch.kinds[sentinel] = kindLogs["one"]
	w, err := newWorld(ch, head0, start, batch, follow, viol)
	if err != nil {
		out.err = "world: " + err.Error()
		return
	}
	closed := false
	defer func() {
		if !closed {
			w.close()
		}
	}()

	// Fault budget.  StreamLogs counts a failure first (Fatal on the third) and resets its counter afterwards if the
	// failed call had made progress.  c is the harness's upper bound of that counter: a failure is injected when
	// c = 0, or when c = 1 and entries were handed over since the eth_subscribe of the current call (the client
	// then resets to 0).  A cut connection causes at most one failure.
	var fmu sync.Mutex
	c, faults, entriesAtCallStart := 0, 0, 0
	callOpen, quiet := false, false
	pFail := 0.10 + 0.30*rng.Float64()
	frng := rand.New(rand.NewSource(seed ^ 0x5eed))
	entries := func() int { w.mu.Lock(); defer w.mu.Unlock(); return len(w.got) }
	// returns (inject, cutConnection)
	mayFail := func(isSubscribe bool) (bool, bool) {
		fmu.Lock()
		defer fmu.Unlock()
		n := entries()
		if isSubscribe {
			callOpen, entriesAtCallStart = true, n
		}
		if quiet || frng.Float64() >= pFail {
			return false, false
		}
		progressed := callOpen && n > entriesAtCallStart
		if c == 0 || (c == 1 && progressed) {
			if progressed {
				c = 0
			} else {
				c++
			}
			callOpen = false
			faults++
			return true, frng.Intn(2) == 0
		}
		return false, false
	}
	events := []string{}
	var emu sync.Mutex
	logEv := func(s string) {
		emu.Lock()
		if len(events) < 200 {
			events = append(events, s)
		}
		emu.Unlock()
	}
	var activity int32
	cuts := 0
	w.f.auto = func(r *request) decision {
		atomic.AddInt32(&activity, 1)
		fail, drop := mayFail(r.typ == "subscribe")
		if fail {
			if drop {
				fmu.Lock()
				cuts++
				fmu.Unlock()
				w.tl.dropAll()
			}
			logEv(fmt.Sprintf("%s[%d,%d] fail cut=%v", r.typ, r.from, r.to, drop))
			return decision{fail: true}
		}
		logEv(fmt.Sprintf("%s[%d,%d] ok", r.typ, r.from, r.to))
		return decision{}
	}
	w.startOngoing(start)
	head := head0
	for i := 0; i < nHeads; i++ {
		atomic.StoreInt32(&curStep, int32(i))
		time.Sleep(time.Duration(rng.Intn(3000)) * time.Microsecond)
		head++
		w.f.setHead(head, true)
		logEv(fmt.Sprintf("head %d", head))
		if rng.Intn(5) == 0 {
			if fail, _ := mayFail(false); fail {
				fmu.Lock()
				cuts++
				fmu.Unlock()
				w.tl.dropAll()
				logEv("cut")
			}
		}
	}
	fmu.Lock()
	quiet = true
	fmu.Unlock()
	target := sentinel + follow
	tick := time.NewTicker(20 * time.Millisecond)
	defer tick.Stop()
	stalled := false
	lastAct, lastSeen := time.Now(), atomic.LoadInt32(&activity)
loop:
	for {
		w.mu.Lock()
		ok := w.mon.have && w.mon.prevMax >= sentinel
		w.mu.Unlock()
		if ok {
			break
		}
		select {
		case <-tick.C:
			w.f.setHead(target, true) // a subscription made after the last head needs a head to start fetching
			if a := atomic.LoadInt32(&activity); a != lastSeen {
				lastSeen, lastAct = a, time.Now()
			} else if time.Since(lastAct) > hangTimeout+time.Second {
				stalled = true
				break loop
			}
		case <-w.notify:
			lastAct = time.Now()
		case <-w.ongoing:
			stalled = true
			break loop
		}
	}
	if stalled {
		if cuts > 0 && atomic.LoadInt32(&w.fatal) == 0 {
			out.counters["abandoned_client_hang_after_cut"]++ // see hangTimeout
		} else {
			out.counters["finale_stalled"]++
			out.counters["divergences"]++
		}
	}
	if atomic.LoadInt32(&w.fatal) != 0 {
		out.counters["fatal_observed"]++
	}
	closed = true
	if !w.close() {
		out.counters["stream_not_closed_on_close"]++
	}
	got := w.snapshot()
	vmu.Lock()
	out.viol = append(out.viol, viols...)
	vmu.Unlock()
	out.steps = nHeads + int(atomic.LoadInt32(&w.f.nGetLogs)) + int(atomic.LoadInt32(&w.f.nSubscribe))
	out.counters["faults"] = faults
	out.counters["entries"] = len(got)
	for _, e := range got {
		if len(e.Logs) > 0 && faults > 0 {
			out.nontrivial = true
		}
	}
	emu.Lock()
	evs := append([]string{}, events...)
	emu.Unlock()
	out.sample = map[string]any{"id": id, "start": start, "batch": batch, "follow": follow, "head0": head0, "kinds": kinds,
		"events": evs, "real_stream": got}
	return
}

// ---------------------------------------------------------------------------------------------------
// PackLogs on seeded canonical log lists (what one eth_getLogs answer looks like after the removed filter)

func packlogs(seed int64, runs int, res *vh.Result) {
	rng := rand.New(rand.NewSource(seed))
	for r := 0; r < runs; r++ {
		id := fmt.Sprintf("packlogs-%d-%d", seed, r)
		var in []ethtypes.Log
		want := map[uint64][]uint{}
		var order []uint64
		b := uint64(1 + rng.Intn(5))
		nBlocks := 1 + rng.Intn(6)
		for i := 0; i < nBlocks; i++ {
			b += uint64(1 + rng.Intn(3))
			idx := uint(0)
			nTx := 1 + rng.Intn(4)
			tx := uint(rng.Intn(3))
			for t := 0; t < nTx; t++ {
				tx += uint(1 + rng.Intn(3))
				for k := 0; k < 1+rng.Intn(6); k++ {
					in = append(in, ethtypes.Log{BlockNumber: b, TxIndex: tx, Index: idx, Data: []byte{byte(idx)}})
					want[b] = append(want[b], idx)
					idx += uint(1 + rng.Intn(2))
				}
			}
			order = append(order, b)
		}
		cp := append([]ethtypes.Log{}, in...)
		got := executionclient.PackLogs(cp)
		res.Behaviours++
		res.Steps += len(in)
		if len(in) > 12 {
			res.Nontrivial++
		}
		ok := len(got) == len(order)
		for i := 0; ok && i < len(got); i++ {
			ok = got[i].BlockNumber == order[i] && len(got[i].Logs) == len(want[order[i]])
			for j := 0; ok && j < len(got[i].Logs); j++ {
				ok = got[i].Logs[j].Index == want[order[i]][j] && got[i].Logs[j].BlockNumber == order[i]
			}
		}
		if !ok {
			desc := []string{}
			for _, g := range got {
				ix := []uint{}
				for _, l := range g.Logs {
					ix = append(ix, l.Index)
				}
				desc = append(desc, fmt.Sprintf("%d:%v", g.BlockNumber, ix))
			}
			res.Violate("block-incomplete", fmt.Sprintf("PackLogs of %d canonical logs of blocks %v gives %v", len(in), order, desc), id, 0)
		}
		if r == 0 {
			res.Samples = append(res.Samples, map[string]any{"id": id, "blocks": order, "logs": len(in)})
		}
	}
}

// ---------------------------------------------------------------------------------------------------

func merge(res *vh.Result, o behOut) {
	if o.counters["skipped_after_violations"] > 0 {
		res.Counters["skipped_after_violations"]++
		return
	}
	res.Behaviours++
	res.Steps += o.steps
	if o.nontrivial {
		res.Nontrivial++
	}
	for _, v := range o.viol {
		res.Violate(v.Signature, v.Description, v.Behaviour, v.Step)
	}
	for _, d := range o.div {
		if len(res.Divergences) < 50 {
			res.Divergences = append(res.Divergences, d)
		}
	}
	for k, v := range o.counters {
		res.Counters[k] += v
	}
	if o.err != "" {
		res.Notes = append(res.Notes, o.id+": "+o.err)
		res.Counters["errors"]++
	}
}

func main() {
	mode := flag.String("mode", "replay", "replay | stress | packlogs | record")
	tracePath := flag.String("trace", "", "recorded events NDJSON (record)")
	kills := flag.Bool("kills", true, "record: shut the client down at random moments (ExecutionClient.Close)")
	in := flag.String("in", "", "behaviours NDJSON (replay)")
	outp := flag.String("out", "", "result JSON")
	workers := flag.Int("workers", 12, "concurrent worlds")
	seed := flag.Int64("seed", 1, "seed")
	runs := flag.Int("runs", 100, "number of own executions (stress, packlogs)")
	maxViol := flag.Int("maxviol", 40, "stop starting new executions once this many of them tripped the monitor")
	flag.Parse()
	res := vh.NewResult()

	switch *mode {
	case "replay":
		behs, err := vh.ReadBehaviours(*in)
		if err != nil {
			fmt.Fprintln(os.Stderr, err)
			os.Exit(2)
		}
		outs := make([]behOut, len(behs))
		var wg sync.WaitGroup
		idx := int32(-1)
		var tripped int32
		for k := 0; k < *workers; k++ {
			wg.Add(1)
			go func() {
				defer wg.Done()
				for {
					i := int(atomic.AddInt32(&idx, 1))
					if i >= len(behs) {
						return
					}
					if int(atomic.LoadInt32(&tripped)) >= *maxViol {
						outs[i] = behOut{id: behs[i].ID, counters: map[string]int{"skipped_after_violations": 1}}
						continue
					}
					outs[i] = replayOne(behs[i])
					if len(outs[i].viol) > 0 {
						atomic.AddInt32(&tripped, 1)
					}
				}
			}()
		}
		wg.Wait()
		var firstViol, firstAttack, mid map[string]any
		for i, o := range outs {
			merge(res, o)
			if len(o.viol) > 0 && firstViol == nil {
				firstViol = o.sample
			}
			if strings.HasPrefix(behs[i].Kind, "attack") && firstAttack == nil {
				firstAttack = o.sample
			}
			if o.nontrivial && (mid == nil || i <= len(outs)/2) {
				mid = o.sample
			}
		}
		for _, s := range []map[string]any{firstViol, mid, firstAttack} {
			if s != nil {
				res.Samples = append(res.Samples, s)
			}
		}
	case "stress":
		outs := make([]behOut, *runs)
		var wg sync.WaitGroup
		idx := int32(-1)
		var tripped int32
		for k := 0; k < *workers; k++ {
			wg.Add(1)
			go func() {
				defer wg.Done()
				for {
					i := int(atomic.AddInt32(&idx, 1))
					if i >= *runs {
						return
					}
					if int(atomic.LoadInt32(&tripped)) >= *maxViol {
						outs[i] = behOut{id: fmt.Sprintf("stress-%d-%d", *seed, i), counters: map[string]int{"skipped_after_violations": 1}}
						continue
					}
					outs[i] = stressOne(*seed*1000003+int64(i), fmt.Sprintf("stress-%d-%d", *seed, i))
					if len(outs[i].viol) > 0 {
						atomic.AddInt32(&tripped, 1)
					}
				}
			}()
		}
		wg.Wait()
		var firstViol, some map[string]any
		for _, o := range outs {
			merge(res, o)
			if len(o.viol) > 0 && firstViol == nil {
				firstViol = o.sample
			}
			if o.nontrivial && some == nil {
				some = o.sample
			}
		}
		for _, s := range []map[string]any{firstViol, some} {
			if s != nil {
				res.Samples = append(res.Samples, s)
			}
		}
	case "packlogs":
		packlogs(*seed, *runs, res)
	case "record":
		if err := record(*seed, *runs, *workers, *maxViol, *tracePath, *kills, res); err != nil {
			fmt.Fprintln(os.Stderr, err)
			os.Exit(2)
		}
	default:
		fmt.Fprintln(os.Stderr, "unknown mode")
		os.Exit(2)
	}
	sort.Strings(res.Notes)
	if *outp == "" {
		b, _ := json.Marshal(res)
		fmt.Println(string(b))
		return
	}
	if err := res.Write(*outp); err != nil {
		fmt.Fprintln(os.Stderr, err)
		os.Exit(2)
	}
}
