// Driver for spec/Scheduler.tla: replays TLC behaviours on the REAL duty handlers of operator/duties
// (AttesterHandler, ProposerHandler, SyncCommitteeHandler over the real dutystore), runs the C16 monitors on the
// recorded ExecuteDuties calls and BeaconNode.*Duties fetch calls, and runs its own seeded random schedules,
// recorded for trace validation by TLC (spec/SchedulerTrace.tla).
//
// Binding: each handler is Setup with a harness ticker (unbuffered channel), harness reorg / indices-change
// channels, a fake BeaconNode serving the assignment of the trace (or failing as the trace says), a BeaconNetwork
// with SPE-slot epochs, EPP-epoch sync periods and a virtual current slot, and an ExecuteDutiesFunc that records
// synchronously. Events are sent one at a time; after each one a ReorgEvent without flags (a no-op in all three
// handlers) is sent as a barrier: it is accepted only when the handler is back at its select, so everything the
// previous event caused has been recorded, in the handler goroutine's own order.
package main

import (
	"context"
	"errors"
	"flag"
	"fmt"
	"math/big"
	"math/rand"
	"os"
	"sort"
	"sync"
	"time"

	eth2client "github.com/attestantio/go-eth2-client"
	eth2apiv1 "github.com/attestantio/go-eth2-client/api/v1"
	"github.com/attestantio/go-eth2-client/spec/phase0"
	spectypes "github.com/bloxapp/ssv-spec/types"
	ethtypes "github.com/ethereum/go-ethereum/core/types"
	"go.uber.org/zap"

	"github.com/bloxapp/ssv/networkconfig"
	"github.com/bloxapp/ssv/operator/duties"
	"github.com/bloxapp/ssv/operator/duties/dutystore"
	"github.com/bloxapp/ssv/operator/slotticker"
	beaconprotocol "github.com/bloxapp/ssv/protocol/v2/blockchain/beacon"
	ssvtypes "github.com/bloxapp/ssv/protocol/v2/types"

	"verif/harness/vh"
)

const unset = -2

// ---- virtual beacon network ----

type vnet struct {
	beaconprotocol.Network
	mu       sync.Mutex
	slot     phase0.Slot
	spe, epp uint64
}

func (v *vnet) cur() phase0.Slot                     { v.mu.Lock(); defer v.mu.Unlock(); return v.slot }
func (v *vnet) set(s int)                            { v.mu.Lock(); v.slot = phase0.Slot(s); v.mu.Unlock() }
func (v *vnet) SlotDurationSec() time.Duration       { return 12 * time.Second }
func (v *vnet) SlotsPerEpoch() uint64                { return v.spe }
func (v *vnet) EstimatedCurrentSlot() phase0.Slot    { return v.cur() }
func (v *vnet) EstimatedCurrentEpoch() phase0.Epoch  { return phase0.Epoch(uint64(v.cur()) / v.spe) }
func (v *vnet) EstimatedEpochAtSlot(s phase0.Slot) phase0.Epoch {
	return phase0.Epoch(uint64(s) / v.spe)
}
func (v *vnet) GetSlotStartTime(phase0.Slot) time.Time         { return time.Now().Add(time.Hour) } // fetch deadlines never expire
func (v *vnet) GetSlotEndTime(phase0.Slot) time.Time           { return time.Now().Add(2 * time.Hour) }
func (v *vnet) FirstSlotAtEpoch(e phase0.Epoch) phase0.Slot    { return phase0.Slot(uint64(e) * v.spe) }
func (v *vnet) GetEpochFirstSlot(e phase0.Epoch) phase0.Slot   { return phase0.Slot(uint64(e) * v.spe) }
func (v *vnet) IsFirstSlotOfEpoch(s phase0.Slot) bool          { return uint64(s)%v.spe == 0 }
func (v *vnet) EpochStartTime(phase0.Epoch) time.Time          { return time.Now().Add(time.Hour) }
func (v *vnet) EpochsPerSyncCommitteePeriod() uint64           { return v.epp }
func (v *vnet) EstimatedSyncCommitteePeriodAtEpoch(e phase0.Epoch) uint64 {
	return uint64(e) / v.epp
}
func (v *vnet) FirstEpochOfSyncPeriod(p uint64) phase0.Epoch { return phase0.Epoch(p * v.epp) }

// same arithmetic as beacon.Network.LastSlotOfSyncPeriod (its methods are not virtual, so it is repeated here)
func (v *vnet) LastSlotOfSyncPeriod(p uint64) phase0.Slot {
	lastEpoch := v.FirstEpochOfSyncPeriod(p+1) - 1
	return v.GetEpochFirstSlot(lastEpoch+1) - 2
}

type ticker struct {
	ch   chan time.Time
	mu   sync.Mutex
	slot phase0.Slot
}

func (t *ticker) Next() <-chan time.Time { return t.ch }
func (t *ticker) Slot() phase0.Slot      { t.mu.Lock(); defer t.mu.Unlock(); return t.slot }

type execClient struct{}

func (execClient) BlockByNumber(context.Context, *big.Int) (*ethtypes.Block, error) { return nil, nil }

// ---- one record per observed call of the handler ----

type rec struct {
	Fetch  bool
	Key    int
	OK     bool
	Duties [][2]int // fetch result: (slot | -1, validator)
	Type   spectypes.BeaconRole
	Slot   int
	V      int
}

type world struct {
	role     string
	spe, epp int
	maxKey   int
	vn       *vnet
	tk       *ticker
	reorgCh  chan duties.ReorgEvent
	idxCh    chan struct{}
	cancel   context.CancelFunc
	ctx      context.Context
	h        handler
	running  bool
	done     chan struct{}
	store    *dutystore.Store

	mu     sync.Mutex
	log    []rec
	truth  map[int]map[int]int
	active []int
	okFor  map[int]bool

	// harness view of the schedule
	slot    int // virtual current slot
	started bool
	stuck   bool

	// monitor state, from observed fetches / dispatches and the events the harness sent
	lastFetched map[int]map[[2]int]bool
	mvalid      map[int]bool
	count       map[[3]int]int
	pendingIdx  bool // attester: an indices change was sent since the last tick (the next tick resets after executing)

	res  *vh.Result
	beh  string
	step int
}

func (w *world) keyOf(s int) int {
	if w.role == "sync" {
		return s / w.spe / w.epp
	}
	return s / w.spe
}

// fetch is the fake beacon node: the assignment the trace fixed for this key, for the requested validators.
func (w *world) fetch(key int, indices []phase0.ValidatorIndex) ([][2]int, error) {
	w.mu.Lock()
	defer w.mu.Unlock()
	ok, have := w.okFor[key]
	if have && !ok {
		w.log = append(w.log, rec{Fetch: true, Key: key, OK: false})
		return nil, errors.New("injected beacon node failure")
	}
	var out [][2]int
	idx := make([]int, 0, len(indices))
	for _, i := range indices {
		idx = append(idx, int(i))
	}
	sort.Ints(idx)
	for _, v := range idx {
		t, set := w.truth[key][v]
		if !set || t < 0 {
			continue
		}
		if w.role == "sync" {
			out = append(out, [2]int{-1, v})
		} else {
			out = append(out, [2]int{key*w.spe + t, v})
		}
	}
	w.log = append(w.log, rec{Fetch: true, Key: key, OK: true, Duties: out})
	return out, nil
}

type fakeBN struct{ w *world }

func (b fakeBN) AttesterDuties(_ context.Context, e phase0.Epoch, idx []phase0.ValidatorIndex) ([]*eth2apiv1.AttesterDuty, error) {
	ds, err := b.w.fetch(int(e), idx)
	if err != nil {
		return nil, err
	}
	out := make([]*eth2apiv1.AttesterDuty, 0, len(ds))
	for _, d := range ds {
		out = append(out, &eth2apiv1.AttesterDuty{Slot: phase0.Slot(d[0]), ValidatorIndex: phase0.ValidatorIndex(d[1]), CommitteeIndex: 1, CommitteeLength: 8, CommitteesAtSlot: 2})
	}
	return out, nil
}
func (b fakeBN) ProposerDuties(_ context.Context, e phase0.Epoch, idx []phase0.ValidatorIndex) ([]*eth2apiv1.ProposerDuty, error) {
	ds, err := b.w.fetch(int(e), idx)
	if err != nil {
		return nil, err
	}
	out := make([]*eth2apiv1.ProposerDuty, 0, len(ds))
	for _, d := range ds {
		out = append(out, &eth2apiv1.ProposerDuty{Slot: phase0.Slot(d[0]), ValidatorIndex: phase0.ValidatorIndex(d[1])})
	}
	return out, nil
}
func (b fakeBN) SyncCommitteeDuties(_ context.Context, e phase0.Epoch, idx []phase0.ValidatorIndex) ([]*eth2apiv1.SyncCommitteeDuty, error) {
	ds, err := b.w.fetch(int(e)/b.w.epp, idx)
	if err != nil {
		return nil, err
	}
	out := make([]*eth2apiv1.SyncCommitteeDuty, 0, len(ds))
	for _, d := range ds {
		out = append(out, &eth2apiv1.SyncCommitteeDuty{ValidatorIndex: phase0.ValidatorIndex(d[1]), ValidatorSyncCommitteeIndices: []phase0.CommitteeIndex{phase0.CommitteeIndex(d[1])}})
	}
	return out, nil
}
func (fakeBN) Events(context.Context, []string, eth2client.EventHandlerFunc) error { return nil }
func (fakeBN) SubmitBeaconCommitteeSubscriptions(context.Context, []*eth2apiv1.BeaconCommitteeSubscription) error {
	return nil
}
func (fakeBN) SubmitSyncCommitteeSubscriptions(context.Context, []*eth2apiv1.SyncCommitteeSubscription) error {
	return nil
}

type fakeVC struct{ w *world }

func (c fakeVC) indices() []phase0.ValidatorIndex {
	c.w.mu.Lock()
	defer c.w.mu.Unlock()
	out := make([]phase0.ValidatorIndex, 0, len(c.w.active))
	for _, v := range c.w.active {
		out = append(out, phase0.ValidatorIndex(v))
	}
	return out
}
func (c fakeVC) CommitteeActiveIndices(phase0.Epoch) []phase0.ValidatorIndex { return c.indices() }
func (c fakeVC) AllActiveIndices(phase0.Epoch, bool) []phase0.ValidatorIndex { return c.indices() }
func (fakeVC) GetOperatorShares() []*ssvtypes.SSVShare                       { return nil }

type handler interface {
	Setup(string, *zap.Logger, duties.BeaconNode, duties.ExecutionClient, networkconfig.NetworkConfig, duties.ValidatorController, duties.ExecuteDutiesFunc, slotticker.Provider, chan duties.ReorgEvent, chan struct{})
	HandleDuties(context.Context)
	HandleInitialDuties(context.Context)
}

func newWorld(role string, spe, epp, maxKey, s0 int, active []int, res *vh.Result, beh string) *world {
	w := &world{role: role, spe: spe, epp: epp, maxKey: maxKey, res: res, beh: beh,
		truth: map[int]map[int]int{}, okFor: map[int]bool{}, active: append([]int{}, active...),
		lastFetched: map[int]map[[2]int]bool{}, mvalid: map[int]bool{}, count: map[[3]int]int{}, slot: s0}
	sort.Ints(w.active)
	w.vn = &vnet{Network: beaconprotocol.NewNetwork(spectypes.BeaconTestNetwork), spe: uint64(spe), epp: uint64(epp)}
	w.vn.set(s0)
	w.tk = &ticker{ch: make(chan time.Time)}
	w.reorgCh = make(chan duties.ReorgEvent)
	w.idxCh = make(chan struct{})
	w.done = make(chan struct{})
	w.store = dutystore.New()
	var h handler
	switch role {
	case "att":
		h = duties.NewAttesterHandler(w.store.Attester)
	case "prop":
		h = duties.NewProposerHandler(w.store.Proposer)
	case "sync":
		h = duties.NewSyncCommitteeHandler(w.store.SyncCommittee)
	default:
		panic("unknown role " + role)
	}
	exec := func(_ *zap.Logger, ds []*spectypes.Duty) {
		w.mu.Lock()
		defer w.mu.Unlock()
		for _, d := range ds {
			w.log = append(w.log, rec{Type: d.Type, Slot: int(d.Slot), V: int(d.ValidatorIndex)})
		}
	}
	h.Setup(role, zap.NewNop(), fakeBN{w}, execClient{}, networkconfig.NetworkConfig{Beacon: w.vn}, fakeVC{w}, exec,
		func() slotticker.SlotTicker { return w.tk }, w.reorgCh, w.idxCh)
	w.ctx, w.cancel = context.WithCancel(context.Background())
	w.h = h
	return w
}

// start launches HandleDuties (as Scheduler.Start does after Setup and HandleInitialDuties).
func (w *world) start() {
	if w.running {
		return
	}
	w.running = true
	go func() { defer close(w.done); w.h.HandleDuties(w.ctx) }()
	// the sync-committee handler reads EstimatedCurrentSlot once before its loop: wait until it is in select
	w.barrier()
}

// initialDuties calls HandleInitialDuties synchronously, before the loop is started (Scheduler.Start's order).
func (w *world) initialDuties(okC bool) tickObs {
	k := w.keyOf(w.slot)
	w.mu.Lock()
	w.okFor = map[int]bool{k: okC}
	w.mu.Unlock()
	w.h.HandleInitialDuties(w.ctx)
	return w.observe(w.drain(), -1, w.slot)
}

func (w *world) close() {
	w.cancel()
	if !w.running {
		return
	}
	select {
	case <-w.done:
	case <-time.After(10 * time.Second):
		w.res.Notes = append(w.res.Notes, "handler goroutine did not stop on ctx cancel: "+w.beh)
	}
}

const sendTimeout = 20 * time.Second

func (w *world) barrier() bool {
	if w.stuck {
		return false
	}
	select {
	case w.reorgCh <- duties.ReorgEvent{Slot: phase0.Slot(w.slot)}: // no flags: a no-op in all three handlers
		return true
	case <-time.After(sendTimeout):
		w.stuck = true
		w.res.Counters["stuck"]++
		w.res.Notes = append(w.res.Notes, fmt.Sprintf("handler did not return to its select within %v: %s step %d", sendTimeout, w.beh, w.step))
		return false
	}
}

func (w *world) drain() []rec {
	w.mu.Lock()
	defer w.mu.Unlock()
	out := w.log
	w.log = nil
	return out
}

// ---- the property monitors (real outputs only) ----

func (w *world) primary(t spectypes.BeaconRole) bool {
	switch w.role {
	case "att":
		return t == spectypes.BNRoleAttester
	case "prop":
		return t == spectypes.BNRoleProposer
	default:
		return t == spectypes.BNRoleSyncCommittee
	}
}

func (w *world) allowed(cur, ds int) bool {
	if w.role == "att" {
		return (cur >= ds && cur-ds <= w.spe) || cur+1 == ds
	}
	return cur == ds || cur+1 == ds
}

func (w *world) strict(cur, ds int) bool {
	if w.role == "att" {
		return cur >= ds && cur-ds <= w.spe
	}
	return cur == ds
}

func (w *world) entry(ds, v int) (int, [2]int) {
	if w.role == "sync" {
		return w.keyOf(ds), [2]int{-1, v}
	}
	return w.keyOf(ds), [2]int{ds, v}
}

type tickObs struct {
	fetches [][2]int // (key, ok as 0/1)
	prim    map[[2]int]bool
	sec     map[[2]int]bool
}

// observe processes the records of one step in the handler's own order. tickSlot < 0: the step was not a tick.
func (w *world) observe(recs []rec, tickSlot, cur int) tickObs {
	o := tickObs{prim: map[[2]int]bool{}, sec: map[[2]int]bool{}}
	var due map[[2]int]bool
	k := 0
	demand := false
	if tickSlot >= 0 {
		k = w.keyOf(tickSlot)
		demand = w.mvalid[k] && w.strict(cur, tickSlot)
		due = map[[2]int]bool{}
		for e := range w.lastFetched[k] {
			if w.role == "sync" || e[0] == tickSlot {
				due[[2]int{tickSlot, e[1]}] = true
			}
		}
	}
	if tickSlot >= 0 && w.pendingIdx {
		// attester, first tick after an indices change: the pinned handler executes from the old store (demanded
		// above, from the pre-tick state), then resets the epoch, then re-fetches
		w.pendingIdx = false
		w.mvalid[k] = false
	}
	exempt := map[[2]int]bool{}
	sawDisp := false
	for _, r := range recs {
		if r.Fetch {
			okI := 0
			if r.OK {
				okI = 1
				set := map[[2]int]bool{}
				for _, d := range r.Duties {
					set[d] = true
				}
				w.lastFetched[r.Key] = set
				w.mvalid[r.Key] = true
				if tickSlot >= 0 && r.Key == k && !sawDisp {
					// a successful fetch of the tick's own key that is not preceded by a dispatch: the handler may have
					// fetched first; duties the new assignment no longer contains are not demanded
					for d := range due {
						_, e := w.entry(d[0], d[1])
						if !set[e] {
							exempt[d] = true
						}
					}
				}
			}
			// a failed fetch leaves every pinned handler's store untouched: validity is unchanged
			o.fetches = append(o.fetches, [2]int{r.Key, okI})
			continue
		}
		sawDisp = true
		id := [3]int{int(r.Type), r.Slot, r.V}
		w.count[id]++
		what := fmt.Sprintf("%s duty slot %d validator %d", r.Type, r.Slot, r.V)
		if w.count[id] > 1 {
			w.res.Violate("duty-dispatched-twice", fmt.Sprintf("%s handler dispatched %s %d times", w.role, what, w.count[id]), w.beh, w.step)
		}
		if r.Slot != tickSlot {
			at := fmt.Sprintf("in the tick of slot %d", tickSlot)
			if tickSlot < 0 {
				at = "outside any tick (while handling a reorg / indices-change event)"
			}
			w.res.Violate("duty-dispatched-at-wrong-slot", fmt.Sprintf("%s handler dispatched %s %s", w.role, what, at), w.beh, w.step)
		}
		if !w.allowed(cur, r.Slot) {
			w.res.Violate("duty-outside-window", fmt.Sprintf("%s handler dispatched %s while the current slot is %d", w.role, what, cur), w.beh, w.step)
		}
		key, e := w.entry(r.Slot, r.V)
		if !w.lastFetched[key][e] {
			w.res.Violate("unassigned-duty-dispatched", fmt.Sprintf("%s handler dispatched %s which is absent from the most recently fetched assignment of key %d (%v)", w.role, what, key, setList(w.lastFetched[key])), w.beh, w.step)
		}
		if w.primary(r.Type) {
			o.prim[[2]int{r.Slot, r.V}] = true
		} else {
			o.sec[[2]int{r.Slot, r.V}] = true
		}
	}
	if demand {
		for d := range due {
			if !o.prim[d] && !exempt[d] {
				w.res.Violate("valid-duty-not-dispatched", fmt.Sprintf("%s handler did not dispatch the duty of validator %d at the tick of slot %d although key %d was fetched successfully before the tick and nothing invalidated it since", w.role, d[1], tickSlot, k), w.beh, w.step)
			}
		}
	}
	return o
}

func setList(m map[[2]int]bool) [][2]int {
	out := make([][2]int, 0, len(m))
	for e := range m {
		out = append(out, e)
	}
	sort.Slice(out, func(i, j int) bool { return out[i][0] < out[j][0] || (out[i][0] == out[j][0] && out[i][1] < out[j][1]) })
	return out
}

// invalidate: the monitor's storeValid (DESIGN 5 C16, table at mvalid in spec/Scheduler.tla): a key leaves only where
// the pinned handler resets the store before a re-fetch succeeds.
//
//	reorg Previous   att: e, and e+1 if shouldFetchNexEpoch(slot)        prop: -        sync: -
//	reorg Current    att: e+1 if shouldFetchNexEpoch(slot)               prop: e        sync: p+1 if shouldFetchNextPeriod(slot)
//	indices change   att: e+1 at once if shouldFetchNexEpoch(slot),      prop: -        sync: -
//	                      e at the next tick after its execution
//	failed fetch     -  (no handler touches the store)
func (w *world) shouldFetchNext(slot int) bool { return slot%w.spe > w.spe/2-2 }
func (w *world) shouldFetchNextPeriod(slot int) bool {
	return slot%w.spe >= w.spe/2-1 && (slot/w.spe)%w.epp >= w.epp-2
}

func (w *world) invalidate(keys ...int) {
	for _, k := range keys {
		w.mvalid[k] = false
	}
}

// ---- the action alphabet on the real handler ----

func (w *world) nextTickSlot() int {
	if w.started {
		return w.slot + 1
	}
	return w.slot
}

func (w *world) tick(lag int, okC, okN bool) tickObs {
	w.start()
	s := w.nextTickSlot()
	k := w.keyOf(s)
	w.mu.Lock()
	w.okFor = map[int]bool{k: okC, k + 1: okN}
	w.mu.Unlock()
	w.vn.set(s + lag)
	w.tk.mu.Lock()
	w.tk.slot = phase0.Slot(s)
	w.tk.mu.Unlock()
	w.slot, w.started = s, true
	select {
	case w.tk.ch <- time.Now():
	case <-time.After(sendTimeout):
		w.stuck = true
		w.res.Counters["stuck"]++
		w.res.Notes = append(w.res.Notes, fmt.Sprintf("handler did not take the tick of slot %d: %s", s, w.beh))
		return tickObs{}
	}
	w.barrier()
	w.vn.set(s)
	o := w.observe(w.drain(), s, s+lag)
	if w.keyOf(s+1) != k {
		w.invalidate(k) // the key is over
	}
	return o
}

func (w *world) reorg(kind string) tickObs {
	w.start()
	k := w.keyOf(w.slot)
	switch {
	case w.role == "att":
		if kind == "prev" {
			w.invalidate(k)
		}
		if w.shouldFetchNext(w.slot) {
			w.invalidate(k + 1)
		}
	case w.role == "prop" && kind == "cur":
		w.invalidate(k)
	case w.role == "sync" && kind == "cur":
		if w.shouldFetchNextPeriod(w.slot) {
			w.invalidate(k + 1)
		}
	}
	ev := duties.ReorgEvent{Slot: phase0.Slot(w.slot), Previous: kind == "prev", Current: kind == "cur"}
	select {
	case w.reorgCh <- ev:
	case <-time.After(sendTimeout):
		w.stuck = true
		w.res.Counters["stuck"]++
		return tickObs{}
	}
	w.barrier()
	return w.observe(w.drain(), -1, w.slot)
}

func (w *world) indicesChange(active []int) tickObs {
	w.start()
	k := w.keyOf(w.slot)
	if w.role == "att" {
		w.pendingIdx = true
		if w.shouldFetchNext(w.slot) {
			w.invalidate(k + 1)
		}
	}
	w.mu.Lock()
	w.active = append([]int{}, active...)
	sort.Ints(w.active)
	w.mu.Unlock()
	select {
	case w.idxCh <- struct{}{}:
	case <-time.After(sendTimeout):
		w.stuck = true
		w.res.Counters["stuck"]++
		return tickObs{}
	}
	w.barrier()
	return w.observe(w.drain(), -1, w.slot)
}

func (w *world) setTruth(key, v, t int) {
	w.mu.Lock()
	defer w.mu.Unlock()
	if w.truth[key] == nil {
		w.truth[key] = map[int]int{}
	}
	w.truth[key][v] = t
}

// projection of the real dutystore as sorted (key, slot|-1, validator) triples
func (w *world) projectStore() [][3]int {
	var out [][3]int
	for k := 0; k <= w.maxKey+1; k++ {
		switch w.role {
		case "att":
			for s := k * w.spe; s < (k+1)*w.spe; s++ {
				for _, d := range w.store.Attester.CommitteeSlotDuties(phase0.Epoch(k), phase0.Slot(s)) {
					out = append(out, [3]int{k, s, int(d.ValidatorIndex)})
				}
			}
		case "prop":
			for s := k * w.spe; s < (k+1)*w.spe; s++ {
				for _, d := range w.store.Proposer.CommitteeSlotDuties(phase0.Epoch(k), phase0.Slot(s)) {
					out = append(out, [3]int{k, s, int(d.ValidatorIndex)})
				}
			}
		default:
			for _, d := range w.store.SyncCommittee.CommitteePeriodDuties(uint64(k)) {
				out = append(out, [3]int{k, -1, int(d.ValidatorIndex)})
			}
		}
	}
	sort.Slice(out, func(i, j int) bool {
		for x := 0; x < 3; x++ {
			if out[i][x] != out[j][x] {
				return out[i][x] < out[j][x]
			}
		}
		return false
	})
	return out
}

// ---- replay of TLC behaviours ----

func intsOf(x any) []int {
	var out []int
	if l, ok := x.([]any); ok {
		for _, e := range l {
			if f, ok := e.(float64); ok {
				out = append(out, int(f))
			}
		}
	}
	return out
}

func pairSet(l []any) map[[2]int]bool {
	m := map[[2]int]bool{}
	for _, e := range l {
		p := intsOf(e)
		if len(p) == 2 {
			m[[2]int{p[0], p[1]}] = true
		}
	}
	return m
}

func eqPairSet(a, b map[[2]int]bool) bool {
	if len(a) != len(b) {
		return false
	}
	for k := range a {
		if !b[k] {
			return false
		}
	}
	return true
}

func replay(b vh.Behaviour, res *vh.Result) {
	if len(b.Steps) == 0 || vh.Str(b.Steps[0].Act, "name") != "init" {
		res.Notes = append(res.Notes, "behaviour without init step: "+b.ID)
		return
	}
	ia := b.Steps[0].Act
	w := newWorld(vh.Str(ia, "role"), vh.Int(ia, "spe"), vh.Int(ia, "epp"), vh.Int(ia, "maxKey"), vh.Int(ia, "s0"), vh.Ints(ia, "active"), res, b.ID)
	defer w.close()
	// the key beyond the model's horizon has the fixed default assignment 0
	for v := 1; v <= 8; v++ {
		w.setTruth(w.maxKey, v, 0)
	}
	nontrivial := false
	events := 0
	for i, st := range b.Steps {
		if w.stuck {
			break
		}
		w.step = i
		a := st.Act
		var o tickObs
		isTick := false
		switch name := vh.Str(a, "name"); name {
		case "init":
			continue
		case "Assign":
			for _, e := range vh.List(a, "vals") {
				p := intsOf(e)
				w.setTruth(vh.Int(a, "key"), p[0], p[1])
			}
		case "InitialDuties":
			if w.running {
				res.Diverge(b.ID, i, "initial-duties-after-start", false, true)
				continue
			}
			o = w.initialDuties(vh.Bool(a, "okC"))
		case "Tick":
			if s := vh.Int(a, "slot"); s != w.nextTickSlot() {
				res.Diverge(b.ID, i, "tick.slot", s, w.nextTickSlot())
			}
			o = w.tick(vh.Int(a, "lag"), vh.Bool(a, "okC"), vh.Bool(a, "okN"))
			isTick = true
		case "Reorg":
			w.setTruth(vh.Int(a, "key"), vh.Int(a, "v"), vh.Int(a, "t"))
			o = w.reorg(vh.Str(a, "kind"))
			events++
		case "IndicesChange":
			o = w.indicesChange(vh.Ints(a, "active"))
			events++
		default:
			panic("unknown action " + name)
		}
		// conformance: fetch calls, dispatched set, store projection
		var specF [][2]int
		for _, e := range vh.List(a, "fetches") {
			if l, ok := e.([]any); ok && len(l) == 2 {
				okI := 0
				if bv, _ := l[1].(bool); bv {
					okI = 1
				}
				kf, _ := l[0].(float64)
				specF = append(specF, [2]int{int(kf), okI})
			}
		}
		if fmt.Sprint(specF) != fmt.Sprint(o.fetches) {
			res.Diverge(b.ID, i, "fetches", specF, o.fetches)
		}
		specD := pairSet(vh.List(a, "disp"))
		if !eqPairSet(specD, o.prim) {
			res.Diverge(b.ID, i, "dispatched", setList(specD), setList(o.prim))
		}
		if w.role != "prop" && !eqPairSet(o.prim, o.sec) {
			res.Diverge(b.ID, i, "secondary-role-set", setList(o.prim), setList(o.sec))
		}
		if sv, ok := st.State["store"]; ok {
			var spec [][3]int
			if l, ok := sv.([]any); ok {
				for _, e := range l {
					p := intsOf(e)
					if len(p) == 3 && p[0] >= 0 {
						spec = append(spec, [3]int{p[0], p[1], p[2]})
					}
				}
			}
			sort.Slice(spec, func(x, y int) bool {
				for c := 0; c < 3; c++ {
					if spec[x][c] != spec[y][c] {
						return spec[x][c] < spec[y][c]
					}
				}
				return false
			})
			if real := w.projectStore(); fmt.Sprint(spec) != fmt.Sprint(real) {
				res.Diverge(b.ID, i, "store", spec, real)
			}
		}
		if isTick && len(o.prim) > 0 && events > 0 {
			nontrivial = true
		}
	}
	res.Behaviours++
	res.Steps += len(b.Steps)
	if nontrivial {
		res.Nontrivial++
	}
}

// ---- own random schedules on the real handlers, recorded for TLC trace validation ----

type ownCfg struct {
	role                 string
	spe, epp, epochs, nv int
	lags                 []int
}

func ownRun(c ownCfg, rng *rand.Rand, res *vh.Result, tw *vh.TraceWriter, id string) {
	maxSlot := (c.epochs+1)*c.spe - 1
	keyOf := func(s int) int {
		if c.role == "sync" {
			return s / c.spe / c.epp
		}
		return s / c.spe
	}
	maxKey := keyOf(maxSlot) + 1
	all := []int{}
	for v := 1; v <= c.nv; v++ {
		all = append(all, v)
	}
	randActive := func() []int {
		for {
			var a []int
			for _, v := range all {
				if rng.Intn(3) != 0 {
					a = append(a, v)
				}
			}
			if len(a) > 0 {
				return a
			}
		}
	}
	randTruth := func() int {
		switch c.role {
		case "att":
			return rng.Intn(c.spe)
		case "prop":
			if rng.Intn(3) == 0 {
				return -1
			}
			return rng.Intn(c.spe)
		default:
			if rng.Intn(3) == 0 {
				return -1
			}
			return 0
		}
	}
	s0 := rng.Intn(c.spe)
	active := randActive()
	w := newWorld(c.role, c.spe, c.epp, maxKey, s0, active, res, id)
	defer w.close()
	for _, v := range all {
		w.setTruth(maxKey, v, 0)
	}
	emit := func(ev map[string]any) {
		if tw != nil {
			tw.Emit(ev)
		}
	}
	initd := c.role != "att" && rng.Intn(2) == 0
	emit(map[string]any{"event": "Reset", "s0": s0, "active": active, "initd": initd})
	nextAssign := 0
	steps := 0
	dispatched := 0
	for !w.stuck {
		// canonical order of the spec: the beacon node fixes every key that may be fetched by the next tick first
		for nextAssign < maxKey && nextAssign <= keyOf(w.nextTickSlot())+1 {
			vals := [][2]int{}
			for _, v := range all {
				t := randTruth()
				w.setTruth(nextAssign, v, t)
				vals = append(vals, [2]int{v, t})
			}
			emit(map[string]any{"event": "Assign", "key": nextAssign, "vals": vals})
			nextAssign++
			steps++
		}
		if w.nextTickSlot() > maxSlot {
			break
		}
		w.step = steps
		steps++
		if initd {
			initd = false
			o := w.initialDuties(rng.Intn(4) != 0)
			fs := [][]any{}
			for _, f := range o.fetches {
				fs = append(fs, []any{f[0], f[1] == 1})
			}
			emit(map[string]any{"event": "InitialDuties", "fetches": fs})
			continue
		}
		switch r := rng.Intn(100); {
		case r < 12: // reorg
			kind := "cur"
			if c.role == "att" && rng.Intn(2) == 0 {
				kind = "prev"
			}
			k := keyOf(w.slot)
			tk := k + 1
			if (c.role == "att" && kind == "prev") || c.role == "prop" {
				tk = k
			}
			v, t, chg := all[0], unset, false
			if tk < nextAssign && tk < maxKey && tk >= keyOf(w.nextTickSlot()) && rng.Intn(4) != 0 {
				v = all[rng.Intn(len(all))]
				t = randTruth()
				w.mu.Lock()
				chg = w.truth[tk][v] != t
				w.mu.Unlock()
				w.setTruth(tk, v, t)
			}
			w.reorg(kind)
			emit(map[string]any{"event": "Reorg", "kind": kind, "key": tk, "v": v, "t": t, "chg": chg})
		case r < 22: // indices change
			active = randActive()
			w.indicesChange(active)
			emit(map[string]any{"event": "IndicesChange", "active": active})
		default:
			lag := 0
			if len(c.lags) > 0 && rng.Intn(5) == 0 {
				lag = c.lags[rng.Intn(len(c.lags))]
			}
			s := w.nextTickSlot()
			if s+lag < 0 || (c.role == "sync" && keyOf(s+lag) != keyOf(s)) {
				lag = 0
			}
			okC, okN := rng.Intn(6) != 0, rng.Intn(6) != 0
			o := w.tick(lag, okC, okN)
			dispatched += len(o.prim)
			fs := [][]any{}
			for _, f := range o.fetches {
				fs = append(fs, []any{f[0], f[1] == 1})
			}
			emit(map[string]any{"event": "Tick", "slot": s, "lag": lag, "fetches": fs, "disp": setList(o.prim)})
		}
	}
	res.Behaviours++
	res.Steps += steps
	if dispatched > 0 {
		res.Nontrivial++
	}
}

func main() {
	mode := flag.String("mode", "replay", "replay | own")
	in := flag.String("in", "", "behaviours NDJSON (replay)")
	out := flag.String("out", "", "result JSON")
	trace := flag.String("trace", "", "trace NDJSON to write (own)")
	seed := flag.Int64("seed", 1, "seed")
	runs := flag.Int("runs", 50, "number of own executions")
	role := flag.String("role", "att", "handler for own executions")
	spe := flag.Int("spe", 8, "slots per epoch (own)")
	epp := flag.Int("epp", 3, "epochs per sync period (own)")
	epochs := flag.Int("epochs", 3, "last epoch ticked (own)")
	nv := flag.Int("nv", 2, "validators (own)")
	lagsOn := flag.Bool("lags", true, "use clock lags in own executions")
	flag.Parse()
	res := vh.NewResult()
	switch *mode {
	case "replay":
		behs, err := vh.ReadBehaviours(*in)
		if err != nil {
			fmt.Fprintln(os.Stderr, err)
			os.Exit(3)
		}
		for _, b := range behs {
			if res.Counters["violations"] > 30 && !(len(b.ID) >= 6 && b.ID[:6] == "attack") {
				continue
			}
			replay(b, res)
		}
		if len(behs) > 0 {
			res.Samples = append(res.Samples, behs[len(behs)/2])
		}
	case "own":
		var tw *vh.TraceWriter
		if *trace != "" {
			var err error
			if tw, err = vh.NewTraceWriter(*trace); err != nil {
				panic(err)
			}
		}
		rng := rand.New(rand.NewSource(*seed))
		c := ownCfg{role: *role, spe: *spe, epp: *epp, epochs: *epochs, nv: *nv}
		if *lagsOn {
			c.lags = []int{-1, 1, *spe, *spe + 1}
			if *role == "sync" {
				c.lags = []int{-1, 1}
			}
		}
		for r := 0; r < *runs; r++ {
			ownRun(c, rng, res, tw, fmt.Sprintf("own-%s-%d", *role, r))
		}
		if tw != nil {
			if err := tw.Close(); err != nil {
				panic(err)
			}
			res.Counters["recorded_events"] = tw.N
		}
	}
	if err := res.Write(*out); err != nil {
		fmt.Fprintln(os.Stderr, err)
		os.Exit(3)
	}
}
