// Driver for C06: steps TLC behaviours of the single-instance model (spec/QBFTInstance.tla) through
//   A  the node's instance.Instance,
//   B  the node's instance with instance.Compact applied after every message (as the runner does between messages),
//   R  the reference specqbft.Instance of the pinned ssv-spec module,
// with identical keys and byte-identical input messages, and compares after every step: accept/reject, the encoded
// broadcasts, decided flag / value / aggregated commit, and the state root after identical compaction.
package main

import (
	"bytes"
	"encoding/hex"
	"flag"
	"fmt"
	"os"
	"sort"

	specqbft "github.com/bloxapp/ssv-spec/qbft"
	spectypes "github.com/bloxapp/ssv-spec/types"
	tu "github.com/bloxapp/ssv-spec/types/testingutils"
	"go.uber.org/zap"

	"github.com/bloxapp/ssv/protocol/v2/qbft/instance"

	kit "verif/harness/qbftkit"
	"verif/harness/vh"
)

type refNet struct{ out *[][]byte }

func (n refNet) Broadcast(m *spectypes.SSVMessage) error {
	*n.out = append(*n.out, append([]byte{}, m.Data...))
	return nil
}

type trio struct {
	wa, wb *kit.World
	a, b   *instance.Instance
	r      *specqbft.Instance
	rOut   [][]byte
	me     kit.OpID
	log    *zap.Logger
}

func toInt(v any) int {
	if f, ok := v.(float64); ok {
		return int(f)
	}
	return 0
}

func newTrio(b vh.Behaviour) *trio {
	p := b.Params
	n := toInt(p["N"])
	if n == 0 {
		n = 4
	}
	var byz []int
	for i := 2; i <= n; i++ {
		byz = append(byz, i)
	}
	sv := map[int]string{1: "a"}
	height := uint64(toInt(p["LeaderOffset"]))
	t := &trio{me: 1, log: zap.NewNop()}
	t.wa = kit.NewWorld(n, byz, height, sv, spectypes.BNRoleAttester)
	t.wb = kit.NewWorld(n, byz, height, sv, spectypes.BNRoleAttester)
	share := t.wa.Share(1)
	cfg := tu.TestingConfig(t.wa.KS)
	cfg.ProposerF = specqbft.RoundRobinProposer
	cfg.ValueCheckF = kit.ValueCheck
	cfg.Network = refNet{&t.rOut}
	cfg.SigningPK = share.SharePubKey
	t.r = specqbft.NewInstance(cfg, share, t.wa.ID, specqbft.Height(height))
	return t
}

func outSince(w *kit.World, from int) [][]byte {
	var out [][]byte
	for _, e := range w.Pool[from:] {
		out = append(out, e.Raw.Data)
	}
	return out
}

func sameOut(a, b [][]byte) bool {
	if len(a) != len(b) {
		return false
	}
	for i := range a {
		if !bytes.Equal(a[i], b[i]) {
			return false
		}
	}
	return true
}

func describe(out [][]byte) []string {
	var s []string
	for _, raw := range out {
		m := &specqbft.SignedMessage{}
		if err := m.Decode(raw); err != nil {
			s = append(s, "undecodable")
			continue
		}
		s = append(s, fmt.Sprintf("type%d r%d root%s", m.Message.MsgType, m.Message.Round, hex.EncodeToString(m.Message.Root[:3])))
	}
	return s
}

func rootOf(s *specqbft.State) string {
	c := instance.CompactCopy(s, nil)
	r, err := c.GetRoot()
	if err != nil {
		return "err:" + err.Error()
	}
	return hex.EncodeToString(r[:8])
}

// encodeOrNil encodes an aggregated commit with its signer list sorted: the node sorts the signers of the
// certificate it reports (its message validation demands sorted signers), the reference keeps arrival order.
// The signer SET, the message and the aggregate signature (order-independent) must be the same; the order of
// the list is not part of "reaches the same decision".
func encodeOrNil(m *specqbft.SignedMessage) []byte {
	if m == nil {
		return nil
	}
	c := cloneMsg(m)
	sort.Slice(c.Signers, func(i, j int) bool { return c.Signers[i] < c.Signers[j] })
	b, _ := c.Encode()
	return b
}

func cloneMsg(m *specqbft.SignedMessage) *specqbft.SignedMessage {
	b, err := m.Encode()
	if err != nil {
		panic(err)
	}
	c := &specqbft.SignedMessage{}
	if err := c.Decode(b); err != nil {
		panic(err)
	}
	return c
}

func replay(b vh.Behaviour, res *vh.Result) {
	t := newTrio(b)
	violate := func(step int, sig, desc string) {
		if sig == "C06:compaction-changes-output" && t.b != nil && t.b.State.Decided {
			// Compact discards every non-commit message of a DECIDED instance (documented in compact.go): a prepare
			// quorum completed afterwards no longer triggers the (redundant) commit broadcast
			sig = "C06:compaction-changes-output-after-decision"
		}
		res.Violate(sig, desc, b.ID, step)
	}
	nontrivial := false
	for i, st := range b.Steps {
		a := st.Act
		name := vh.Str(a, "name")
		from := kit.OpID(vh.Int(a, "from"))
		round := vh.Int(a, "round")
		value := vh.Str(a, "value")
		w := t.wa
		var m *specqbft.SignedMessage
		expectAccept := true
		poolA, poolB, poolR := len(t.wa.Pool), len(t.wb.Pool), len(t.rOut)
		switch name {
		case "init":
			continue
		case "Start":
			if err := t.wa.Start(1); err != nil {
				res.Diverge(b.ID, i, "start", "ok", err.Error())
			}
			_ = t.wb.Start(1)
			t.a, t.b = t.wa.Instance(1), t.wb.Instance(1)
			t.r.Start(kit.Value("a"), t.wa.Height)
		case "Timeout":
			if t.a == nil {
				continue
			}
			ea := t.a.UponRoundTimeout(t.log)
			eb := t.b.UponRoundTimeout(t.log)
			er := t.r.UponRoundTimeout()
			if (ea == nil) != (er == nil) || (eb == nil) != (er == nil) {
				violate(i, "C06:accept-mismatch", fmt.Sprintf("timeout: node err=%v, compacting node err=%v, reference err=%v", ea, eb, er))
			}
		case "RecvProposal":
			m = w.FindProposal(from, round, value)
		case "RecvPrepare":
			m = w.FindSimple(specqbft.PrepareMsgType, from, round, value)
		case "RecvCommit":
			m = w.FindSimple(specqbft.CommitMsgType, from, round, value)
		case "RecvRC":
			m = w.FindRC(from, round, vh.Int(a, "pr"), vh.Str(a, "pv"))
		case "RecvByzProposal":
			mm, err := w.ByzProposal(from, round, value)
			if err != nil {
				res.Diverge(b.ID, i, "byzProposal", "justifiable", err.Error())
				continue
			}
			m = mm
		case "RecvByzPrepare":
			m = w.ByzPrepare(from, round, value)
		case "RecvByzCommit":
			m = w.ByzCommit(from, round, value)
		case "RecvByzRC":
			mm, err := w.ByzRC(from, round, vh.Int(a, "pr"), vh.Str(a, "pv"))
			if err != nil {
				res.Diverge(b.ID, i, "byzRC", "constructible", err.Error())
				continue
			}
			m = mm
		case "RecvMutant":
			base := w.BuildAny(vh.Str(a, "type"), from, round, value)
			m = w.Mutate(base, vh.Str(a, "kind"))
			expectAccept = false
		case "RecvDecided", "RecvForgedDecided":
			continue // the controller's business, not the instance's
		default:
			panic("unknown action " + name)
		}
		if name != "Start" && name != "Timeout" {
			if m == nil {
				res.Diverge(b.ID, i, name+".message", "emitted by the node (spec)", "not found among the node's broadcasts")
				continue
			}
			if t.a == nil {
				continue
			}
			nontrivial = true
			da, va, ca, ea := t.a.ProcessMsg(t.log, cloneMsg(m))
			db, vb, cb, eb := t.b.ProcessMsg(t.log, cloneMsg(m))
			// the node compacts between messages exactly where BaseRunner.compactInstanceIfNeeded does:
			// after a decided (quorum-signed commit) message and after a round-change message
			if m.Message.MsgType == specqbft.RoundChangeMsgType ||
				(m.Message.MsgType == specqbft.CommitMsgType && len(m.Signers) >= t.wa.Quorum()) {
				instance.Compact(t.b.State, m)
			}
			dr, vr, cr, er := t.r.ProcessMsg(cloneMsg(m))
			if (ea == nil) != (er == nil) {
				violate(i, "C06:accept-mismatch", fmt.Sprintf("%s %v: node err=%v, reference err=%v", name, a, ea, er))
			}
			if (eb == nil) != (ea == nil) {
				violate(i, "C06:compaction-changes-output", fmt.Sprintf("%s %v: node err=%v, compacting node err=%v", name, a, ea, eb))
			}
			if ea == nil && er == nil {
				if da != dr || !bytes.Equal(va, vr) || !bytes.Equal(encodeOrNil(ca), encodeOrNil(cr)) {
					violate(i, "C06:decision-mismatch", fmt.Sprintf("%s: node decided=%v value=%s, reference decided=%v value=%s (or aggregated commits differ)", name, da, kit.ValueName(va), dr, kit.ValueName(vr)))
				}
				if da != db || !bytes.Equal(va, vb) || !bytes.Equal(encodeOrNil(ca), encodeOrNil(cb)) {
					violate(i, "C06:compaction-changes-output", fmt.Sprintf("%s: node decided=%v, compacting node decided=%v (or values / aggregated commits differ)", name, da, db))
				}
			}
			if (ea == nil) != expectAccept && ea != nil && expectAccept {
				res.Diverge(b.ID, i, name+".accepted", true, ea.Error())
			}
			if ea == nil && !expectAccept {
				res.Diverge(b.ID, i, name+".accepted", false, "accepted a mutant "+vh.Str(a, "kind"))
			}
		}
		oa, ob, or := outSince(t.wa, poolA), outSince(t.wb, poolB), t.rOut[poolR:]
		if !sameOut(oa, or) {
			violate(i, "C06:broadcast-mismatch", fmt.Sprintf("%s %v: node broadcast %v, reference broadcast %v", name, a, describe(oa), describe(or)))
		}
		if !sameOut(oa, ob) {
			violate(i, "C06:compaction-changes-output", fmt.Sprintf("%s: node broadcast %v, compacting node broadcast %v", name, describe(oa), describe(ob)))
		}
		if t.a != nil {
			ra, rb, rr := rootOf(t.a.State), rootOf(t.b.State), rootOf(t.r.State)
			if ra != rr {
				violate(i, "C06:state-root-mismatch", fmt.Sprintf("after %s %v: node state root %s, reference %s", name, a, ra, rr))
			}
			if ra != rb {
				violate(i, "C06:compaction-changes-output", fmt.Sprintf("after %s: node state root %s, compacting node %s", name, ra, rb))
			}
			if t.a.State.Decided != t.r.State.Decided || !bytes.Equal(t.a.State.DecidedValue, t.r.State.DecidedValue) {
				violate(i, "C06:decision-mismatch", fmt.Sprintf("after %s: node decided=%v, reference decided=%v", name, t.a.State.Decided, t.r.State.Decided))
			}
		}
		if len(res.Violations) > 0 && res.Counters["violations"] > 40 {
			break
		}
	}
	res.Behaviours++
	res.Steps += len(b.Steps)
	if nontrivial {
		res.Nontrivial++
	}
}

func main() {
	in := flag.String("in", "", "behaviours NDJSON")
	out := flag.String("out", "", "result JSON")
	flag.Parse()
	res := vh.NewResult()
	behs, err := vh.ReadBehaviours(*in)
	if err != nil {
		fmt.Fprintln(os.Stderr, err)
		os.Exit(3)
	}
	kinds := map[string]int{}
	for _, b := range behs {
		replay(b, res)
		kit.CloseAll()
		for _, s := range b.Steps {
			kinds[vh.Str(s.Act, "name")+"/"+vh.Str(s.Act, "kind")]++
		}
	}
	var ks []string
	for k := range kinds {
		ks = append(ks, k)
	}
	sort.Strings(ks)
	for _, k := range ks {
		res.Counters["act:"+k] = kinds[k]
	}
	if len(behs) > 0 {
		res.Samples = append(res.Samples, behs[len(behs)/2])
	}
	if err := res.Write(*out); err != nil {
		fmt.Fprintln(os.Stderr, err)
		os.Exit(3)
	}
}
