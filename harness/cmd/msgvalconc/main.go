// Driver for spec/MsgValidationConc.tla (property C09, concurrent validation): replays schedules of
// Arrive / Enter / Leave steps on ONE real messageValidator, deterministically.  A call is held inside its
// critical section with the verif hook validation.VerifValidateSSVMessage: its gate runs where the envelope
// signature is verified - after every check, before the per-signer state update, under the per-message-ID lock.
//
// MONITORS (only scheduling-independent facts are asserted):
//
//	concurrent-validation-not-serialised  a call reached its gate while another call of the same message ID
//	                                      (validator + role) was inside its gate
//	accepted:<rule>                       valkit.Monitor (the statement of C09 on the concrete accepted bytes) applied to
//	                                      the accepted calls in their order of completion, clock clauses excluded
//
// Non-events (a call that does NOT reach its gate within a bound) are never a verdict: on an attack trace they are
// counted as refused steps, on a faithful behaviour as divergences.
package main

import (
	"bytes"
	"encoding/json"
	"flag"
	"fmt"
	"os"
	"runtime"
	"runtime/debug"
	"strings"
	"sync"
	"time"

	"github.com/bloxapp/ssv/message/validation"

	"verif/harness/valkit"
	"verif/harness/vh"
)

const (
	longWait  = 5 * time.Second        // for events the schedule says must happen
	shortWait = 150 * time.Millisecond // for events that a correct lock must prevent
	parkWait  = time.Second
)

type call struct {
	idx      int
	m        valkit.Msg
	t        valkit.TimePoint
	id       string
	conc     *valkit.Concrete
	entered  chan struct{}
	resume   chan struct{}
	done     chan struct{}
	started  bool
	inGate   bool // under run.mu: entered and not yet released by the harness
	released bool
	class    string
	rule     string
	panicked string
	doneSeq  int
}

type run struct {
	mu       sync.Mutex
	calls    map[int]*call
	drain    bool
	overlaps []string
	seq      int
}

type repro struct {
	Signature string       `json:"signature"`
	Kind      string       `json:"kind"`
	N         int          `json:"n"`
	Fork      int          `json:"fork"`
	Behaviour vh.Behaviour `json:"behaviour"`
}

func fatal(err error) {
	fmt.Fprintln(os.Stderr, "msgvalconc:", err)
	os.Exit(3)
}

func (r *run) gate(c *call) func() {
	return func() {
		r.mu.Lock()
		for _, o := range r.calls {
			if o != c && o.id == c.id && o.inGate {
				r.overlaps = append(r.overlaps, fmt.Sprintf("call %d (%s) reached its gate while call %d of the same message ID was inside its gate", c.idx, short(c.m), o.idx))
			}
		}
		drain := r.drain
		if !drain {
			c.inGate = true
		}
		r.mu.Unlock()
		close(c.entered)
		if !drain {
			<-c.resume
		}
	}
}

func short(m valkit.Msg) string {
	return fmt.Sprintf("%s role %d type %d slot %d round %d signers %v data %d", m.St, m.Role, m.Mt, m.H, m.R, m.Sg, m.Fd)
}

func (r *run) release(c *call) {
	r.mu.Lock()
	if c.released {
		r.mu.Unlock()
		return
	}
	c.released = true
	c.inGate = false
	r.mu.Unlock()
	close(c.resume)
}

func (r *run) start(p *valkit.Peer, c *call) {
	c.started = true
	go func() {
		defer func() {
			if x := recover(); x != nil {
				c.class = "panic"
				c.panicked = fmt.Sprintf("%v\n%s", x, debug.Stack())
			}
			r.mu.Lock()
			r.seq++
			c.doneSeq = r.seq
			c.inGate = false
			r.mu.Unlock()
			close(c.done)
		}()
		p.Clock.SetNow(c.t.Slot(), c.t.Offset())
		_, _, err := validation.VerifValidateSSVMessage(p.MV, c.conc.SSV, time.Now(), r.gate(c))
		c.class, c.rule, _ = valkit.ClassifyError(err)
	}()
}

func wait(ch chan struct{}, d time.Duration) bool {
	select {
	case <-ch:
		return true
	case <-time.After(d):
		return false
	}
}

func waitEither(a, b chan struct{}, d time.Duration) string {
	select {
	case <-a:
		return "a"
	case <-b:
		return "b"
	case <-time.After(d):
		return ""
	}
}

// parkedCalls counts goroutines blocked on a mutex inside validateSSVMessage (a helper to pace the schedule only).
func parkedCalls() int {
	buf := make([]byte, 1<<20)
	n := runtime.Stack(buf, true)
	cnt := 0
	for _, g := range bytes.Split(buf[:n], []byte("\n\n")) {
		head, _, _ := bytes.Cut(g, []byte("\n"))
		if (bytes.Contains(head, []byte("sync.Mutex.Lock")) || bytes.Contains(head, []byte("semacquire"))) &&
			bytes.Contains(g, []byte("validateSSVMessage")) {
			cnt++
		}
	}
	return cnt
}

func waitParked(want int, d time.Duration) bool {
	deadline := time.Now().Add(d)
	for time.Now().Before(deadline) {
		if parkedCalls() >= want {
			return true
		}
		time.Sleep(time.Millisecond)
	}
	return false
}

func replay(env *valkit.Env, b vh.Behaviour, n, fork int, res *vh.Result, repros *[]repro) {
	p := env.NewPeer(valkit.ForkEpochOf(fork))
	r := &run{calls: map[int]*call{}}
	attack := strings.HasPrefix(b.ID, "attack")
	pending := func() int { // started calls that have neither reached their gate nor finished
		r.mu.Lock()
		defer r.mu.Unlock()
		k := 0
		for _, o := range r.calls {
			select {
			case <-o.entered:
			default:
				select {
				case <-o.done:
				default:
					k++
				}
			}
		}
		return k
	}
	sameIDInGate := func(c *call) bool {
		r.mu.Lock()
		defer r.mu.Unlock()
		for _, o := range r.calls {
			if o != c && o.id == c.id && o.inGate {
				return true
			}
		}
		return false
	}
	awaitEntry := func(c *call, wantAccept bool, i int, what string) {
		bound := longWait
		blocked := sameIDInGate(c)
		if blocked {
			bound = shortWait // a correct lock keeps this call out: do not wait long for something that must not happen
		}
		switch waitEither(c.entered, c.done, bound) {
		case "a":
			if !wantAccept {
				res.Diverge(b.ID, i, what, "finishes without reaching the gate", "reached its gate")
			}
		case "b":
			if wantAccept {
				select {
				case <-c.entered:
				default:
					res.Diverge(b.ID, i, what, "reaches its gate", "finished: "+c.class+":"+c.rule)
				}
			}
		default:
			if blocked && attack {
				res.Counters["attack_steps_refused"]++
			} else if blocked {
				res.Diverge(b.ID, i, what, "enters", "kept out by a call of the same ID inside its gate")
			} else {
				res.Diverge(b.ID, i, what, "enters or finishes", "nothing within "+bound.String())
				res.Counters["schedule_timeouts"]++
			}
		}
	}
	for i, st := range b.Steps {
		a := st.Act
		name := vh.Str(a, "name")
		if name == "init" || name == "" {
			continue
		}
		ci := vh.Int(a, "c")
		switch name {
		case "Arrive":
			var m valkit.Msg
			var t valkit.TimePoint
			mb, _ := json.Marshal(a["m"])
			tb, _ := json.Marshal(a["t"])
			if json.Unmarshal(mb, &m) != nil || json.Unmarshal(tb, &t) != nil {
				fatal(fmt.Errorf("bad Arrive step in %s", b.ID))
			}
			if m.Sg == nil {
				m.Sg = []int{}
			}
			conc, err := env.Concretise(m)
			if err != nil || conc.SSV == nil {
				fatal(fmt.Errorf("cannot concretise %v: %v", m, err))
			}
			c := &call{idx: ci, m: m, t: t, id: fmt.Sprintf("%s|%d", m.Val, m.Role), conc: conc,
				entered: make(chan struct{}), resume: make(chan struct{}), done: make(chan struct{})}
			r.mu.Lock()
			r.calls[ci] = c
			r.mu.Unlock()
			r.start(p, c)
			if vh.Bool(a, "entered") {
				awaitEntry(c, vh.Str(a, "v") == "accept", i, "arrive")
			} else {
				waitParked(pending(), parkWait)
				select {
				case <-c.entered: // recorded by the gate itself if another call of this ID is inside
				default:
				}
			}
		case "Enter":
			c := r.calls[ci]
			if c == nil {
				continue
			}
			awaitEntry(c, vh.Str(a, "v") == "accept", i, "enter")
		case "Leave":
			c := r.calls[ci]
			if c == nil {
				continue
			}
			select {
			case <-c.entered:
				r.release(c)
				if !wait(c.done, longWait) {
					res.Counters["schedule_timeouts"]++
				}
			default: // the real call never got in (refused attack step): it leaves when it is drained
			}
		}
	}
	// drain: every gate opens, every call finishes
	r.mu.Lock()
	r.drain = true
	var all []*call
	for _, c := range r.calls {
		all = append(all, c)
	}
	r.mu.Unlock()
	for _, c := range all {
		select {
		case <-c.entered:
			r.release(c)
		default:
		}
	}
	for _, c := range all {
		if !wait(c.done, longWait) {
			res.Notes = append(res.Notes, fmt.Sprintf("%s: call %d did not finish within %v (not a verdict)", b.ID, c.idx, longWait))
			res.Counters["schedule_timeouts"]++
			// open whatever gate it may still reach
			go func(c *call) { <-c.entered; r.release(c) }(c)
		}
	}
	// monitors
	violate := func(sig, desc string) {
		res.Counters["sig:"+sig]++
		if res.Counters["sig:"+sig] <= 5 {
			res.Violate(sig, desc, b.ID, 0)
		}
		if res.Counters["repro:"+sig] < 3 {
			res.Counters["repro:"+sig]++
			*repros = append(*repros, repro{Signature: sig, Kind: "schedule", N: n, Fork: fork, Behaviour: b})
		}
	}
	r.mu.Lock()
	overlaps := append([]string{}, r.overlaps...)
	r.mu.Unlock()
	for _, o := range overlaps {
		violate("concurrent-validation-not-serialised", o)
	}
	mon, err := valkit.NewMonitor(env, func(nowSlot uint64) bool { return false })
	if err != nil {
		fatal(err)
	}
	for k := 1; k <= len(all); k++ { // accepted calls in their order of completion
		for _, c := range all {
			select {
			case <-c.done:
			default:
				continue
			}
			if c.doneSeq != k {
				continue
			}
			if c.class == "panic" {
				violate("validator-panic", "validateSSVMessage panicked in a concurrent schedule: "+firstLine(c.panicked))
			}
			if c.class == "accept" {
				if g := mon.Accepted(c.conc.Topic, c.conc.Inner, uint64(c.t.Slot()), uint64(c.t.Offset()/time.Millisecond), false); g != "none" {
					violate("accepted:"+g, fmt.Sprintf("under concurrent validation call %d (%s) was ACCEPTED although it breaks the rule %q of C09 against the calls accepted before it", c.idx, short(c.m), g))
				}
			}
		}
	}
	// conformance: the verdict of every call against the spec's
	want := map[int][2]string{}
	for _, st := range b.Steps {
		if v := vh.Str(st.Act, "v"); v != "" && v != "-" && (vh.Str(st.Act, "name") == "Arrive" || vh.Str(st.Act, "name") == "Enter") {
			want[vh.Int(st.Act, "c")] = [2]string{v, vh.Str(st.Act, "rule")}
		}
	}
	for _, c := range all {
		if w, ok := want[c.idx]; ok && (w[0] != c.class || w[1] != c.rule) {
			res.Diverge(b.ID, 0, fmt.Sprintf("call %d verdict", c.idx), w[0]+":"+w[1], c.class+":"+c.rule)
		}
	}
	res.Behaviours++
	res.Steps += len(b.Steps)
	if len(all) >= 3 {
		res.Nontrivial++
	}
}

func firstLine(s string) string {
	if i := strings.IndexByte(s, '\n'); i >= 0 {
		return s[:i]
	}
	return s
}

func main() {
	in := flag.String("in", "", "behaviours NDJSON, or a saved repro JSON with -repro")
	out := flag.String("out", "", "result JSON")
	n := flag.Int("n", 4, "committee size")
	fork := flag.Int("fork", 100000, "fork epoch code")
	isRepro := flag.Bool("repro", false, "the input is a saved violation")
	repeat := flag.Int("repeat", 1, "replay every behaviour this many times")
	flag.Parse()
	env, err := valkit.NewEnv(*n)
	if err != nil {
		fatal(err)
	}
	res := vh.NewResult()
	var repros []repro
	var behs []vh.Behaviour
	if *isRepro {
		b, err := os.ReadFile(*in)
		if err != nil {
			fatal(err)
		}
		var r repro
		if err := json.Unmarshal(b, &r); err != nil {
			fatal(err)
		}
		behs = []vh.Behaviour{r.Behaviour}
	} else {
		behs, err = vh.ReadBehaviours(*in)
		if err != nil {
			fatal(err)
		}
	}
	for k := 0; k < *repeat; k++ {
		for _, b := range behs {
			replay(env, b, *n, *fork, res, &repros)
		}
	}
	if len(behs) > 0 {
		res.Samples = append(res.Samples, behs[len(behs)-1])
	}
	if err := res.Write(*out); err != nil {
		fatal(err)
	}
	f, err := os.Create(*out + ".repro.ndjson")
	if err != nil {
		fatal(err)
	}
	for _, r := range repros {
		b, _ := json.Marshal(r)
		f.Write(b)
		f.Write([]byte("\n"))
	}
	f.Close()
}
