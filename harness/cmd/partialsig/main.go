// Driver for spec/PartialSig.tla (property C05): replays TLC behaviours on REAL duty runners of every role
// (real threshold BLS shares, real partial-signature container, real reconstruction and fallback), compares the
// real container / submissions / Finished flag with the spec's prediction after every message and runs the C05
// monitors on the arguments of the real BeaconNode.Submit* calls only:
//
//	invalid-submission    a submitted signature does not verify under the validator key over the signing root of
//	                      a decided object (root recomputed by the harness), or the object is not a decided one
//	duplicate-submission  a decided object was submitted more than once
//	submission-prevented  2f+1 correct partial signatures of distinct committee members were handed to the runner
//	                      (after its instance decided) and the object was not submitted
//	  submission-prevented-multiroot : the same, in a duty with several roots where some member's message mixed
//	                      correct and wrong partial signatures (the history of the C05 finding)
package main

import (
	"flag"
	"fmt"
	"math/rand"
	"os"
	"strings"

	"github.com/attestantio/go-eth2-client/spec/phase0"
	specqbft "github.com/bloxapp/ssv-spec/qbft"
	spectypes "github.com/bloxapp/ssv-spec/types"
	"github.com/herumi/bls-eth-go-binary/bls"

	"github.com/bloxapp/ssv/protocol/v2/qbft/instance"
	"github.com/bloxapp/ssv/protocol/v2/ssv/runner"

	rk "verif/harness/runnerkit"
	"verif/harness/vh"
)

const dutySlot = phase0.Slot(12)

// template: a runner of (role, n, r) brought GENUINELY to the point where partial signatures are collected
type template struct {
	kit   *rk.Kit
	role  string
	n, r  int
	pre   bool // the duty has no consensus: the collected signatures are the pre-consensus ones
	duty  *spectypes.Duty
	objs  []rk.ObjRef
	ptype spectypes.PartialSigMsgType
	inst  *instance.Instance
	dv    *spectypes.ConsensusData
	q     int
}

func machinery(format string, a ...any) {
	fmt.Fprintf(os.Stderr, "harness failure: "+format+"\n", a...)
	os.Exit(4)
}

func isPreRole(role string) bool { return role == rk.Exit || role == rk.Registration }

// bring builds a fresh kit and drives the real runner through StartDuty, pre-consensus and consensus.
func bring(role string, n, r int) *template {
	kit := rk.New(rk.Options{N: n, Blinded: role == rk.ProposerBlinded, NContrib: r})
	t := &template{kit: kit, role: role, n: n, r: r, pre: isPreRole(role), q: int(kit.Share.Quorum)}
	t.duty = kit.DutyFor(role, dutySlot)
	br := rk.BeaconRole(role)
	if err := kit.StartDuty("setup", t.duty); err != nil {
		machinery("StartDuty %s n=%d: %v", role, n, err)
	}
	if t.pre {
		t.objs = kit.PreObjects(role, t.duty)
		t.ptype = rk.PreType(role)
		return t
	}
	t.ptype = spectypes.PostConsensusPartialSig
	cd := kit.ConsensusDataFor(role, dutySlot, "valid")
	t.objs = kit.DecidedObjects(role, cd)
	if pre := kit.PreObjects(role, t.duty); len(pre) > 0 {
		for s := 1; s <= t.q; s++ {
			if err := kit.Deliver("setup", kit.GoodPartialSigMsg(br, rk.PreType(role), dutySlot, spectypes.OperatorID(s), pre)); err != nil {
				machinery("pre-consensus %s n=%d signer %d: %v", role, n, s, err)
			}
		}
	}
	for i, m := range kit.DecidingMsgs(br, br, cd, specqbft.Height(dutySlot)) {
		if err := kit.Deliver("setup", m); err != nil {
			machinery("consensus %s n=%d msg %d: %v", role, n, i, err)
		}
	}
	st := kit.Runner(role).GetBaseRunner().State
	if st == nil || st.DecidedValue == nil || st.RunningInstance == nil {
		machinery("%s n=%d: the real runner did not decide on the genuine deciding sequence", role, n)
	}
	t.inst, t.dv = st.RunningInstance, st.DecidedValue
	return t
}

var templates = map[string]*template{}

// fresh returns a world whose runner is at the start of signature collection. full = a new kit driven through the
// whole duty; otherwise the decided runner of the template gets a new runner.State (new containers, Finished false)
// holding the template's decided instance and value.
func fresh(role string, n, r int, full bool) *template {
	key := fmt.Sprintf("%s/%d/%d", role, n, r)
	// the contribution runner always runs the whole duty: a repaired tree may keep per-duty bookkeeping outside runner.State
	if full || role == rk.Contribution {
		return bring(role, n, r)
	}
	t, ok := templates[key]
	if !ok {
		t = bring(role, n, r)
		templates[key] = t
		return t
	}
	base := t.kit.Runner(role).GetBaseRunner()
	t.kit.BN.Submits, t.kit.BN.Proofs, t.kit.KM.Calls, t.kit.Net.Msgs = nil, nil, nil, nil
	t.kit.BN.TestingBeaconNode.BroadcastedRoots = nil
	if t.pre {
		base.State = nil
		if err := t.kit.StartDuty("setup", t.duty); err != nil {
			machinery("StartDuty %s: %v", role, err)
		}
		return t
	}
	st := runner.NewRunnerState(t.kit.Share.Quorum, t.duty)
	st.RunningInstance, st.DecidedValue = t.inst, t.dv
	base.State = st
	return t
}

// ---------------------------------------------------------------------------------------------------

type world struct {
	t         *template
	res       *vh.Result
	beh       string
	step      int
	delivered []map[int]bool // per root: members whose correct partial signature was handed over
	mixed     bool
	seenSub   int
	subCount  []int
	reported  map[string]bool
	nontriv   bool
	flavour   int
}

func newWorld(t *template, res *vh.Result, beh string, flavour int) *world {
	w := &world{t: t, res: res, beh: beh, reported: map[string]bool{}, flavour: flavour}
	for range t.objs {
		w.delivered = append(w.delivered, map[int]bool{})
		w.subCount = append(w.subCount, 0)
	}
	return w
}

func (w *world) violate(sig, desc string) {
	if w.reported[sig] {
		return
	}
	w.reported[sig] = true
	if sig != "submission-prevented-multiroot" {
		w.res.Counters["cap"]++ // the recorded multi-root finding must not stop the replay of the remaining behaviours
	}
	w.res.Violate(sig, fmt.Sprintf("[%s n=%d roots=%d] %s", w.t.role, w.t.n, len(w.t.objs), desc), w.beh, w.step)
}

func verifyUnder(pk *bls.PublicKey, sig []byte, root [32]byte) bool {
	s := &bls.Sign{}
	sig = append(make([]byte, 0, len(sig)), sig...) // cgo: the bytes must not live inside a Go object holding pointers
	if err := s.Deserialize(sig); err != nil {
		return false
	}
	return s.VerifyByte(pk, root[:])
}

type msgSpec struct {
	s     int
	kinds []string // per root (1-based root r at index r-1)
	ord   []int    // message order, 1-based roots
	cls   string
}

func (w *world) build(m msgSpec) *spectypes.SSVMessage {
	t := w.t
	signer := spectypes.OperatorID(m.s)
	var roots [][32]byte
	var sigs [][]byte
	for pos, r := range m.ord {
		o := t.objs[r-1]
		root := o.SigningRoot
		var sig []byte
		switch {
		case m.cls == "foreign":
			sig = t.kit.BadSig(1, root, 1)
		case m.kinds[r-1] == "good":
			sig = t.kit.GoodSig(signer, root)
		default:
			sig = t.kit.BadSig(signer, root, w.flavour+pos+m.s)
		}
		roots = append(roots, root)
		sigs = append(sigs, sig)
	}
	slot := t.duty.Slot
	switch m.cls {
	case "wrongRoot":
		roots[0] = rk.WrongRoot(uint64(m.s))
		if t.kit.KS.Shares[signer] != nil {
			sigs[0] = t.kit.GoodSig(signer, roots[0])
		}
	case "wrongSlot":
		slot++
	case "badCount":
		if len(roots) > 1 {
			roots, sigs = roots[:len(roots)-1], sigs[:len(sigs)-1]
		} else {
			roots, sigs = append(roots, roots[0]), append(sigs, sigs[0])
		}
	}
	return t.kit.PartialSigMsg(rk.BeaconRole(t.role), t.ptype, slot, signer, roots, sigs)
}

func (w *world) container() map[int]map[int]string {
	t := w.t
	out := map[int]map[int]string{}
	st := t.kit.Runner(t.role).GetBaseRunner().State
	for r := range t.objs {
		out[r+1] = map[int]string{}
		for s := 1; s <= t.n; s++ {
			out[r+1][s] = "none"
		}
		if st == nil {
			continue
		}
		c := st.PostConsensusContainer
		if t.pre {
			c = st.PreConsensusContainer
		}
		for signer, sig := range c.GetSignatures(t.objs[r].SigningRoot) {
			kind := "bad"
			if int(signer) >= 1 && int(signer) <= t.n && string(sig) == string(t.kit.GoodSig(signer, t.objs[r].SigningRoot)) {
				kind = "good"
			}
			out[r+1][int(signer)] = kind
		}
	}
	return out
}

// monitors on the real Submit* calls
func (w *world) checkSubmits() {
	t := w.t
	vpk := t.kit.KS.ValidatorPK
	subs := t.kit.BN.Submits
	for ; w.seenSub < len(subs); w.seenSub++ {
		c := subs[w.seenSub]
		idx := -1
		for i, o := range t.objs {
			if o.ObjRoot == c.ObjRoot && o.DomainType == c.DomainType {
				idx = i
			}
		}
		if idx < 0 {
			w.violate("invalid-submission", fmt.Sprintf("%s submitted an object (root %x) that is not contained in the decided value", c.Method, c.ObjRoot[:6]))
			continue
		}
		if !verifyUnder(vpk, c.Sig[:], t.objs[idx].SigningRoot) {
			w.violate("invalid-submission", fmt.Sprintf("%s: the submitted signature does not verify under the validator public key over the signing root of decided object %d", c.Method, idx+1))
		}
		if c.Method == "SubmitSyncMessage" && c.Note != fmt.Sprintf("slot=%d validator=%d", t.duty.Slot, t.duty.ValidatorIndex) {
			w.violate("invalid-submission", "sync committee message submitted with "+c.Note+" for a duty with another slot/validator index")
		}
		w.subCount[idx]++
		if w.subCount[idx] > 1 {
			w.violate("duplicate-submission", fmt.Sprintf("%s: decided object %d was submitted %d times", c.Method, idx+1, w.subCount[idx]))
		}
	}
	for _, p := range t.kit.BN.Proofs {
		ref := t.kit.PreObjects(t.role, t.duty)
		ok := false
		for _, o := range ref {
			if o.ObjRoot == p.ObjRoot && verifyUnder(vpk, p.Sig[:], o.SigningRoot) {
				ok = true
			}
		}
		if !ok {
			w.violate("invalid-submission", p.Method+": the reconstructed pre-consensus proof handed to the beacon node does not verify under the validator public key")
		}
	}
	t.kit.BN.Proofs = nil
	for r := range t.objs {
		if len(w.delivered[r]) >= t.q && w.subCount[r] == 0 {
			sig := "submission-prevented"
			if len(t.objs) > 1 && w.mixed {
				sig = "submission-prevented-multiroot"
			}
			w.violate(sig, fmt.Sprintf("correct partial signatures of %d distinct members (quorum %d) were handed to the runner for decided object %d and it was not submitted (Finished=%v)",
				len(w.delivered[r]), t.q, r+1, w.finished()))
		}
	}
}

func (w *world) finished() bool {
	st := w.t.kit.Runner(w.t.role).GetBaseRunner().State
	return st != nil && st.Finished
}

func (w *world) recv(m msgSpec) error {
	t := w.t
	msg := w.build(m)
	err := t.kit.Deliver("Recv", msg)
	if m.cls == "ok" && m.s >= 1 && m.s <= t.n {
		g, b := 0, 0
		for r := range t.objs {
			if m.kinds[r] == "good" {
				w.delivered[r][m.s] = true
				g++
			} else {
				b++
			}
		}
		if g > 0 && b > 0 {
			w.mixed = true
		}
		if b > 0 {
			w.nontriv = true
		}
	}
	w.checkSubmits()
	return err
}

func strs(l []any) []string {
	out := []string{}
	for _, x := range l {
		s, _ := x.(string)
		out = append(out, s)
	}
	return out
}

func replay(b vh.Behaviour, role string, n, r int, full bool, res *vh.Result, idx int) {
	t := fresh(role, n, r, full)
	w := newWorld(t, res, b.ID+"@"+role, idx)
	if strings.HasPrefix(b.Kind, "attack") {
		w.flavour = 0 // well-formed wrong signatures: the strongest input against a missing verification
	}
	for i, st := range b.Steps {
		w.step = i
		a := st.Act
		if vh.Str(a, "name") != "Recv" {
			continue
		}
		m := msgSpec{s: vh.Int(a, "s"), kinds: strs(vh.List(a, "kinds")), ord: vh.Ints(a, "ord"), cls: vh.Str(a, "cls")}
		if len(m.kinds) != r || len(m.ord) != r {
			machinery("behaviour %s step %d: %d kinds / %d ord for %d roots", b.ID, i, len(m.kinds), len(m.ord), r)
		}
		w.recv(m)
		if st.State == nil {
			continue
		}
		// conformance: container, submissions, Finished
		if have, ok := st.State["have"].([]any); ok {
			real := w.container()
			for ri, row := range have {
				cells, _ := row.([]any)
				for si, cell := range cells {
					if cs, _ := cell.(string); cs != real[ri+1][si+1] {
						res.Diverge(w.beh, i, fmt.Sprintf("have[%d][%d]", ri+1, si+1), cs, real[ri+1][si+1])
					}
				}
			}
		}
		if sub, ok := st.State["sub"].([]any); ok {
			for ri, x := range sub {
				f, _ := x.(float64)
				c := w.subCount[ri]
				if c > 2 {
					c = 2
				}
				if int(f) != c {
					res.Diverge(w.beh, i, fmt.Sprintf("sub[%d]", ri+1), int(f), c)
				}
			}
		}
		if fin, ok := st.State["finished"].(bool); ok && fin != w.finished() {
			res.Diverge(w.beh, i, "finished", fin, w.finished())
		}
	}
	res.Behaviours++
	res.Steps += len(b.Steps)
	if w.nontriv {
		res.Nontrivial++
	}
	if full || role == rk.Contribution {
		t.kit.Close()
	}
}

// random executions of the harness's own making: larger alphabets than the spec configs, monitors only
func randomRuns(seed int64, runs int, ns []int, roles []string, res *vh.Result) {
	rng := rand.New(rand.NewSource(seed))
	for k := 0; k < runs; k++ {
		n := ns[rng.Intn(len(ns))]
		role := roles[rng.Intn(len(roles))]
		r := 1
		if role == rk.Contribution {
			r = 1 + rng.Intn(3)
		}
		t := fresh(role, n, r, k%40 == 0)
		w := newWorld(t, res, fmt.Sprintf("own-%d@%s/n%d/r%d", k, role, n, r), rng.Intn(3))
		f := (n - 1) / 3
		perm := rng.Perm(n)
		faulty := map[int]bool{}
		for _, x := range perm[:rng.Intn(f+1)] {
			faulty[x+1] = true
		}
		steps := 2*n + rng.Intn(n)
		for i := 0; i < steps; i++ {
			w.step = i
			s := 1 + rng.Intn(n)
			m := msgSpec{s: s, cls: "ok"}
			for j := 0; j < r; j++ {
				m.kinds = append(m.kinds, "good")
				m.ord = append(m.ord, j+1)
			}
			if faulty[s] {
				for j := 0; j < r; j++ {
					if rng.Intn(2) == 0 {
						m.kinds[j] = "bad"
					}
				}
				rng.Shuffle(r, func(a, b int) { m.ord[a], m.ord[b] = m.ord[b], m.ord[a] })
				if rng.Intn(6) == 0 {
					m.cls = []string{"wrongRoot", "wrongSlot", "badCount"}[rng.Intn(3)]
				}
			} else if rng.Intn(12) == 0 {
				m.s, m.cls = n+1, "foreign"
			}
			w.recv(m)
		}
		res.Behaviours++
		res.Steps += steps
		if w.nontriv {
			res.Nontrivial++
		}
		if k%40 == 0 || role == rk.Contribution {
			t.kit.Close()
		}
	}
}

func selfTest() {
	kit := rk.New(rk.Options{N: 4})
	defer kit.Close()
	root := rk.WrongRoot(1)
	pk := kit.KS.Shares[2].GetPublicKey()
	if !verifyUnder(pk, kit.GoodSig(2, root), root) {
		machinery("self-test: a correct share signature does not verify")
	}
	for fl := 0; fl < 3; fl++ {
		if verifyUnder(pk, kit.BadSig(2, root, fl), root) {
			machinery("self-test: wrong partial signature of flavour %d verifies", fl)
		}
	}
}

func main() {
	mode := flag.String("mode", "replay", "replay | random")
	in := flag.String("in", "", "behaviours NDJSON")
	out := flag.String("out", "", "result JSON")
	n := flag.Int("n", 4, "committee size of the behaviours")
	r := flag.Int("r", 1, "number of roots of the behaviours")
	rolesF := flag.String("roles", "", "comma separated roles (default: all with that many roots)")
	fullEvery := flag.Int("fullevery", 50, "every k-th behaviour runs the whole duty on a fresh kit")
	seed := flag.Int64("seed", 1, "seed")
	runs := flag.Int("runs", 100, "own random executions")
	nsF := flag.String("ns", "4,7,10,13", "committee sizes of the random executions")
	flag.Parse()
	selfTest()
	res := vh.NewResult()
	roles := []string{rk.Attester, rk.Proposer, rk.ProposerBlinded, rk.Aggregator, rk.SyncCommittee, rk.Exit, rk.Registration, rk.Contribution}
	if *r > 1 {
		roles = []string{rk.Contribution}
	}
	if *rolesF != "" {
		roles = strings.Split(*rolesF, ",")
	}
	switch *mode {
	case "replay":
		behs, err := vh.ReadBehaviours(*in)
		if err != nil {
			fmt.Fprintln(os.Stderr, err)
			os.Exit(3)
		}
		for i, b := range behs {
			if strings.HasPrefix(b.Kind, "attack") {
				for _, role := range roles {
					replay(b, role, *n, *r, true, res, i)
				}
				continue
			}
			if res.Counters["cap"] > 40 {
				continue // enough evidence on a broken tree; attack traces are still replayed
			}
			replay(b, roles[(i+int(*seed))%len(roles)], *n, *r, *fullEvery > 0 && i%*fullEvery == 0, res, i)
		}
		if len(behs) > 0 {
			res.Samples = append(res.Samples, behs[len(behs)/2])
		}
	case "random":
		var ns []int
		for _, x := range strings.Split(*nsF, ",") {
			var v int
			fmt.Sscanf(x, "%d", &v)
			ns = append(ns, v)
		}
		randomRuns(*seed, *runs, ns, roles, res)
	}
	if err := res.Write(*out); err != nil {
		fmt.Fprintln(os.Stderr, err)
		os.Exit(3)
	}
}
