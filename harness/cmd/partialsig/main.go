// Driver for spec/PartialSig.tla (property C05): replays TLC behaviours on REAL duty runners of every role
// (real threshold BLS shares, real partial-signature container, real reconstruction and fallback), compares the
// real container / submissions / Finished flag with the spec's prediction after every message and runs the C05
// monitors on the arguments of the real BeaconNode.Submit* calls only:
//
//	invalid-submission    a submitted signature does not verify under the validator key over the signing root of
//	                      a decided object (root recomputed by the harness), or the object is not a decided one
//	duplicate-submission  a decided object was submitted more than once
//	submission-prevented  2f+1 correct partial signatures of distinct committee members were handed to the runner
//	                      (after its instance decided) and the object was not submitted
//	  submission-prevented-multiroot : the same, in a duty with several roots where some member's message mixed
//	                      correct and wrong partial signatures (the history of the C05 finding)
//
// -mode record: the implementation -> specification direction. Seeded random executions of the driver's own making
// (every role, committees of 4/7/10/13, one to three roots, <= f Byzantine members that send garbage, signatures
// over another message, undeserialisable bytes, another member's valid share, the point at infinity, duplicates,
// replacements, extra / missing / repeated / wrong roots, wrong slots, inconsistent signer ids; retransmissions
// after the quorum and after the submission) run on the real runners under the same monitors, and every
// ProcessPostConsensus / ProcessPreConsensus call is logged at its return as one NDJSON event (sender, class of
// every partial signature as verified by the driver with herumi BLS, error class, the Submit* calls the spy saw
// during the call with the driver's verdict on the submitted signature, shares held per root, Finished). TLC
// validates the files against spec/PartialSigTrace.tla (one file per committee size and number of roots).
// -mode retrace re-executes the executions of such a file (the replay of a violation found on a recorded state).
package main

import (
	"bufio"
	"crypto/sha256"
	"encoding/json"
	"flag"
	"fmt"
	"math/rand"
	"os"
	"path/filepath"
	"strings"

	"github.com/attestantio/go-eth2-client/spec/phase0"
	specqbft "github.com/bloxapp/ssv-spec/qbft"
	spectypes "github.com/bloxapp/ssv-spec/types"
	"github.com/herumi/bls-eth-go-binary/bls"

	"github.com/bloxapp/ssv/protocol/v2/qbft/instance"
	"github.com/bloxapp/ssv/protocol/v2/ssv/runner"

	rk "verif/harness/runnerkit"
	"verif/harness/vh"
)

const dutySlot = phase0.Slot(12)

// template: a runner of (role, n, r) brought GENUINELY to the point where partial signatures are collected
type template struct {
	kit   *rk.Kit
	role  string
	n, r  int
	pre   bool // the duty has no consensus: the collected signatures are the pre-consensus ones
	duty  *spectypes.Duty
	objs  []rk.ObjRef
	ptype spectypes.PartialSigMsgType
	inst  *instance.Instance
	dv    *spectypes.ConsensusData
	q     int
}

func machinery(format string, a ...any) {
	fmt.Fprintf(os.Stderr, "harness failure: "+format+"\n", a...)
	os.Exit(4)
}

func isPreRole(role string) bool { return role == rk.Exit || role == rk.Registration }

// bring builds a fresh kit and drives the real runner through StartDuty, pre-consensus and consensus.
func bring(role string, n, r int) *template {
	kit := rk.New(rk.Options{N: n, Blinded: role == rk.ProposerBlinded, NContrib: r})
	t := &template{kit: kit, role: role, n: n, r: r, pre: isPreRole(role), q: int(kit.Share.Quorum)}
	t.duty = kit.DutyFor(role, dutySlot)
	br := rk.BeaconRole(role)
	if err := kit.StartDuty("setup", t.duty); err != nil {
		machinery("StartDuty %s n=%d: %v", role, n, err)
	}
	if t.pre {
		t.objs = kit.PreObjects(role, t.duty)
		t.ptype = rk.PreType(role)
		return t
	}
	t.ptype = spectypes.PostConsensusPartialSig
	cd := kit.ConsensusDataFor(role, dutySlot, "valid")
	t.objs = kit.DecidedObjects(role, cd)
	if pre := kit.PreObjects(role, t.duty); len(pre) > 0 {
		for s := 1; s <= t.q; s++ {
			if err := kit.Deliver("setup", kit.GoodPartialSigMsg(br, rk.PreType(role), dutySlot, spectypes.OperatorID(s), pre)); err != nil {
				machinery("pre-consensus %s n=%d signer %d: %v", role, n, s, err)
			}
		}
	}
	for i, m := range kit.DecidingMsgs(br, br, cd, specqbft.Height(dutySlot)) {
		if err := kit.Deliver("setup", m); err != nil {
			machinery("consensus %s n=%d msg %d: %v", role, n, i, err)
		}
	}
	st := kit.Runner(role).GetBaseRunner().State
	if st == nil || st.DecidedValue == nil || st.RunningInstance == nil {
		machinery("%s n=%d: the real runner did not decide on the genuine deciding sequence", role, n)
	}
	t.inst, t.dv = st.RunningInstance, st.DecidedValue
	return t
}

var templates = map[string]*template{}

// fresh returns a world whose runner is at the start of signature collection. full = a new kit driven through the
// whole duty; otherwise the decided runner of the template gets a new runner.State (new containers, Finished false)
// holding the template's decided instance and value.
func fresh(role string, n, r int, full bool) *template {
	key := fmt.Sprintf("%s/%d/%d", role, n, r)
	// the contribution runner always runs the whole duty: a repaired tree may keep per-duty bookkeeping outside runner.State
	if full || role == rk.Contribution {
		return bring(role, n, r)
	}
	t, ok := templates[key]
	if !ok {
		t = bring(role, n, r)
		templates[key] = t
		return t
	}
	base := t.kit.Runner(role).GetBaseRunner()
	t.kit.BN.Submits, t.kit.BN.Proofs, t.kit.KM.Calls, t.kit.Net.Msgs = nil, nil, nil, nil
	t.kit.BN.TestingBeaconNode.BroadcastedRoots = nil
	if t.pre {
		base.State = nil
		if err := t.kit.StartDuty("setup", t.duty); err != nil {
			machinery("StartDuty %s: %v", role, err)
		}
		return t
	}
	st := runner.NewRunnerState(t.kit.Share.Quorum, t.duty)
	st.RunningInstance, st.DecidedValue = t.inst, t.dv
	base.State = st
	return t
}

// ---------------------------------------------------------------------------------------------------

type world struct {
	t         *template
	res       *vh.Result
	beh       string
	step      int
	delivered []map[int]bool // per root: members whose correct partial signature was handed over
	mixed     bool
	seenSub   int
	subCount  []int
	reported  map[string]bool
	nontriv   bool
	flavour   int
	lastSubs  []subObs // the Submit* calls the spy saw during the last Recv
	lastKinds []string // per root: class of the partial signature of the last message as VERIFIED by the driver
}

// subObs: one Submit* call as judged by the driver (obj = number of the decided object, 0 = not a decided one)
type subObs struct {
	Obj    int    `json:"obj"`
	OK     bool   `json:"ok"`
	Method string `json:"m"`
}

func newWorld(t *template, res *vh.Result, beh string, flavour int) *world {
	w := &world{t: t, res: res, beh: beh, reported: map[string]bool{}, flavour: flavour}
	for range t.objs {
		w.delivered = append(w.delivered, map[int]bool{})
		w.subCount = append(w.subCount, 0)
	}
	return w
}

func (w *world) violate(sig, desc string) {
	if w.reported[sig] {
		return
	}
	w.reported[sig] = true
	if sig != "submission-prevented-multiroot" {
		w.res.Counters["cap"]++ // the recorded multi-root finding must not stop the replay of the remaining behaviours
	}
	w.res.Violate(sig, fmt.Sprintf("[%s n=%d roots=%d] %s", w.t.role, w.t.n, len(w.t.objs), desc), w.beh, w.step)
}

func verifyUnder(pk *bls.PublicKey, sig []byte, root [32]byte) bool {
	s := &bls.Sign{}
	sig = append(make([]byte, 0, len(sig)), sig...) // cgo: the bytes must not live inside a Go object holding pointers
	if err := s.Deserialize(sig); err != nil {
		return false
	}
	return s.VerifyByte(pk, root[:])
}

type msgSpec struct {
	s     int
	kinds []string // per root (1-based root r at index r-1)
	ord   []int    // message order, 1-based roots
	cls   string
	// record mode only (empty in replayed TLC behaviours):
	bad   []string // per root: which wrong signature stands for kind "bad" (badKinds); "" = the replay's flavour rule
	sid   int      // envelope signer id of a "foreign" message (0 = n+1)
	shape string   // variant of a refused class (badCount: extra|extrawrong|missing|empty, wrongSlot: next|prev)
}

// the wrong partial signatures of the record mode (all of them are kind "bad" of the spec)
var badKinds = []string{"wrongroot", "stranger", "undeser", "othershare", "garbage", "infinity"}

func (w *world) badSig(kind string, signer spectypes.OperatorID, root [32]byte) []byte {
	t := w.t
	switch kind {
	case "wrongroot": // the signer's own share over another message
		return t.kit.BadSig(signer, root, 0)
	case "stranger": // a key that is nobody's share, over the right root
		return t.kit.BadSig(signer, root, 1)
	case "undeser": // 96 bytes that are no curve point
		return t.kit.BadSig(signer, root, 2)
	case "othershare": // the VALID partial signature of another member's share over the right root
		other := spectypes.OperatorID(int(signer)%t.n + 1)
		return t.kit.GoodSig(other, root)
	case "garbage": // pseudo-random bytes (a function of signer and root: recorded executions are re-executable)
		out := make([]byte, 0, 96)
		for i := byte(0); len(out) < 96; i++ {
			h := sha256.Sum256(append([]byte{'g', i, byte(signer)}, root[:]...))
			out = append(out, h[:]...)
		}
		return out[:96]
	case "infinity": // the compressed point at infinity: deserialises, verifies nothing
		out := make([]byte, 96)
		out[0] = 0xc0
		return out
	}
	machinery("unknown wrong-signature kind %q", kind)
	return nil
}

// psMsg: like Kit.PartialSigMsg, with a signer id per partial signature (the envelope is signed by the envelope
// signer's share, or by a stranger's key when that id has none; the runner does not verify the envelope).
func (w *world) psMsg(slot phase0.Slot, env spectypes.OperatorID, inner []spectypes.OperatorID, roots [][32]byte, sigs [][]byte) *spectypes.SSVMessage {
	k := w.t.kit
	msgs := spectypes.PartialSignatureMessages{Type: w.t.ptype, Slot: slot}
	for i := range roots {
		msgs.Messages = append(msgs.Messages, &spectypes.PartialSignatureMessage{PartialSignature: sigs[i], SigningRoot: roots[i], Signer: inner[i]})
	}
	sk := k.KS.Shares[env]
	if sk == nil {
		sk = k.KS.Shares[1]
	}
	r, err := spectypes.ComputeSigningRoot(msgs, spectypes.ComputeSignatureDomain(k.Share.DomainType, spectypes.PartialSignatureType))
	if err != nil {
		machinery("signing root of a partial signature message: %v", err)
	}
	signed := &spectypes.SignedPartialSignatureMessage{Message: msgs, Signature: sk.SignByte(r[:]).Serialize(), Signer: env}
	data, err := signed.Encode()
	if err != nil {
		machinery("encoding a partial signature message: %v", err)
	}
	return &spectypes.SSVMessage{MsgType: spectypes.SSVPartialSignatureMsgType, MsgID: k.MsgID(rk.BeaconRole(w.t.role)), Data: data}
}

func (w *world) build(m msgSpec) *spectypes.SSVMessage {
	t := w.t
	signer := spectypes.OperatorID(m.s)
	if m.cls == "foreign" && m.sid != 0 {
		signer = spectypes.OperatorID(m.sid)
	}
	if m.cls == "foreign" && m.sid < 0 {
		signer = 0 // "signer ID 0 not allowed"
	}
	var roots [][32]byte
	var sigs [][]byte
	var inner []spectypes.OperatorID
	w.lastKinds = make([]string, len(t.objs))
	for pos, r := range m.ord {
		o := t.objs[r-1]
		root := o.SigningRoot
		var sig []byte
		name := "good"
		switch {
		case m.cls == "foreign":
			sig, name = t.kit.BadSig(1, root, 1), "stranger"
		case m.kinds[r-1] == "good":
			sig = t.kit.GoodSig(signer, root)
		case len(m.bad) == len(t.objs) && m.bad[r-1] != "":
			sig, name = w.badSig(m.bad[r-1], signer, root), m.bad[r-1]
		default:
			fl := (w.flavour + pos + m.s) % 3
			sig, name = t.kit.BadSig(signer, root, fl), []string{"wrongroot", "stranger", "undeser"}[fl]
		}
		// the class that is logged and monitored is what the DRIVER verifies, not what it meant to build
		if sk := t.kit.KS.Shares[signer]; sk != nil && m.s >= 1 && m.s <= t.n {
			if verifyUnder(sk.GetPublicKey(), sig, root) {
				name = "good"
			} else if name == "good" {
				machinery("a correct share signature of member %d does not verify", m.s)
			}
		}
		w.lastKinds[r-1] = name
		roots = append(roots, root)
		sigs = append(sigs, sig)
		inner = append(inner, signer)
	}
	slot := t.duty.Slot
	switch m.cls {
	case "wrongRoot":
		roots[0] = rk.WrongRoot(uint64(m.s))
		if t.kit.KS.Shares[signer] != nil {
			sigs[0] = t.kit.GoodSig(signer, roots[0])
		}
	case "wrongSlot":
		if m.shape == "prev" {
			slot--
		} else {
			slot++
		}
	case "badCount":
		shape := m.shape
		if shape == "" {
			shape = "missing"
			if len(roots) == 1 {
				shape = "extra"
			}
		}
		switch shape {
		case "missing", "empty":
			roots, sigs, inner = roots[:len(roots)-1], sigs[:len(sigs)-1], inner[:len(inner)-1]
		case "extrawrong":
			wr := rk.WrongRoot(uint64(m.s) + 77)
			roots, sigs, inner = append(roots, wr), append(sigs, t.kit.GoodSig(signer, wr)), append(inner, signer)
		default:
			roots, sigs, inner = append(roots, roots[0]), append(sigs, sigs[0]), append(inner, signer)
		}
	case "signerMismatch":
		inner[len(inner)-1] = spectypes.OperatorID(m.s%t.n + 1) // another member's id inside the envelope of m.s
	case "dupRoot":
		if len(roots) >= 2 {
			roots[1], sigs[1] = roots[0], sigs[0]
		}
	}
	return w.psMsg(slot, signer, inner, roots, sigs)
}

func (w *world) container() map[int]map[int]string {
	t := w.t
	out := map[int]map[int]string{}
	st := t.kit.Runner(t.role).GetBaseRunner().State
	for r := range t.objs {
		out[r+1] = map[int]string{}
		for s := 1; s <= t.n; s++ {
			out[r+1][s] = "none"
		}
		if st == nil {
			continue
		}
		c := st.PostConsensusContainer
		if t.pre {
			c = st.PreConsensusContainer
		}
		for signer, sig := range c.GetSignatures(t.objs[r].SigningRoot) {
			kind := "bad"
			if int(signer) >= 1 && int(signer) <= t.n && string(sig) == string(t.kit.GoodSig(signer, t.objs[r].SigningRoot)) {
				kind = "good"
			}
			out[r+1][int(signer)] = kind
		}
	}
	return out
}

// monitors on the real Submit* calls
func (w *world) checkSubmits() {
	t := w.t
	vpk := t.kit.KS.ValidatorPK
	subs := t.kit.BN.Submits
	w.lastSubs = []subObs{}
	for ; w.seenSub < len(subs); w.seenSub++ {
		c := subs[w.seenSub]
		idx := -1
		for i, o := range t.objs {
			if o.ObjRoot == c.ObjRoot && o.DomainType == c.DomainType {
				idx = i
			}
		}
		if idx < 0 {
			w.lastSubs = append(w.lastSubs, subObs{0, false, c.Method})
			w.violate("invalid-submission", fmt.Sprintf("%s submitted an object (root %x) that is not contained in the decided value", c.Method, c.ObjRoot[:6]))
			continue
		}
		ob := subObs{idx + 1, true, c.Method}
		if !verifyUnder(vpk, c.Sig[:], t.objs[idx].SigningRoot) {
			ob.OK = false
			w.violate("invalid-submission", fmt.Sprintf("%s: the submitted signature does not verify under the validator public key over the signing root of decided object %d", c.Method, idx+1))
		}
		if c.Method == "SubmitSyncMessage" && c.Note != fmt.Sprintf("slot=%d validator=%d", t.duty.Slot, t.duty.ValidatorIndex) {
			ob.OK = false
			w.violate("invalid-submission", "sync committee message submitted with "+c.Note+" for a duty with another slot/validator index")
		}
		w.lastSubs = append(w.lastSubs, ob)
		w.subCount[idx]++
		if w.subCount[idx] > 1 {
			w.violate("duplicate-submission", fmt.Sprintf("%s: decided object %d was submitted %d times", c.Method, idx+1, w.subCount[idx]))
		}
	}
	for _, p := range t.kit.BN.Proofs {
		ref := t.kit.PreObjects(t.role, t.duty)
		ok := false
		for _, o := range ref {
			if o.ObjRoot == p.ObjRoot && verifyUnder(vpk, p.Sig[:], o.SigningRoot) {
				ok = true
			}
		}
		if !ok {
			w.violate("invalid-submission", p.Method+": the reconstructed pre-consensus proof handed to the beacon node does not verify under the validator public key")
		}
	}
	t.kit.BN.Proofs = nil
	for r := range t.objs {
		if len(w.delivered[r]) >= t.q && w.subCount[r] == 0 {
			sig := "submission-prevented"
			if len(t.objs) > 1 && w.mixed {
				sig = "submission-prevented-multiroot"
			}
			w.violate(sig, fmt.Sprintf("correct partial signatures of %d distinct members (quorum %d) were handed to the runner for decided object %d and it was not submitted (Finished=%v)",
				len(w.delivered[r]), t.q, r+1, w.finished()))
		}
	}
}

func (w *world) finished() bool {
	st := w.t.kit.Runner(w.t.role).GetBaseRunner().State
	return st != nil && st.Finished
}

func (w *world) recv(m msgSpec) error {
	t := w.t
	msg := w.build(m)
	err := t.kit.Deliver("Recv", msg)
	if m.cls == "ok" && m.s >= 1 && m.s <= t.n {
		g, b := 0, 0
		for r := range t.objs {
			if w.lastKinds[r] == "good" {
				w.delivered[r][m.s] = true
				g++
			} else {
				b++
			}
		}
		if g > 0 && b > 0 {
			w.mixed = true
		}
		if b > 0 {
			w.nontriv = true
		}
	}
	w.checkSubmits()
	return err
}

func strs(l []any) []string {
	out := []string{}
	for _, x := range l {
		s, _ := x.(string)
		out = append(out, s)
	}
	return out
}

func replay(b vh.Behaviour, role string, n, r int, full bool, res *vh.Result, idx int) {
	t := fresh(role, n, r, full)
	w := newWorld(t, res, b.ID+"@"+role, idx)
	if strings.HasPrefix(b.Kind, "attack") {
		w.flavour = 0 // well-formed wrong signatures: the strongest input against a missing verification
	}
	for i, st := range b.Steps {
		w.step = i
		a := st.Act
		if vh.Str(a, "name") != "Recv" {
			continue
		}
		m := msgSpec{s: vh.Int(a, "s"), kinds: strs(vh.List(a, "kinds")), ord: vh.Ints(a, "ord"), cls: vh.Str(a, "cls")}
		if len(m.kinds) != r || len(m.ord) != r {
			machinery("behaviour %s step %d: %d kinds / %d ord for %d roots", b.ID, i, len(m.kinds), len(m.ord), r)
		}
		err := w.recv(m)
		if want := vh.Str(a, "err"); want != "" && want != errClass(err) {
			res.Diverge(w.beh, i, "err", want, errClass(err))
		}
		if st.State == nil {
			continue
		}
		// conformance: container, submissions, Finished
		if have, ok := st.State["have"].([]any); ok {
			real := w.container()
			for ri, row := range have {
				cells, _ := row.([]any)
				for si, cell := range cells {
					if cs, _ := cell.(string); cs != real[ri+1][si+1] {
						res.Diverge(w.beh, i, fmt.Sprintf("have[%d][%d]", ri+1, si+1), cs, real[ri+1][si+1])
					}
				}
			}
		}
		if sub, ok := st.State["sub"].([]any); ok {
			for ri, x := range sub {
				f, _ := x.(float64)
				c := w.subCount[ri]
				if c > 2 {
					c = 2
				}
				if int(f) != c {
					res.Diverge(w.beh, i, fmt.Sprintf("sub[%d]", ri+1), int(f), c)
				}
			}
		}
		if fin, ok := st.State["finished"].(bool); ok && fin != w.finished() {
			res.Diverge(w.beh, i, "finished", fin, w.finished())
		}
	}
	res.Behaviours++
	res.Steps += len(b.Steps)
	if w.nontriv {
		res.Nontrivial++
	}
	if full || role == rk.Contribution {
		t.kit.Close()
	}
}

// random executions of the harness's own making: larger alphabets than the spec configs, monitors only
func randomRuns(seed int64, runs int, ns []int, roles []string, res *vh.Result) {
	rng := rand.New(rand.NewSource(seed))
	for k := 0; k < runs; k++ {
		n := ns[rng.Intn(len(ns))]
		role := roles[rng.Intn(len(roles))]
		r := 1
		if role == rk.Contribution {
			r = 1 + rng.Intn(3)
		}
		t := fresh(role, n, r, k%40 == 0)
		w := newWorld(t, res, fmt.Sprintf("own-%d@%s/n%d/r%d", k, role, n, r), rng.Intn(3))
		f := (n - 1) / 3
		perm := rng.Perm(n)
		faulty := map[int]bool{}
		for _, x := range perm[:rng.Intn(f+1)] {
			faulty[x+1] = true
		}
		steps := 2*n + rng.Intn(n)
		for i := 0; i < steps; i++ {
			w.step = i
			s := 1 + rng.Intn(n)
			m := msgSpec{s: s, cls: "ok"}
			for j := 0; j < r; j++ {
				m.kinds = append(m.kinds, "good")
				m.ord = append(m.ord, j+1)
			}
			if faulty[s] {
				for j := 0; j < r; j++ {
					if rng.Intn(2) == 0 {
						m.kinds[j] = "bad"
					}
				}
				rng.Shuffle(r, func(a, b int) { m.ord[a], m.ord[b] = m.ord[b], m.ord[a] })
				if rng.Intn(6) == 0 {
					m.cls = []string{"wrongRoot", "wrongSlot", "badCount"}[rng.Intn(3)]
				}
			} else if rng.Intn(12) == 0 {
				m.s, m.cls = n+1, "foreign"
			}
			w.recv(m)
		}
		res.Behaviours++
		res.Steps += steps
		if w.nontriv {
			res.Nontrivial++
		}
		if k%40 == 0 || role == rk.Contribution {
			t.kit.Close()
		}
	}
}


// ---------------------------------------------------------------------------------------------------
// record mode: seeded random executions of the harness's own making on the real runners, one NDJSON event per
// ProcessPostConsensus / ProcessPreConsensus call at its return, validated by TLC against spec/PartialSigTrace.tla
// (one trace file per committee size and number of roots: they are constants of the specification).

// errClass: the error class of a ProcessP*Consensus call as the specification names it
func errClass(err error) string {
	if err == nil {
		return "none"
	}
	e := err.Error()
	switch {
	case strings.Contains(e, "invalid post-consensus message"), strings.Contains(e, "invalid pre-consensus message"):
		return "refused"
	case strings.Contains(e, "quorum but it has invalid signatures"):
		return "invalid"
	}
	if len(e) > 60 {
		e = e[:60]
	}
	return "other:" + e
}

type execution struct {
	id     string
	role   string
	n, r   int
	faulty []int
	msgs   []msgSpec
}

type recorder struct {
	dir     string
	writers map[string]*vh.TraceWriter
	counts  map[string]int
}

func (rc *recorder) writer(n, r int) *vh.TraceWriter {
	key := fmt.Sprintf("trace_n%d_r%d.ndjson", n, r)
	if tw, ok := rc.writers[key]; ok {
		return tw
	}
	tw, err := vh.NewTraceWriter(filepath.Join(rc.dir, key))
	if err != nil {
		machinery("trace file: %v", err)
	}
	rc.writers[key] = tw
	return tw
}

func (rc *recorder) close() {
	for _, tw := range rc.writers {
		if err := tw.Close(); err != nil {
			machinery("trace file: %v", err)
		}
	}
}

// runExecution applies the messages of one execution to a fresh real runner and emits its events.
func runExecution(e execution, full bool, res *vh.Result, rc *recorder) {
	t := fresh(e.role, e.n, e.r, full)
	w := newWorld(t, res, e.id, 0)
	tw := rc.writer(e.n, e.r)
	fl := e.faulty
	if fl == nil {
		fl = []int{}
	}
	tw.Emit(map[string]any{"event": "Reset", "exec": e.id, "role": e.role, "n": e.n, "r": e.r, "faulty": fl, "pre": t.pre})
	for i, m := range e.msgs {
		w.step = i
		err := w.recv(m)
		cont := w.container()
		nsh, nbad := make([]int, e.r), make([]int, e.r)
		for r := 1; r <= e.r; r++ {
			for _, k := range cont[r] {
				if k != "none" {
					nsh[r-1]++
				}
				if k == "bad" {
					nbad[r-1]++
				}
			}
		}
		ev := map[string]any{"event": "Recv", "s": m.s, "kinds": w.lastKinds, "ord": m.ord, "cls": m.cls, "err": errClass(err),
			"subs": w.lastSubs, "nsh": nsh, "nbad": nbad, "fin": w.finished()}
		if m.cls == "foreign" {
			ev["sid"] = m.sid
		}
		if m.shape != "" {
			ev["shape"] = m.shape
		}
		tw.Emit(ev)
		rc.counts["cls:"+m.cls]++
		rc.counts["err:"+strings.SplitN(errClass(err), ":", 2)[0]]++
		for _, k := range w.lastKinds {
			if m.cls == "ok" {
				rc.counts["kind:"+k]++
			}
		}
		rc.counts["submissions"] += len(w.lastSubs)
	}
	rc.counts[fmt.Sprintf("role:%s", e.role)]++
	rc.counts[fmt.Sprintf("n:%d", e.n)]++
	res.Behaviours++
	res.Steps += len(e.msgs)
	if w.nontriv {
		res.Nontrivial++
	}
	if full || e.role == rk.Contribution {
		t.kit.Close()
	}
}

func idOrd(r int) []int {
	o := make([]int, r)
	for i := range o {
		o[i] = i + 1
	}
	return o
}

func goodMsg(s, r int) msgSpec {
	m := msgSpec{s: s, cls: "ok", ord: idOrd(r), bad: make([]string, r)}
	for j := 0; j < r; j++ {
		m.kinds = append(m.kinds, "good")
	}
	return m
}

// faultyMsg: one message of a Byzantine member
func faultyMsg(rng *rand.Rand, s, n, r int, prev *msgSpec) msgSpec {
	x := rng.Intn(100)
	if prev != nil && x < 10 {
		return *prev // exact duplicate of its previous message
	}
	m := goodMsg(s, r)
	switch {
	case x < 62: // accepted class: every root correct or wrong, in an order of the sender's choice
		allGood := true
		for j := 0; j < r; j++ {
			if rng.Intn(2) == 0 {
				m.kinds[j], m.bad[j] = "bad", badKinds[rng.Intn(len(badKinds))]
				allGood = false
			}
		}
		if allGood && rng.Intn(2) == 0 {
			j := rng.Intn(r)
			m.kinds[j], m.bad[j] = "bad", badKinds[rng.Intn(len(badKinds))]
		}
		rng.Shuffle(r, func(a, b int) { m.ord[a], m.ord[b] = m.ord[b], m.ord[a] })
	case x < 70:
		m.cls = "wrongRoot"
	case x < 78:
		m.cls, m.shape = "wrongSlot", []string{"next", "prev"}[rng.Intn(2)]
	case x < 88:
		m.cls = "badCount"
		shapes := []string{"extra", "extrawrong", "empty"}
		if r > 1 {
			shapes = []string{"extra", "extrawrong", "missing"}
		}
		m.shape = shapes[rng.Intn(len(shapes))]
	case x < 95 || r < 2:
		m.cls = "signerMismatch"
	default:
		m.cls = "dupRoot"
	}
	return m
}

func foreignMsg(rng *rand.Rand, n, r int) msgSpec {
	m := goodMsg(n+1, r)
	m.cls = "foreign"
	m.sid = []int{n + 1, n + 2, 1000, -1}[rng.Intn(4)]
	return m
}

// genExecution: arrival order and Byzantine behaviour of one execution
func genExecution(rng *rand.Rand, k int, n int, role string, r int) execution {
	f := (n - 1) / 3
	nf := f
	if rng.Intn(2) == 0 {
		nf = rng.Intn(f + 1)
	}
	perm := rng.Perm(n)
	isFaulty := map[int]bool{}
	e := execution{id: fmt.Sprintf("rec-%d@%s/n%d/r%d", k, role, n, r), role: role, n: n, r: r, faulty: []int{}}
	for _, x := range perm[:nf] {
		isFaulty[x+1] = true
		e.faulty = append(e.faulty, x+1)
	}
	last := map[int]*msgSpec{}
	mk := func(s int) msgSpec {
		var m msgSpec
		if isFaulty[s] {
			m = faultyMsg(rng, s, n, r, last[s])
		} else {
			m = goodMsg(s, r)
		}
		cp := m
		last[s] = &cp
		return m
	}
	var honest, byz []msgSpec
	for s := 1; s <= n; s++ {
		if !isFaulty[s] {
			honest = append(honest, mk(s))
			if rng.Intn(5) == 0 {
				honest = append(honest, mk(s)) // retransmission
			}
			continue
		}
		for c := 1 + rng.Intn(3); c > 0; c-- {
			byz = append(byz, mk(s))
		}
	}
	rng.Shuffle(len(honest), func(a, b int) { honest[a], honest[b] = honest[b], honest[a] })
	rng.Shuffle(len(byz), func(a, b int) { byz[a], byz[b] = byz[b], byz[a] })
	var seq []msgSpec
	switch rng.Intn(4) {
	case 0: // the Byzantine messages first
		seq = append(append(seq, byz...), honest...)
	case 1: // the Byzantine messages around the quorum edge
		cut := 2*f - rng.Intn(2)
		if cut > len(honest) {
			cut = len(honest)
		}
		seq = append(append(append(seq, honest[:cut]...), byz...), honest[cut:]...)
	default: // any order
		seq = append(append(seq, honest...), byz...)
		rng.Shuffle(len(seq), func(a, b int) { seq[a], seq[b] = seq[b], seq[a] })
	}
	if rng.Intn(4) == 0 {
		at := rng.Intn(len(seq) + 1)
		seq = append(seq[:at:at], append([]msgSpec{foreignMsg(rng, n, r)}, seq[at:]...)...)
	}
	// after the quorum / after the submission: retransmissions and more Byzantine messages
	for c := 2 + rng.Intn(4); c > 0; c-- {
		s := 1 + rng.Intn(n)
		if rng.Intn(3) == 0 && len(e.faulty) > 0 {
			s = e.faulty[rng.Intn(len(e.faulty))]
		}
		seq = append(seq, mk(s))
	}
	e.msgs = seq
	return e
}

func recordRuns(seed int64, runs int, ns []int, roles []string, res *vh.Result, rc *recorder) {
	rng := rand.New(rand.NewSource(seed*7919 + 17))
	for k := 0; k < runs; k++ {
		n := ns[k%len(ns)]
		role := roles[rng.Intn(len(roles))]
		if rng.Intn(5) == 0 {
			for _, x := range roles {
				if x == rk.Contribution {
					role = x // the only duty with several roots gets a larger share
				}
			}
		}
		r := 1
		if role == rk.Contribution {
			r = 1 + rng.Intn(3)
		}
		runExecution(genExecution(rng, k, n, role, r), k%40 == 0, res, rc)
	}
}

// retrace: re-executes the executions of a recorded trace (slice) on fresh real runners and records them again
func retrace(path string, res *vh.Result, rc *recorder) {
	f, err := os.Open(path)
	if err != nil {
		machinery("%v", err)
	}
	defer f.Close()
	sc := bufio.NewScanner(f)
	sc.Buffer(make([]byte, 1<<20), 1<<26)
	var cur *execution
	flush := func() {
		if cur != nil {
			runExecution(*cur, true, res, rc)
		}
	}
	for sc.Scan() {
		if len(sc.Bytes()) == 0 {
			continue
		}
		var ev map[string]any
		if err := json.Unmarshal(sc.Bytes(), &ev); err != nil {
			machinery("bad trace line: %v", err)
		}
		switch vh.Str(ev, "event") {
		case "Reset":
			flush()
			cur = &execution{id: vh.Str(ev, "exec"), role: vh.Str(ev, "role"), n: vh.Int(ev, "n"), r: vh.Int(ev, "r"), faulty: vh.Ints(ev, "faulty")}
		case "Recv":
			if cur == nil {
				machinery("trace slice does not start with a Reset event")
			}
			m := msgSpec{s: vh.Int(ev, "s"), ord: vh.Ints(ev, "ord"), cls: vh.Str(ev, "cls"), sid: vh.Int(ev, "sid"), shape: vh.Str(ev, "shape")}
			for _, k := range strs(vh.List(ev, "kinds")) {
				if k == "good" {
					m.kinds, m.bad = append(m.kinds, "good"), append(m.bad, "")
				} else {
					m.kinds, m.bad = append(m.kinds, "bad"), append(m.bad, k)
				}
			}
			if m.cls == "foreign" {
				m.bad = nil
			}
			cur.msgs = append(cur.msgs, m)
		}
	}
	flush()
}

func selfTest() {
	kit := rk.New(rk.Options{N: 4})
	defer kit.Close()
	root := rk.WrongRoot(1)
	pk := kit.KS.Shares[2].GetPublicKey()
	if !verifyUnder(pk, kit.GoodSig(2, root), root) {
		machinery("self-test: a correct share signature does not verify")
	}
	for fl := 0; fl < 3; fl++ {
		if verifyUnder(pk, kit.BadSig(2, root, fl), root) {
			machinery("self-test: wrong partial signature of flavour %d verifies", fl)
		}
	}
	w := &world{t: &template{kit: kit, n: 4}}
	for _, k := range badKinds {
		if verifyUnder(pk, w.badSig(k, 2, root), root) {
			machinery("self-test: wrong partial signature of kind %s verifies", k)
		}
	}
}

func main() {
	mode := flag.String("mode", "replay", "replay | random | record | retrace")
	traceDir := flag.String("tracedir", "", "record / retrace: directory of the recorded trace files (trace_n<N>_r<R>.ndjson)")
	in := flag.String("in", "", "behaviours NDJSON")
	out := flag.String("out", "", "result JSON")
	n := flag.Int("n", 4, "committee size of the behaviours")
	r := flag.Int("r", 1, "number of roots of the behaviours")
	rolesF := flag.String("roles", "", "comma separated roles (default: all with that many roots)")
	fullEvery := flag.Int("fullevery", 50, "every k-th behaviour runs the whole duty on a fresh kit")
	seed := flag.Int64("seed", 1, "seed")
	runs := flag.Int("runs", 100, "own random executions")
	nsF := flag.String("ns", "4,7,10,13", "committee sizes of the random executions")
	flag.Parse()
	selfTest()
	res := vh.NewResult()
	roles := []string{rk.Attester, rk.Proposer, rk.ProposerBlinded, rk.Aggregator, rk.SyncCommittee, rk.Exit, rk.Registration, rk.Contribution}
	if *r > 1 {
		roles = []string{rk.Contribution}
	}
	if *rolesF != "" {
		roles = strings.Split(*rolesF, ",")
	}
	switch *mode {
	case "replay":
		behs, err := vh.ReadBehaviours(*in)
		if err != nil {
			fmt.Fprintln(os.Stderr, err)
			os.Exit(3)
		}
		for i, b := range behs {
			if strings.HasPrefix(b.Kind, "attack") {
				for _, role := range roles {
					replay(b, role, *n, *r, true, res, i)
				}
				continue
			}
			if res.Counters["cap"] > 40 {
				continue // enough evidence on a broken tree; attack traces are still replayed
			}
			replay(b, roles[(i+int(*seed))%len(roles)], *n, *r, *fullEvery > 0 && i%*fullEvery == 0, res, i)
		}
		if len(behs) > 0 {
			res.Samples = append(res.Samples, behs[len(behs)/2])
		}
	case "random":
		var ns []int
		for _, x := range strings.Split(*nsF, ",") {
			var v int
			fmt.Sscanf(x, "%d", &v)
			ns = append(ns, v)
		}
		randomRuns(*seed, *runs, ns, roles, res)
	case "record", "retrace":
		if *traceDir == "" {
			machinery("-tracedir is required")
		}
		if err := os.MkdirAll(*traceDir, 0o755); err != nil {
			machinery("%v", err)
		}
		old, _ := filepath.Glob(filepath.Join(*traceDir, "trace_n*_r*.ndjson"))
		for _, p := range old {
			os.Remove(p)
		}
		rc := &recorder{dir: *traceDir, writers: map[string]*vh.TraceWriter{}, counts: map[string]int{}}
		if *mode == "retrace" {
			retrace(*in, res, rc)
		} else {
			var ns []int
			for _, x := range strings.Split(*nsF, ",") {
				var v int
				fmt.Sscanf(x, "%d", &v)
				ns = append(ns, v)
			}
			recordRuns(*seed, *runs, ns, roles, res, rc)
		}
		rc.close()
		for k, v := range rc.counts {
			res.Counters["rec_"+k] = v
		}
	}
	if err := res.Write(*out); err != nil {
		fmt.Fprintln(os.Stderr, err)
		os.Exit(3)
	}
}
