// Package vh holds the plumbing shared by the /verif harness drivers: NDJSON behaviour input,
// result output, violation / divergence bookkeeping.
package vh

import (
	"bufio"
	"encoding/json"
	"fmt"
	"os"
)

// Step is one spec step: the `act` record of the TLA+ state and (optionally) the projected spec state after it.
type Step struct {
	Act   map[string]any `json:"act"`
	State map[string]any `json:"state,omitempty"`
}

// Behaviour is one TLC behaviour (simulation run, shortest path of the state graph, or attack trace).
type Behaviour struct {
	ID   string `json:"id"`
	Kind string `json:"kind"` // "sim" | "cover" | "attack:<guard>" | "own"
	// Params: constants of the TLC config the behaviour came from (committee size, Byzantine set, ...)
	Params map[string]any `json:"params,omitempty"`
	Steps  []Step         `json:"steps"`
}

// Violation is a property-monitor trip observed on the real code.
type Violation struct {
	Signature   string `json:"signature"`
	Description string `json:"description"`
	Behaviour   string `json:"behaviour"`
	Step        int    `json:"step"`
}

// Divergence is a conformance mismatch (real projection != spec prediction) without a monitor trip.
type Divergence struct {
	Behaviour string `json:"behaviour"`
	Step      int    `json:"step"`
	Field     string `json:"field"`
	Spec      any    `json:"spec"`
	Real      any    `json:"real"`
}

// Result is what every driver writes.
type Result struct {
	Behaviours  int            `json:"behaviours"`
	Steps       int            `json:"steps"`
	Nontrivial  int            `json:"nontrivial"`
	Violations  []Violation    `json:"violations"`
	Divergences []Divergence   `json:"divergences"`
	Counters    map[string]int `json:"counters"`
	Notes       []string       `json:"notes"`
	Samples     []any          `json:"samples"`
}

func NewResult() *Result {
	return &Result{Counters: map[string]int{}, Violations: []Violation{}, Divergences: []Divergence{}, Notes: []string{}, Samples: []any{}}
}

func (r *Result) Violate(sig, desc, beh string, step int) {
	if len(r.Violations) < 200 {
		r.Violations = append(r.Violations, Violation{sig, desc, beh, step})
	}
	r.Counters["violations"]++
}

func (r *Result) Diverge(beh string, step int, field string, spec, real any) {
	if len(beh) >= 6 && beh[:6] == "attack" {
		// an attack trace comes from a deliberately weakened spec: the real code is expected to refuse it
		r.Counters["attack_steps_refused"]++
		return
	}
	if len(r.Divergences) < 50 {
		r.Divergences = append(r.Divergences, Divergence{beh, step, field, spec, real})
	}
	r.Counters["divergences"]++
}

func ReadBehaviours(path string) ([]Behaviour, error) {
	f, err := os.Open(path)
	if err != nil {
		return nil, err
	}
	defer f.Close()
	var out []Behaviour
	sc := bufio.NewScanner(f)
	sc.Buffer(make([]byte, 1<<20), 1<<28)
	for sc.Scan() {
		if len(sc.Bytes()) == 0 {
			continue
		}
		var b Behaviour
		if err := json.Unmarshal(sc.Bytes(), &b); err != nil {
			return nil, fmt.Errorf("bad behaviour line: %w", err)
		}
		out = append(out, b)
	}
	return out, sc.Err()
}

func (r *Result) Write(path string) error {
	b, err := json.Marshal(r)
	if err != nil {
		return err
	}
	return os.WriteFile(path, b, 0o644)
}

// helpers to read loosely typed act fields
func Str(m map[string]any, k string) string {
	if v, ok := m[k].(string); ok {
		return v
	}
	return ""
}
func Int(m map[string]any, k string) int {
	switch v := m[k].(type) {
	case float64:
		return int(v)
	case int:
		return v
	}
	return 0
}
func Bool(m map[string]any, k string) bool {
	v, _ := m[k].(bool)
	return v
}
func Ints(m map[string]any, k string) []int {
	var out []int
	if l, ok := m[k].([]any); ok {
		for _, x := range l {
			if f, ok := x.(float64); ok {
				out = append(out, int(f))
			}
		}
	}
	return out
}
func Map(m map[string]any, k string) map[string]any {
	v, _ := m[k].(map[string]any)
	return v
}
func List(m map[string]any, k string) []any {
	v, _ := m[k].([]any)
	return v
}

// NDJSON trace writer (events recorded from the real code for trace validation by TLC)
type TraceWriter struct {
	f *os.File
	w *bufio.Writer
	N int
}

func NewTraceWriter(path string) (*TraceWriter, error) {
	f, err := os.Create(path)
	if err != nil {
		return nil, err
	}
	return &TraceWriter{f: f, w: bufio.NewWriter(f)}, nil
}
func (t *TraceWriter) Emit(ev map[string]any) {
	b, _ := json.Marshal(ev)
	t.w.Write(b)
	t.w.WriteByte('\n')
	t.N++
}
func (t *TraceWriter) Close() error {
	if err := t.w.Flush(); err != nil {
		return err
	}
	return t.f.Close()
}
